Require Import HeapSift_proto.
From Coq Require Import List Arith Lia Bool.
Import ListNotations.

(* heapz.Heap (heap.go): the slice holds *Element; Element.index is kept in step by swapEle.
   Elements are ids (nat); val is fixed while a sift runs; idx is the store of index fields. *)
Section Handles.
Variable V : Type.
Variable val : nat -> V.
Variable lt : V -> V -> bool.
Definition ltE (a b : nat) : bool := lt (val a) (val b).       (* rcmp in Heap.init *)

Definition st := (list nat * (nat -> nat))%type.
Definition set_idx (idx : nat -> nat) (e k : nat) : nat -> nat := fun x => if x =? e then k else idx x.

(* swapEle: s[i], s[j] = s[j], s[i]; s[i].index = i; s[j].index = j *)
Definition swapE (t : st) (i j : nat) : st :=
  let s' := swap nat 0 (fst t) i j in
  (s', set_idx (set_idx (snd t) (nth i s' 0) i) (nth j s' 0) j).

Fixpoint down_goE (fuel : nat) (t : st) (i n : nat) : st * nat :=
  match fuel with
  | O => (t, i)
  | S f =>
      let s := fst t in
      let j1 := 2 * i + 1 in
      if n <=? j1 then (t, i) else
      let j := if (j1 + 1 <? n) && ltE (nth (j1 + 1) s 0) (nth j1 s 0) then j1 + 1 else j1 in
      if ltE (nth j s 0) (nth i s 0) then down_goE f (swapE t i j) j n else (t, i)
  end.
Fixpoint up_goE (fuel : nat) (t : st) (j : nat) : st :=
  match fuel with
  | O => t
  | S f =>
      let s := fst t in
      let i := (j - 1) / 2 in
      if (i =? j) || negb (ltE (nth j s 0) (nth i s 0)) then t else up_goE f (swapE t i j) i
  end.

(* every slot's element knows its own position; no element sits in two slots *)
Definition Hd (t : st) : Prop := NoDup (fst t) /\ forall k, k < length (fst t) -> snd t (nth k (fst t) 0) = k.

Lemma NoDup_nth_inj (s : list nat) i j : NoDup s -> i < length s -> j < length s -> nth i s 0 = nth j s 0 -> i = j.
Proof. intros H Hi Hj E. apply (proj1 (NoDup_nth s 0) H i j Hi Hj E). Qed.

Lemma swapE_Hd t i j : Hd t -> i < length (fst t) -> j < length (fst t) -> Hd (swapE t i j).
Proof.
  intros [Hn Hi] Li Lj. destruct t as [s idx]. cbn [fst snd] in *. unfold swapE, Hd. cbn [fst snd].
  assert (Hp : Permutation.Permutation (swap nat 0 s i j) s) by (apply upd_nth_perm_swap; auto).
  split.
  - eapply Permutation.Permutation_NoDup; [apply Permutation.Permutation_sym; exact Hp|exact Hn].
  - rewrite swap_length. intros k Hk. unfold set_idx. rewrite !nth_swap by auto. rewrite !Nat.eqb_refl.
    destruct (Nat.eqb_spec i j) as [<-|Hij].
    + destruct (Nat.eqb_spec k i) as [->|Hki]; [rewrite Nat.eqb_refl; reflexivity|].
      destruct (Nat.eqb_spec (nth k s 0) (nth i s 0)) as [E|_]; [apply NoDup_nth_inj in E; auto; lia|]. auto.
    + destruct (Nat.eqb_spec k j) as [->|Hkj]; [rewrite Nat.eqb_refl; reflexivity|].
      destruct (Nat.eqb_spec k i) as [->|Hki].
      * destruct (Nat.eqb_spec (nth j s 0) (nth i s 0)) as [E|_]; [apply NoDup_nth_inj in E; auto; lia|].
        rewrite Nat.eqb_refl. reflexivity.
      * destruct (Nat.eqb_spec (nth k s 0) (nth i s 0)) as [E|_]; [apply NoDup_nth_inj in E; auto; lia|].
        destruct (Nat.eqb_spec (nth k s 0) (nth j s 0)) as [E|_]; [apply NoDup_nth_inj in E; auto; lia|]. auto.
Qed.

Lemma swapE_fst t i j : fst (swapE t i j) = swap nat 0 (fst t) i j.
Proof. reflexivity. Qed.

(* the element-level loops move the pointers exactly as the slice-level loops of HeapSift_proto *)
Lemma down_goE_fst : forall fuel t i n,
  (fst (fst (down_goE fuel t i n)), snd (down_goE fuel t i n)) = down_go nat 0 ltE fuel (fst t) i n.
Proof.
  induction fuel as [|f IH]; intros t i n; cbn [down_goE down_go]; [reflexivity|].
  destruct (n <=? 2 * i + 1); [reflexivity|].
  match goal with |- context [if ltE ?a ?b then _ else _] => destruct (ltE a b) end; [|reflexivity].
  rewrite IH. reflexivity.
Qed.
Lemma up_goE_fst : forall fuel t j, fst (up_goE fuel t j) = up_go nat 0 ltE fuel (fst t) j.
Proof.
  induction fuel as [|f IH]; intros t j; cbn [up_goE up_go]; [reflexivity|].
  match goal with |- context [if ?c then _ else _] => destruct c end; [reflexivity|]. rewrite IH. reflexivity.
Qed.

Lemma down_goE_Hd : forall fuel t i n, Hd t -> n <= length (fst t) -> i < n -> Hd (fst (down_goE fuel t i n)).
Proof.
  induction fuel as [|f IH]; intros t i n H Hn Hi; cbn [down_goE]; [exact H|].
  destruct (Nat.leb_spec n (2 * i + 1)); [exact H|].
  set (j := if (2 * i + 1 + 1 <? n) && _ then 2 * i + 1 + 1 else 2 * i + 1).
  assert (Hj : j < n) by (unfold j; destruct (Nat.ltb_spec (2 * i + 1 + 1) n); cbn [andb]; [destruct (ltE _ _)|]; lia).
  destruct (ltE (nth j (fst t) 0) (nth i (fst t) 0)); [|exact H].
  apply IH; auto. apply swapE_Hd; auto; lia. rewrite swapE_fst, swap_length. lia.
Qed.
Lemma up_goE_Hd : forall fuel t j, Hd t -> j < length (fst t) -> Hd (up_goE fuel t j).
Proof.
  induction fuel as [|f IH]; intros t j H Hj; cbn [up_goE]; [exact H|].
  match goal with |- context [if ?c then _ else _] => destruct c end; [exact H|].
  assert ((j - 1) / 2 <= j) by (apply Nat.div_le_upper_bound; lia).
  apply IH. apply swapE_Hd; auto; lia. rewrite swapE_fst, swap_length. lia.
Qed.

(* PushElement: e.index = len; append; up *)
Definition pushE (t : st) (e : nat) : st :=
  up_goE (S (length (fst t))) (fst t ++ [e], set_idx (snd t) e (length (fst t))) (length (fst t)).
Theorem pushE_Hd t e : Hd t -> ~ In e (fst t) -> Hd (pushE t e).
Proof.
  intros [Hn Hi] He. unfold pushE. apply up_goE_Hd; cbn [fst snd]; [|rewrite app_length; cbn; lia].
  split; cbn [fst snd].
  - apply Permutation.Permutation_NoDup with (l := e :: fst t); [apply Permutation.Permutation_cons_append|constructor; auto].
  - intros k Hk. rewrite app_length in Hk. cbn [length] in Hk. unfold set_idx.
    destruct (Nat.eq_dec k (length (fst t))) as [->|Hne].
    + rewrite app_nth2, Nat.sub_diag by lia. cbn [nth]. rewrite Nat.eqb_refl. reflexivity.
    + rewrite app_nth1 by lia. destruct (Nat.eqb_spec (nth k (fst t) 0) e) as [E|_]; [|apply Hi; lia].
      exfalso. apply He. rewrite <- E. apply nth_In. lia.
Qed.

(* Remove/Fix guard: Element.index is exactly where the element sits, so "values[e.index] == e" *)
Corollary handle_points_back t e : Hd t -> In e (fst t) -> snd t e < length (fst t) /\ nth (snd t e) (fst t) 0 = e.
Proof.
  intros [Hn Hi] He. destruct (In_nth _ _ 0 He) as (k & Hk & <-). rewrite (Hi k Hk). auto.
Qed.

(* values seen through the pointers: the pointer-level sift is the value-level sift of HeapSift_proto *)
Lemma map_upd (l : list nat) i x : map val (upd nat l i x) = upd V (map val l) i (val x).
Proof. revert i; induction l as [|a l IH]; intros [|i]; cbn [upd map]; auto. rewrite IH. reflexivity. Qed.
Lemma map_swap s i j : map val (swap nat 0 s i j) = swap V (val 0) (map val s) i j.
Proof. unfold swap. rewrite !map_upd. rewrite !(map_nth val). reflexivity. Qed.
Lemma down_go_map : forall fuel s i n,
  (map val (fst (down_go nat 0 ltE fuel s i n)), snd (down_go nat 0 ltE fuel s i n)) = down_go V (val 0) lt fuel (map val s) i n.
Proof.
  induction fuel as [|f IH]; intros s i n; cbn [down_go]; [reflexivity|].
  destruct (n <=? 2 * i + 1); [reflexivity|]. unfold ltE. rewrite <- !(map_nth val).
  match goal with |- context [if lt ?a ?b then down_go _ _ _ _ _ _ _ else _] => destruct (lt a b) end; [|reflexivity].
  rewrite IH, map_swap. reflexivity.
Qed.
Lemma up_go_map : forall fuel s j, map val (up_go nat 0 ltE fuel s j) = up_go V (val 0) lt fuel (map val s) j.
Proof.
  induction fuel as [|f IH]; intros s j; cbn [up_go]; [reflexivity|]. unfold ltE. rewrite <- !(map_nth val).
  match goal with |- context [if ?c then _ else _] => destruct c end; [reflexivity|]. rewrite IH, map_swap. reflexivity.
Qed.
End Handles.
Print Assumptions pushE_Hd.
Print Assumptions down_goE_Hd.
Print Assumptions down_goE_fst.
Print Assumptions down_go_map.
Print Assumptions up_go_map.
