From Coq Require Import List ZArith Arith Lia Bool.
Import ListNotations.

(* ---- slicez.Chunk (slices.go:260-281): consecutive pieces of chunkSize, concatenation is the input ---- *)
Fixpoint chunk_loop (A : Type) (s : list A) (size : nat) (n : nat) (start : nat) (acc : list (list A)) : list (list A) * nat :=
  match n with
  | O => (acc, start)
  | S k => chunk_loop A s size k (start + size) (acc ++ [firstn size (skipn start s)])        (* s[start:start+size] *)
  end.
Definition chunk (A : Type) (s : list A) (size : Z) : list (list A) :=
  if (length s =? 0)%nat then [] else
  if (size <? 1)%Z || (Z.of_nat (length s) <=? size)%Z then [s] else
  let sz := Z.to_nat size in
  let '(acc, start) := chunk_loop A s sz (length s / sz) 0 [] in
  if (start <? length s)%nat then acc ++ [skipn start s] else acc.

Lemma chunk_loop_spec (A : Type) (s : list A) size : 0 < size -> forall n start acc,
  start + n * size <= length s ->
  let '(acc', start') := chunk_loop A s size n start acc in
  start' = start + n * size /\ exists new, acc' = acc ++ new /\ concat new = firstn (n * size) (skipn start s) /\
    Forall (fun c => length c = size) new /\ length new = n.
Proof.
  intros Hs. induction n as [|k IH]; intros start acc Hb; cbn [chunk_loop].
  - split; [lia|]. exists []. rewrite app_nil_r. repeat split; auto.
  - specialize (IH (start + size) (acc ++ [firstn size (skipn start s)]) ltac:(lia)).
    destruct (chunk_loop A s size k (start + size) _) as [acc' start']. destruct IH as (E & new & -> & C & F & L).
    split; [lia|]. exists (firstn size (skipn start s) :: new). rewrite <- app_assoc. repeat split; auto.
    + cbn [concat]. rewrite C. replace (S k * size) with (size + k * size) by lia.
      rewrite <- (firstn_skipn size (firstn (size + k * size) (skipn start s))).
      rewrite firstn_firstn, Nat.min_l by lia. f_equal.
      rewrite skipn_firstn_comm. replace (size + k * size - size) with (k * size) by lia. f_equal.
      clear. revert s. induction start as [|st IH]; intros s; [rewrite Nat.add_0_l; reflexivity|]. destruct s; [rewrite !skipn_nil; reflexivity|]. cbn [skipn Nat.add]. apply IH.
    + constructor; auto. rewrite firstn_length, skipn_length. lia.
    + cbn [length]. lia.
Qed.

Theorem chunk_spec (A : Type) (s : list A) size :
  concat (chunk A s size) = s /\
  (s <> [] -> (1 <= size)%Z -> (size < Z.of_nat (length s))%Z ->
     forall i, i + 1 < length (chunk A s size) -> length (nth i (chunk A s size) []) = Z.to_nat size) /\
  (s <> [] -> Forall (fun c => c <> []) (chunk A s size)).
Proof.
  unfold chunk. destruct (Nat.eqb_spec (length s) 0) as [E0|E0].
  - destruct s; [|discriminate]. repeat split; auto; try congruence.
  - destruct (Z.ltb_spec size 1) as [H1|H1]; cbn [orb].
    + split; [cbn; apply app_nil_r|]. split; [lia|]. intros Hne. constructor; auto.
    + destruct (Z.leb_spec (Z.of_nat (length s)) size) as [H2|H2].
      * split; [cbn; apply app_nil_r|]. split; [lia|]. intros Hne. constructor; auto.
      * set (sz := Z.to_nat size). assert (Hsz : 0 < sz < length s) by (unfold sz; lia).
        pose proof (Nat.div_mod (length s) sz ltac:(lia)) as Dm. pose proof (Nat.mod_upper_bound (length s) sz ltac:(lia)) as Mb.
        pose proof (chunk_loop_spec A s sz ltac:(lia) (length s / sz) 0 [] ltac:(nia)) as L.
        destruct (chunk_loop A s sz (length s / sz) 0 []) as [acc start]. destruct L as (-> & new & -> & C & F & Ln). cbn [app Nat.add skipn] in *.
        assert (Hq : 1 <= length s / sz) by (apply Nat.div_le_lower_bound; lia).
        destruct (Nat.ltb_spec (length s / sz * sz) (length s)) as [Hr|Hr].
        -- split; [|split].
           ++ rewrite concat_app, C. cbn [concat]. rewrite app_nil_r. apply firstn_skipn.
           ++ intros _ _ _ i Hi. rewrite app_length in Hi. cbn [length] in Hi. rewrite app_nth1 by lia.
              rewrite Forall_forall in F. apply F. apply nth_In. lia.
           ++ intros _. apply Forall_app. split.
              ** eapply Forall_impl; [|exact F]. cbv beta. intros c Hc ->. cbn in Hc. lia.
              ** constructor; auto. intros E. apply (f_equal (@length A)) in E. rewrite skipn_length in E. cbn in E. lia.
        -- split; [|split].
           ++ rewrite C. apply firstn_all2. nia.
           ++ intros _ _ _ i Hi. rewrite Forall_forall in F. apply F. apply nth_In. lia.
           ++ intros _. eapply Forall_impl; [|exact F]. cbv beta. intros c Hc ->. cbn in Hc. lia.
Qed.

(* ---- strz.IPv4ToLong(LongToIPv4(x)) = x: the arithmetic (decimal text of the four bytes is strconv/net, trusted) ---- *)
Local Open Scope Z_scope.
Definition u32 (x : Z) : Z := x mod 2 ^ 32.
Definition bytes_of (x : Z) : list Z := [(x / 2 ^ 24) mod 256; (x / 2 ^ 16) mod 256; (x / 2 ^ 8) mod 256; x mod 256].
Definition long_of (bs : list Z) : Z := fold_left (fun acc n => u32 (u32 (acc * 256) + n)) bs 0.     (* long<<8 + uint32(n) *)
Theorem ipv4_roundtrip x : 0 <= x < 2 ^ 32 -> long_of (bytes_of x) = x.
Proof.
  intros H. unfold long_of, bytes_of, u32. cbn [fold_left].
  change (2 ^ 32) with 4294967296 in *. change (2 ^ 24) with 16777216. change (2 ^ 16) with 65536. change (2 ^ 8) with 256.
  Z.div_mod_to_equations. lia.
Qed.
Print Assumptions chunk_spec.
Print Assumptions ipv4_roundtrip.
