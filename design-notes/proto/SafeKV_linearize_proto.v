From Coq Require Import List Arith Lia Bool ZArith.
Import ListNotations.
Require Import SafeKV_atomicity_proto.

(* C12, the link from "critical sections are atomic" to "the history is that of a plain map":
   the map, as seen outside write sections, is the initial map with the effects of the completed write
   sections applied one whole section after another, in the order of their unlocks. *)
Section Lin.
Variable methods : list skel.
Variable eff : nat -> map_ -> map_.
Hypothesis methods_ok : forallb (wl None) methods = true.
Notation step := (step methods eff).
Notation apply_all := (apply_all eff).
Notation Inv := (Inv eff).

Definition isW (t : thread) : bool := match hold t with Some W => true | _ => false end.
(* the committed map: what the map was when the current writer (if any) came in *)
Definition base (c : config) : map_ := match find isW (ths c) with Some t => snap t | None => mp c end.
(* the write section that a step completes, as the list of its effects *)
Definition commit_of (c : config) (e : nat * nat) : list nat :=
  match nth_error (ths c) (fst e) with
  | Some t => match rest t with Rel W :: _ => done_ t | _ => [] end
  | None => []
  end.
Fixpoint commits (c : config) (sched : list (nat * nat)) : list nat :=
  match sched with [] => [] | e :: s => commit_of c e ++ commits (step c e) s end.

Lemma find_none_count (f : thread -> bool) l : length (filter f l) = 0 -> find f l = None.
Proof. induction l as [|a l IH]; cbn [filter find]; auto. destruct (f a); cbn [length]; [lia|auto]. Qed.
Lemma find_upd_false (f : thread -> bool) l i t t' : nth_error l i = Some t -> f t = false -> f t' = false -> find f (upd l i t') = find f l.
Proof.
  revert i; induction l as [|a l IH]; intros [|i] H Ht Ht'; cbn [nth_error upd find] in *; try discriminate; auto.
  - inversion H; subst. rewrite Ht, Ht'. reflexivity.
  - destruct (f a); auto.
Qed.
Lemma find_upd_new (f : thread -> bool) l i t t' : nth_error l i = Some t -> length (filter f l) = 0 -> f t' = true -> find f (upd l i t') = Some t'.
Proof.
  revert i; induction l as [|a l IH]; intros [|i] H Hc Ht'; cbn [nth_error upd find filter] in *; try discriminate.
  - rewrite Ht'. reflexivity.
  - destruct (f a); cbn [length] in Hc; [lia|]. apply IH; auto.
Qed.
Lemma find_unique (f : thread -> bool) l i t : nth_error l i = Some t -> f t = true -> length (filter f l) <= 1 ->
  find f l = Some t /\ forall t', find f (upd l i t') = if f t' then Some t' else None.
Proof.
  revert i; induction l as [|a l IH]; intros [|i] H Ht Hc; cbn [nth_error upd find filter] in *; try discriminate.
  - inversion H; subst. rewrite Ht in *. cbn [length] in Hc. split; auto. intros t'. destruct (f t'); auto.
    apply find_none_count. lia.
  - destruct (f a) eqn:Ea; cbn [length] in Hc.
    + pose proof (filter_one f l i t H Ht). lia.
    + apply IH; auto.
Qed.

Lemma base_ok c : Inv c -> writer (lk c) = false -> base c = mp c.
Proof.
  intros HI Hw. unfold base. rewrite find_none_count; auto. pose proof (i_w eff c HI) as E. rewrite Hw in E. symmetry. exact E.
Qed.

Lemma base_step c e : Inv c -> base (step c e) = apply_all (commit_of c e) (base c).
Proof.
  intros HI. pose proof HI as [Ht Hr Hw Hex]. destruct e as [i k]. unfold SafeKV_atomicity_proto.step, commit_of. cbn [fst].
  destruct (nth_error (ths c) i) as [t|] eqn:Hi; [|reflexivity].
  assert (Hti : tok eff (mp c) t) by (rewrite Forall_forall in Ht; apply Ht; eapply nth_error_In; eauto).
  destruct Hti as [Hwl Hg]. unfold cntW in Hw. fold isW in Hw.
  assert (Hle : length (filter isW (ths c)) <= 1) by (destruct (writer (lk c)); lia).
  destruct t as [rs h sn se dn]. cbn [rest hold snap seen done_] in *. unfold tstep; cbn [rest hold snap seen done_].
  destruct rs as [|[mo|mo| |f] r]; cbn [wl] in Hwl.
  - destruct h; [discriminate|]. unfold base. cbn [ths mp]. rewrite (find_upd_false isW _ i _ _ Hi); auto.
  - destruct h; [discriminate|]. destruct mo.
    + destruct (negb (writer (lk c))); unfold base; cbn [ths mp].
      * rewrite (find_upd_false isW _ i _ _ Hi); auto.
      * rewrite (upd_same _ _ _ Hi). reflexivity.
    + destruct (negb (writer (lk c)) && (readers (lk c) =? 0)) eqn:Ew; unfold base; cbn [ths mp].
      * apply andb_prop in Ew. destruct Ew as [Ew _]. apply negb_true_iff in Ew. rewrite Ew in Hw.
        rewrite (find_upd_new isW _ i _ _ Hi); auto. cbn [snap]. rewrite find_none_count; auto.
      * rewrite (upd_same _ _ _ Hi). reflexivity.
  - destruct h as [[|]|]; destruct mo; try discriminate; unfold base; cbn [ths mp].
    + rewrite (find_upd_false isW _ i _ _ Hi); auto.
    + destruct (find_unique isW _ i _ Hi eq_refl Hle) as [F1 F2]. rewrite F1, F2. cbn [isW hold snap]. exact Hg.
  - destruct h as [mh|]; [|discriminate]. unfold base; cbn [ths mp]. destruct mh.
    + rewrite (find_upd_false isW _ i _ _ Hi); auto.
    + destruct (find_unique isW _ i _ Hi eq_refl Hle) as [F1 F2]. rewrite F1, F2. reflexivity.
  - destruct h as [[|]|]; try discriminate. unfold base; cbn [ths mp].
    destruct (find_unique isW _ i _ Hi eq_refl Hle) as [F1 F2]. rewrite F1, F2. reflexivity.
Qed.

Lemma apply_all_app a b m : apply_all (a ++ b) m = apply_all b (apply_all a m).
Proof. unfold SafeKV_atomicity_proto.apply_all. apply fold_left_app. Qed.

Theorem base_run : forall sched c, Inv c -> base (run methods eff c sched) = apply_all (commits c sched) (base c).
Proof.
  induction sched as [|e s IH]; intros c HI; cbn [run fold_left commits]; [reflexivity|].
  change (fold_left step s (step c e)) with (run methods eff (step c e) s).
  rewrite IH by (apply step_inv; auto). rewrite base_step by auto. rewrite apply_all_app. reflexivity.
Qed.

(* whenever no write section is open, the map is the initial map with the completed write sections
   applied whole, in unlock order; in particular every read section (which can only start then) works on
   exactly that map, and by critical_sections_atomic keeps seeing it until it unlocks *)
Theorem map_is_sequential n m0 sched : let c := run methods eff (init n m0) sched in
  writer (lk c) = false -> mp c = apply_all (commits (init n m0) sched) m0.
Proof.
  cbv zeta. intros Hw. pose proof (run_inv methods eff methods_ok sched _ (init_inv eff n m0)) as HI.
  rewrite <- (base_ok _ HI Hw). rewrite base_run by apply init_inv. f_equal.
  apply base_ok; [apply init_inv|reflexivity].
Qed.
End Lin.
Print Assumptions map_is_sequential.
