From Coq Require Import List ZArith Lia Bool.
Import ListNotations.
Require Import Utf8_proto.

(* the decoder looks only at the bytes of the rune it reports: this is the hypothesis sz_local of
   MaskRunes_proto / the width function of SubRunes_proto, for the real UTF-8 decoder *)
Ltac brk := repeat match goal with
  | |- context [if ?c then _ else _] => destruct c eqn:?
  | H : context [if ?c then _ else _] |- _ => destruct c eqn:?
  end.

Theorem decode_local r x : r <> [] -> (snd (decode (r ++ x)) <= length r)%nat -> decode r = decode (r ++ x).
Proof.
  intros Hne Hw.
  destruct r as [|b0 [|b1 [|b2 [|b3 r']]]]; [congruence| | | |].
  - (* one byte available *)
    cbn [app] in *. destruct x as [|x0 [|x1 [|x2 x']]]; cbn [decode length snd] in *; brk; cbn [snd] in *; try reflexivity; try lia.
  - cbn [app] in *. destruct x as [|x0 [|x1 x']]; cbn [decode length snd] in *; brk; cbn [snd] in *; try reflexivity; try lia.
  - cbn [app] in *. destruct x as [|x0 x']; cbn [decode length snd] in *; brk; cbn [snd] in *; try reflexivity; try lia.
  - cbn [app decode]. reflexivity.
Qed.

Definition width (s : list Z) : nat := snd (decode s).
Corollary width_pos s : s <> [] -> (1 <= width s <= length s)%nat.
Proof. intros H. unfold width. pose proof (decode_width s H). lia. Qed.
Corollary width_local r x : r <> [] -> (width (r ++ x) <= length r)%nat -> width r = width (r ++ x).
Proof. intros H1 H2. unfold width in *. rewrite (decode_local r x H1 H2). reflexivity. Qed.
Print Assumptions decode_local.
