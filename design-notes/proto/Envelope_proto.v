From Coq Require Import List ZArith Lia Bool Arith.
Import ListNotations.

(* cryptz/crypt.go: the "Salted__" envelope around AES-CBC, with crypto/md5 and the C08 layer as section parameters.
   Slices are checked: a slice expression that would panic in Go yields Panic here. *)
Inductive res (A : Type) := Ok (a : A) | Err (e : nat) | Panic.
Arguments Ok {A}. Arguments Err {A}. Arguments Panic {A}.

Definition bytes := list Z.
Definition slice (l : bytes) (a b : nat) : option bytes :=            (* l[a:b] with cap = len *)
  if (a <=? b) && (b <=? length l) then Some (firstn (b - a) (skipn a l)) else None.
Definition header : bytes := [83; 97; 108; 116; 101; 100; 95; 95]%Z.   (* "Salted__" *)
Definition beq (a b : bytes) : bool := if list_eq_dec Z.eq_dec a b then true else false.

Section Envelope.
Variable md5 : bytes -> bytes.
Hypothesis md5_len : forall m, length (md5 m) = 16.
(* AESCBCEncrypt / AESCBCDecrypt of C08, key 32 bytes, iv 16 bytes *)
Variable cbcE : bytes -> bytes -> bytes -> bytes.
Variable cbcD : bytes -> bytes -> bytes -> res bytes.
Hypothesis cbc_rt : forall k iv p, length k = 32 -> length iv = 16 -> cbcD k iv (cbcE k iv p) = Ok p.
Hypothesis cbcE_len : forall k iv p, length (cbcE k iv p) = 16 * (length p / 16 + 1).
Hypothesis cbcD_safe : forall k iv c, length k = 32 -> length iv = 16 -> cbcD k iv c <> Panic.

(* fillCred: for i in 0..2 { buf = prevSum[:n] ++ secret ++ salt; prevSum = md5(buf); copy(cred[16i:], prevSum) } *)
Fixpoint fill_loop (i : nat) (prev : bytes) (secret salt : bytes) : bytes :=
  match i with
  | O => []
  | S k => let d := md5 (prev ++ secret ++ salt) in d ++ fill_loop k d secret salt
  end.
Definition fill_cred (secret salt : bytes) : bytes := fill_loop 3 [] secret salt.

(* openssl's EVP_BytesToKey with MD5, one round, 48 bytes *)
Definition evp (secret salt : bytes) : bytes :=
  let d1 := md5 (secret ++ salt) in let d2 := md5 (d1 ++ secret ++ salt) in let d3 := md5 (d2 ++ secret ++ salt) in d1 ++ d2 ++ d3.
Theorem fill_cred_evp secret salt : fill_cred secret salt = evp secret salt /\ length (fill_cred secret salt) = 48.
Proof. split; [unfold fill_cred, evp; cbn [fill_loop app]; rewrite app_nil_r; reflexivity|]. unfold fill_cred. cbn [fill_loop]. rewrite !app_length, !md5_len. reflexivity. Qed.

Definition enc (salt secret pt : bytes) : bytes :=
  let cred := fill_cred secret salt in
  header ++ salt ++ cbcE (firstn 32 cred) (skipn 32 cred) pt.

(* SaltBySecretCBCDecrypt *)
Definition dec (ct secret : bytes) : res bytes :=
  if (length ct <? 32) || negb (length ct mod 16 =? 0) then Err 1 else
  match slice ct 0 8 with None => Panic | Some h =>
  if negb (beq h header) then Err 2 else
  match slice ct 8 16 with None => Panic | Some salt =>
  let cred := fill_cred secret salt in
  match slice cred 0 32, slice cred 32 48, slice ct 16 (length ct) with
  | Some k, Some iv, Some body => cbcD k iv body
  | _, _, _ => Panic
  end end end.

Lemma slice_ok l a b : a <= b -> b <= length l -> slice l a b = Some (firstn (b - a) (skipn a l)).
Proof. intros H1 H2. unfold slice. destruct (Nat.leb_spec a b), (Nat.leb_spec b (length l)); try lia. reflexivity. Qed.
Lemma slice_len l a b s : slice l a b = Some s -> length s = b - a.
Proof.
  unfold slice. destruct (Nat.leb_spec a b), (Nat.leb_spec b (length l)); cbn [andb]; try discriminate.
  intros E. inversion E. rewrite firstn_length, skipn_length. lia.
Qed.

(* every input is answered with a result or an error: no slice expression can go out of range *)
Theorem dec_total ct secret : dec ct secret <> Panic.
Proof.
  unfold dec. destruct (Nat.ltb_spec (length ct) 32) as [|Hlen]; cbn [orb]; [discriminate|].
  destruct (negb (length ct mod 16 =? 0)); [discriminate|].
  rewrite (slice_ok ct 0 8) by lia. destruct (negb (beq _ header)); [discriminate|].
  rewrite (slice_ok ct 8 16) by lia. set (salt := firstn (16 - 8) (skipn 8 ct)).
  destruct (fill_cred_evp secret salt) as [_ Hc].
  rewrite (slice_ok _ 0 32), (slice_ok _ 32 48), (slice_ok ct 16 (length ct)) by lia.
  apply cbcD_safe; rewrite firstn_length, skipn_length; lia.
Qed.

Lemma firstn_len_app (a b : bytes) n : length a = n -> firstn n (a ++ b) = a.
Proof. intros <-. rewrite firstn_app, Nat.sub_diag, firstn_all. cbn [firstn]. apply app_nil_r. Qed.
Lemma skipn_len_app (a b : bytes) n : length a = n -> skipn n (a ++ b) = b.
Proof. intros <-. rewrite skipn_app, Nat.sub_diag, skipn_all. reflexivity. Qed.

Theorem enc_format salt secret pt : length salt = 8 ->
  firstn 8 (enc salt secret pt) = header /\ firstn 8 (skipn 8 (enc salt secret pt)) = salt /\
  length (enc salt secret pt) = 16 + 16 * (length pt / 16 + 1).
Proof.
  intros Hs. unfold enc. split; [apply firstn_len_app; reflexivity|]. split.
  - rewrite (skipn_len_app header) by reflexivity. apply firstn_len_app; auto.
  - rewrite !app_length, cbcE_len, Hs. reflexivity.
Qed.

Theorem dec_enc salt secret pt : length salt = 8 -> dec (enc salt secret pt) secret = Ok pt.
Proof.
  intros Hs. destruct (enc_format salt secret pt Hs) as (F1 & F2 & F3). unfold dec. rewrite F3.
  destruct (Nat.ltb_spec (16 + 16 * (length pt / 16 + 1)) 32); [lia|]. cbn [orb].
  assert (Hm : (16 + 16 * (length pt / 16 + 1)) mod 16 = 0).
  { replace (16 + 16 * (length pt / 16 + 1)) with ((1 + (length pt / 16 + 1)) * 16) by lia. apply Nat.mod_mul. lia. }
  rewrite Hm.
  cbn [Nat.eqb negb]. rewrite (slice_ok _ 0 8) by lia. rewrite skipn_O, Nat.sub_0_r, F1.
  unfold beq at 1. destruct (list_eq_dec Z.eq_dec header header); [|congruence]. cbn [negb].
  rewrite (slice_ok _ 8 16) by lia. change (16 - 8) with 8. rewrite F2.
  destruct (fill_cred_evp secret salt) as [_ Hc].
  rewrite (slice_ok _ 0 32), (slice_ok _ 32 48), (slice_ok _ 16 _) by lia.
  rewrite skipn_O, Nat.sub_0_r. change (48 - 32) with 16.
  assert (E : skipn 16 (enc salt secret pt) = cbcE (firstn 32 (fill_cred secret salt)) (skipn 32 (fill_cred secret salt)) pt).
  { unfold enc. rewrite app_assoc. apply skipn_len_app. rewrite app_length, Hs. reflexivity. }
  rewrite E. replace (16 + 16 * (length pt / 16 + 1) - 16) with (16 * (length pt / 16 + 1)) by lia.
  rewrite <- (cbcE_len (firstn 32 (fill_cred secret salt)) (skipn 32 (fill_cred secret salt)) pt) at 1. rewrite firstn_all.
  rewrite (firstn_all2 (n := 16)) by (rewrite skipn_length; lia).
  apply cbc_rt; [rewrite firstn_length|rewrite skipn_length]; lia.
Qed.
End Envelope.
Print Assumptions dec_total.
Print Assumptions dec_enc.
Print Assumptions fill_cred_evp.
