From Coq Require Import List ZArith Lia Bool Arith.
Import ListNotations.
Local Open Scope Z_scope.
Arguments Z.add : simpl never.
Arguments Z.sub : simpl never.
Arguments Z.mul : simpl never.
Arguments Z.modulo : simpl never.
Arguments Z.of_nat : simpl never.
Arguments Z.to_nat : simpl never.

(* ringz.Ring: head/tail indices with -1 meaning empty, capacity, buffer *)
Record ring := { vals : list Z; head : Z; tail : Z; cap : Z }.

Fixpoint upd (l : list Z) (i : nat) (x : Z) : list Z :=
  match l, i with [], _ => [] | _ :: t, O => x :: t | h :: t, S j => h :: upd t j x end.
Lemma upd_length l i x : length (upd l i x) = length l.
Proof. revert i; induction l as [|a l IH]; intros [|i]; cbn [upd length]; auto. Qed.
Lemma nth_upd l i j x : (i < length l)%nat -> nth j (upd l i x) 0 = if Nat.eqb j i then x else nth j l 0.
Proof.
  revert i j; induction l as [|a l IH]; intros [|i] [|j] H; cbn [upd nth length Nat.eqb] in *; try lia; auto. apply IH; lia.
Qed.

Definition is_empty (r : ring) : bool := head r =? -1.
Definition is_full (r : ring) : bool := (tail r + 1) mod cap r =? head r.

Definition push (r : ring) (v : Z) : ring * bool :=
  if is_full r then (r, false)
  else let h := if is_empty r then 0 else head r in
       let t := (tail r + 1) mod cap r in
       ({| vals := upd (vals r) (Z.to_nat t) v; head := h; tail := t; cap := cap r |}, true).

Definition pop (r : ring) : ring * option Z :=
  if is_empty r then (r, None)
  else let v := nth (Z.to_nat (head r)) (vals r) 0 in
       let vals' := upd (vals r) (Z.to_nat (head r)) 0 in
       if head r =? tail r
       then ({| vals := vals'; head := -1; tail := -1; cap := cap r |}, Some v)
       else ({| vals := vals'; head := (head r + 1) mod cap r; tail := tail r; cap := cap r |}, Some v).

Definition len (r : ring) : Z :=
  if is_empty r then 0 else if head r <=? tail r then tail r - head r + 1 else cap r - head r + tail r + 1.

(* ---- invariant relating the buffer to the queue it holds ---- *)
Definition Inv (r : ring) (q : list Z) : Prop :=
  0 < cap r /\ Z.of_nat (length (vals r)) = cap r /\ Z.of_nat (length q) <= cap r /\
  match q with
  | [] => head r = -1 /\ tail r = -1
  | _ => 0 <= head r < cap r /\ tail r = (head r + Z.of_nat (length q) - 1) mod cap r /\
         forall j, (j < length q)%nat -> nth (Z.to_nat ((head r + Z.of_nat j) mod cap r)) (vals r) 0 = nth j q 0
  end.

Lemma mod_small_shift a c : 0 < c -> c <= a < 2 * c -> a mod c = a - c.
Proof. intros Hc Ha. symmetry. apply (Z.mod_unique a c 1); lia. Qed.

Lemma full_iff r q : Inv r q -> (is_full r = true <-> Z.of_nat (length q) = cap r).
Proof.
  intros (Hc & Hl & Hq & Hm). unfold is_full. destruct q as [|x q].
  - destruct Hm as [-> ->]. cbn [length]. replace (-1 + 1) with 0 by lia. rewrite Z.mod_0_l by lia.
    split; [intros H; apply Z.eqb_eq in H; lia|cbn; lia].
  - destruct Hm as (Hh & Ht & _). rewrite Ht. set (n := Z.of_nat (length (x :: q))) in *.
    assert (Hn : 1 <= n <= cap r) by (unfold n in *; cbn [length] in *; lia).
    rewrite Zplus_mod_idemp_l. replace (head r + n - 1 + 1) with (head r + n) by lia.
    split; intros H.
    + apply Z.eqb_eq in H. destruct (Z_lt_le_dec (head r + n) (cap r)) as [Hlt|Hge].
      * rewrite Z.mod_small in H by lia. lia.
      * rewrite mod_small_shift in H by lia. lia.
    + apply Z.eqb_eq. rewrite H. rewrite <- (Z.mul_1_l (cap r)) at 1. rewrite Z.mod_add by lia. apply Z.mod_small. lia.
Qed.

Theorem push_spec r q v : Inv r q ->
  snd (push r v) = negb (Z.of_nat (length q) =? cap r) /\
  Inv (fst (push r v)) (if Z.of_nat (length q) =? cap r then q else q ++ [v]).
Proof.
  intros HI. pose proof (full_iff r q HI) as Hf. unfold push.
  destruct (is_full r) eqn:Ef.
  - assert (E : Z.of_nat (length q) = cap r) by (apply Hf; reflexivity). rewrite E, Z.eqb_refl. cbn [fst snd negb]. auto.
  - assert (E : Z.of_nat (length q) <> cap r) by (intros E; apply Hf in E; congruence).
    destruct (Z.eqb_spec (Z.of_nat (length q)) (cap r)); [contradiction|]. cbn [fst snd negb]. split; [reflexivity|].
    destruct HI as (Hc & Hl & Hq & Hm). unfold Inv; cbn [vals head tail cap]. rewrite upd_length.
    repeat split; auto; [rewrite app_length; cbn [length]; lia|].
    destruct q as [|x q].
    + destruct Hm as [Hh Ht]. unfold is_empty. rewrite Hh, Ht. cbn [app length]. replace (-1 =? -1) with true by reflexivity.
      change (-1 + 1) with 0. rewrite Z.mod_0_l by lia.
      repeat split; try lia.
      all: try (cbn [length]; replace (0 + Z.of_nat 1 - 1) with 0 by lia; rewrite ?Z.mod_0_l by lia; reflexivity).
      all: intros j Hj; assert (j = 0)%nat by (cbn [length] in Hj; lia); subst j; cbn [nth];
           replace ((0 + Z.of_nat 0) mod cap r) with 0 by (rewrite Z.mod_small; lia); rewrite nth_upd by lia; reflexivity.
    + destruct Hm as (Hh & Ht & Hv). unfold is_empty. destruct (Z.eqb_spec (head r) (-1)); [lia|].
      set (m := Z.of_nat (length (x :: q))) in *. assert (Hn : 1 <= m < cap r) by (unfold m in *; cbn [length] in *; lia).
      assert (Ht' : (tail r + 1) mod cap r = (head r + m) mod cap r).
      { rewrite Ht, Zplus_mod_idemp_l. f_equal. lia. }
      cbn [app]. change (x :: q ++ [v]) with ((x :: q) ++ [v]). repeat split; try lia.
      * rewrite Ht'. rewrite app_length. cbn [length]. f_equal. unfold m. cbn [length]. lia.
      * intros j Hj. rewrite app_length in Hj. cbn [length] in Hj.
        pose proof (Z.mod_pos_bound (head r + m) (cap r) Hc) as B1.
        pose proof (Z.mod_pos_bound (head r + Z.of_nat j) (cap r) Hc) as B2.
        rewrite nth_upd by lia.
        destruct (Nat.eq_dec j (length (x :: q))) as [->|Hne].
        -- fold m. rewrite Ht', Nat.eqb_refl. rewrite app_nth2 by lia. rewrite Nat.sub_diag. reflexivity.
        -- assert (Hj' : (j < length (x :: q))%nat) by (cbn [length] in *; lia).
           destruct (Nat.eqb_spec (Z.to_nat ((head r + Z.of_nat j) mod cap r)) (Z.to_nat ((tail r + 1) mod cap r))) as [E'|_].
           ++ exfalso. rewrite Ht' in E'. assert (E2 : (head r + Z.of_nat j) mod cap r = (head r + m) mod cap r) by lia.
              assert (Hd : (m - Z.of_nat j) mod cap r = 0).
              { replace (m - Z.of_nat j) with ((head r + m) - (head r + Z.of_nat j)) by lia. rewrite Zminus_mod, E2, Z.sub_diag. apply Z.mod_0_l. lia. }
              unfold m in *. cbn [length] in *. rewrite Z.mod_small in Hd by lia. lia.
           ++ rewrite app_nth1 by exact Hj'. apply Hv. exact Hj'.
Qed.

Theorem pop_spec r q : Inv r q ->
  match q with
  | [] => pop r = (r, None)
  | x :: q' => snd (pop r) = Some x /\ Inv (fst (pop r)) q'
  end.
Proof.
  intros (Hc & Hl & Hq & Hm). unfold pop, is_empty. destruct q as [|x q'].
  - destruct Hm as [Hh _]. rewrite Hh. reflexivity.
  - destruct Hm as (Hh & Ht & Hv). destruct (Z.eqb_spec (head r) (-1)); [lia|].
    pose proof (Hv 0%nat ltac:(cbn [length]; lia)) as H0. cbn [nth] in H0.
    replace ((head r + Z.of_nat 0) mod cap r) with (head r) in H0 by (rewrite Z.mod_small; lia).
    set (m := Z.of_nat (length (x :: q'))) in *. assert (Hn : 1 <= m <= cap r) by (unfold m in *; cbn [length] in *; lia).
    destruct (Z.eqb_spec (head r) (tail r)) as [E|E]; cbn [fst snd].
    + (* last element: back to the empty encoding *)
      split; [rewrite H0; reflexivity|].
      assert (Hq1 : q' = []).
      { destruct q' as [|y q'']; [reflexivity|]. exfalso. unfold m in *. cbn [length] in *.
        rewrite <- E in Ht. assert (Hd : (Z.of_nat (S (S (length q''))) - 1) mod cap r = 0).
        { replace (Z.of_nat (S (S (length q''))) - 1) with ((head r + Z.of_nat (S (S (length q''))) - 1) - head r) by lia.
          rewrite Zminus_mod, <- Ht. rewrite (Z.mod_small (head r)) by lia. rewrite Z.sub_diag. apply Z.mod_0_l. lia. }
        rewrite Z.mod_small in Hd by lia. lia. }
      subst q'. unfold Inv; cbn [vals head tail cap length]. rewrite upd_length. repeat split; auto; lia.
    + split; [rewrite H0; reflexivity|].
      destruct q' as [|y q''].
      * exfalso. unfold m in *. cbn [length] in *. apply E. rewrite Ht. replace (head r + Z.of_nat 1 - 1) with (head r) by lia. rewrite Z.mod_small; lia.
      * unfold Inv; cbn [vals head tail cap]. rewrite upd_length.
        assert (Hlen' : Z.of_nat (length (y :: q'')) = m - 1) by (unfold m; cbn [length]; lia).
        repeat split; auto; try lia.
        -- apply Z.mod_pos_bound; lia.
        -- apply Z.mod_pos_bound; lia.
        -- rewrite Ht. replace ((head r + 1) mod cap r + Z.of_nat (length (y :: q'')) - 1) with ((head r + 1) mod cap r + (Z.of_nat (length (y :: q'')) - 1)) by lia.
           rewrite Zplus_mod_idemp_l. f_equal. lia.
        -- intros j Hj. rewrite Zplus_mod_idemp_l.
           pose proof (Z.mod_pos_bound (head r + 1 + Z.of_nat j) (cap r) Hc) as B.
           rewrite nth_upd by lia.
           destruct (Nat.eqb_spec (Z.to_nat ((head r + 1 + Z.of_nat j) mod cap r)) (Z.to_nat (head r))) as [E'|_].
           ++ exfalso. assert (E2 : (head r + 1 + Z.of_nat j) mod cap r = head r) by lia.
              assert (Hd : (1 + Z.of_nat j) mod cap r = 0).
              { replace (1 + Z.of_nat j) with ((head r + 1 + Z.of_nat j) - head r) by lia.
                rewrite Zminus_mod, E2. rewrite (Z.mod_small (head r)) by lia. rewrite Z.sub_diag. apply Z.mod_0_l. lia. }
              cbn [length] in *. rewrite Z.mod_small in Hd by lia. lia.
           ++ specialize (Hv (S j) ltac:(cbn [length] in *; lia)). change (nth (S j) (x :: y :: q'') 0) with (nth j (y :: q'') 0) in Hv. rewrite <- Hv. f_equal. f_equal. f_equal. lia.
Qed.
Print Assumptions push_spec.
Print Assumptions pop_spec.
