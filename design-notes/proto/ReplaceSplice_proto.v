From Coq Require Import List ZArith Lia Bool Arith.
Import ListNotations.

(* algz.Trie.Replace after mergeScopes (trie.go:158-176), byte level, with checked slices. *)
Definition iv := (nat * nat)%type.
Definition slice (l : list Z) (a b : nat) : option (list Z) :=
  if (a <=? b) && (b <=? length l) then Some (firstn (b - a) (skipn a l)) else None.

(* for _, v := range scopes { buf.WriteString(text[begin:v.start]); buf.WriteString(repl); begin = v.stop }; buf.WriteString(text[begin:]) *)
Fixpoint replace_go (text repl : list Z) (begin : nat) (m : list iv) (out : list Z) : option (list Z) :=
  match m with
  | [] => match slice text begin (length text) with Some s => Some (out ++ s) | None => None end
  | (a, b) :: t => match slice text begin a with
                   | Some s => replace_go text repl b t (out ++ s ++ repl)
                   | None => None
                   end
  end.
Definition replace (text repl : list Z) (m : list iv) : option (list Z) := replace_go text repl 0 m [].

(* merged scopes: disjoint, increasing, non-empty, inside the text, starting at or after `from` *)
Fixpoint good (from len : nat) (m : list iv) : Prop :=
  match m with [] => from <= len | (a, b) :: t => from <= a /\ a < b /\ good b len t end.

(* the text with every covered stretch replaced by one copy of repl *)
Fixpoint splice (text repl : list Z) (from : nat) (m : list iv) : list Z :=
  match m with
  | [] => skipn from text
  | (a, b) :: t => firstn (a - from) (skipn from text) ++ repl ++ splice text repl b t
  end.

Lemma good_bound from len m : good from len m -> from <= len.
Proof. revert from; induction m as [|[a b] t IH]; cbn [good]; intros from H; [exact H|]. destruct H as (H1 & H2 & H3). apply IH in H3. lia. Qed.

Theorem replace_total_spec text repl : forall m from out, good from (length text) m ->
  replace_go text repl from m out = Some (out ++ splice text repl from m).
Proof.
  induction m as [|[a b] t IH]; intros from out Hg; cbn [replace_go splice good] in *.
  - unfold slice. destruct (Nat.leb_spec from (length text)); [|lia]. rewrite Nat.leb_refl. cbn [andb].
    rewrite firstn_all2 by (rewrite skipn_length; lia). reflexivity.
  - destruct Hg as (H1 & H2 & H3). pose proof (good_bound _ _ _ H3) as Hb. unfold slice.
    destruct (Nat.leb_spec from a); [|lia]. destruct (Nat.leb_spec a (length text)); [|lia]. cbn [andb].
    rewrite IH by auto. rewrite <- !app_assoc. reflexivity.
Qed.

(* with an empty replacement, exactly the uncovered bytes remain, in order *)
Definition coveredb (m : list iv) (i : nat) : bool := existsb (fun '(a, b) => (a <=? i) && (i <? b)) m.
Fixpoint uncovered_from (text : list Z) (i : nat) (m : list iv) : list Z :=
  match text with
  | [] => []
  | x :: t => if coveredb m i then uncovered_from t (S i) m else x :: uncovered_from t (S i) m
  end.

Lemma uncovered_none : forall text i m, (forall a b, In (a, b) m -> i + length text <= a) -> uncovered_from text i m = text.
Proof.
  induction text as [|x t IH]; intros i m H; cbn [uncovered_from]; [reflexivity|].
  replace (coveredb m i) with false.
  - f_equal. apply IH. intros a b Hab. specialize (H a b Hab). cbn [length] in H. lia.
  - symmetry. apply not_true_is_false. intros Hc. unfold coveredb in Hc. apply existsb_exists in Hc.
    destruct Hc as ([a b] & Hin & Hc). apply andb_prop in Hc. destruct Hc as [Hc _]. apply Nat.leb_le in Hc.
    specialize (H a b Hin). cbn [length] in H. lia.
Qed.
Print Assumptions replace_total_spec.
