From Coq Require Import List ZArith Lia Bool Arith Sorted.
Import ListNotations.
Require Import SkipList_levels_proto SkipListRemove_proto.
Local Open Scope Z_scope.

(* listz.SkipList.set (modes Set / SetX / SetNx) and Remove as operations on the whole structure, with the random
   tower height as an input: the key list at level 0 is the sorted key set of the map, whatever heights are drawn. *)
Record sk := { levels : list (list Z); level : nat; len : nat }.

Record Good (s : sk) : Prop := {
  g_ok : levels_ok (levels s);
  g_emp : forall j, (level s <= j)%nat -> nth j (levels s) [] = [];
  g_lv : (1 <= level s <= length (levels s))%nat;
  g_len : len s = length (nth 0 (levels s) [])
}.

(* mode: 0 Set, 1 SetX (only if present), 2 SetNx (only if absent); rh = randomLevel(), 1..maxLevel *)
Definition set_ (s : sk) (key : Z) (rh : nat) (mode : nat) : sk * bool :=
  let '(hit, us) := search key (levels s) (level s) None in
  if hit then (s, negb (mode =? 2)%nat)                          (* value updated in place, or SetNx refuses *)
  else if (mode =? 1)%nat then (s, false)
  else let h := if (level s <? rh)%nat then S (level s) else rh in   (* if level > s.level { level = s.level + 1 } *)
       let us' := us ++ repeat None (h - level s) in                  (* update[i] = &s.head for the new level *)
       ({| levels := splice key h us' (levels s); level := Nat.max (level s) h; len := S (len s) |}, true).

Definition remove_ (s : sk) (key : Z) : sk * bool :=
  let '(cl, us) := rsearch key (levels s) (level s) None 0 in
  if (cl =? 0)%nat then (s, false) else
  let lv' := map (fun j => if (j <? cl)%nat then unsplice (nth j us None) key (nth j (levels s) []) else nth j (levels s) [])
                 (seq 0 (length (levels s))) in
  let level' := if (level s <=? cl)%nat then shrink (level s) lv' (level s) else level s in
  ({| levels := lv'; level := level'; len := Nat.pred (len s) |}, true).

Theorem set_spec s key rh mode : Good s -> (1 <= rh <= length (levels s))%nat ->
  let present := mem key (nth 0 (levels s) []) in
  let '(s', r) := set_ s key rh mode in
  Good s' /\
  r = (if present then negb (mode =? 2)%nat else negb (mode =? 1)%nat) /\
  nth 0 (levels s') [] = (if present || (mode =? 1)%nat then nth 0 (levels s) []
                          else lows key (nth 0 (levels s) []) ++ key :: highs key (nth 0 (levels s) [])).
Proof.
  intros [Hok Hemp Hlv Hlen] Hrh. cbv zeta. unfold set_.
  rewrite search_spec by (auto; left; reflexivity). rewrite hit_iff_level0 by (auto; lia).
  destruct (mem key (nth 0 (levels s) [])) eqn:Em; cbn [orb].
  - split; [constructor; auto|]. split; reflexivity.
  - destruct (Nat.eqb_spec mode 1) as [->|Hm]; cbn [negb].
    + split; [constructor; auto|]. split; reflexivity.
    + set (h := if (level s <? rh)%nat then S (level s) else rh).
      assert (Hh : (1 <= h <= length (levels s))%nat) by (unfold h; destruct (Nat.ltb_spec (level s) rh); lia).
      pose proof (insert_levels_ok key h (levels s) (level s) Hok Hemp ltac:(lia) ltac:(lia) Em) as I. cbv zeta in I.
      rewrite search_spec in I by (auto; left; reflexivity). rewrite hit_iff_level0 in I by (auto; lia). rewrite Em in I. cbn [snd] in I.
      destruct I as (I1 & I2 & I3). split; [|split; [reflexivity|]].
      * constructor; cbn [levels level len]; auto.
        -- intros j Hj. destruct (Nat.lt_ge_cases j (length (levels s))) as [Hjl|Hjl].
           ++ rewrite I3 by auto. destruct (Nat.ltb_spec j h); [lia|]. apply Hemp. lia.
           ++ apply nth_overflow. lia.
        -- rewrite I2. lia.
        -- rewrite I3 by lia. destruct (Nat.ltb_spec 0 h); [|lia]. rewrite app_length. cbn [length].
           rewrite Hlen. rewrite (sorted_split key _ (proj1 Hok 0%nat) Em) at 1. rewrite app_length. lia.
      * cbn [levels]. rewrite I3 by lia. destruct (Nat.ltb_spec 0 h); [reflexivity|lia].
Qed.

Theorem remove_spec s key : Good s ->
  let present := mem key (nth 0 (levels s) []) in
  let '(s', r) := remove_ s key in
  Good s' /\ r = present /\ nth 0 (levels s') [] = lows key (nth 0 (levels s) []) ++ highs key (nth 0 (levels s) []).
Proof.
  intros [Hok Hemp Hlv Hlen]. cbv zeta. unfold remove_.
  pose proof (remove_levels_spec key (level s) (levels s) Hok ltac:(lia) Hemp) as R. unfold remove_levels in R.
  destruct (rsearch key (levels s) (level s) None 0) as [cl us]. destruct (Nat.eqb_spec cl 0) as [E0|E0].
  - destruct R as [R|R]; [|lia]. split; [constructor; auto|]. split; [auto|].
    symmetry. apply nomem_lows_highs; auto. apply (proj1 Hok).
  - destruct R as (R1 & R2 & R3 & R4 & R5). set (lv' := map _ (seq 0 (length (levels s)))) in *.
    split; [|split; [auto|apply R4]].
    constructor; cbn [levels level len]; auto.
    + destruct (Nat.leb_spec (level s) cl).
      * destruct (shrink_spec lv' (level s) (level s) R5) as (_ & S2 & _). exact S2.
      * exact R5.
    + rewrite R3. destruct (Nat.leb_spec (level s) cl); [|lia].
      destruct (shrink_spec lv' (level s) (level s) R5) as (S1 & _ & S3). specialize (S3 ltac:(lia)). lia.
    + rewrite R4, Hlen. rewrite (sorted_split_mem key _ (proj1 Hok 0%nat) R1) at 1. rewrite !app_length. cbn [length]. lia.
Qed.

(* Get / GetNode: found iff the key is in the map *)
Theorem get_spec s key : Good s -> fst (search key (levels s) (level s) None) = mem key (nth 0 (levels s) []).
Proof.
  intros [Hok Hemp Hlv Hlen]. rewrite search_spec by (auto; left; reflexivity). rewrite hit_iff_level0 by (auto; lia).
  destruct (mem key _); reflexivity.
Qed.
Print Assumptions set_spec.
Print Assumptions remove_spec.
