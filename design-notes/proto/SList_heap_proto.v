From Coq Require Import List Arith Lia Bool Permutation.
Import ListNotations.

(* listz.SList (singly_list.go) at the level of nodes and next pointers.
   Nodes are ids; nx is the store of next fields; a nil dereference is None (panic). *)
Record sl := { nx : nat -> option nat; hd : option nat; tl : option nat; ln : nat }.
Definition fupd {A} (f : nat -> A) (i : nat) (x : A) : nat -> A := fun j => if Nat.eqb j i then x else f j.
Lemma fupd_eq {A} (f : nat -> A) i x : fupd f i x i = x.
Proof. unfold fupd. rewrite Nat.eqb_refl. reflexivity. Qed.
Lemma fupd_ne {A} (f : nat -> A) i j x : j <> i -> fupd f i x j = f j.
Proof. intros H. unfold fupd. destruct (Nat.eqb_spec j i); [contradiction|reflexivity]. Qed.

(* for index := 0; index < k; index++ { before = e; e = e.next } *)
Fixpoint walk (nx : nat -> option nat) (k : nat) (before e : option nat) : option (option nat * option nat) :=
  match k with
  | O => Some (before, e)
  | S k' => match e with None => None | Some x => walk nx k' e (nx x) end
  end.

Definition get (s : sl) (i : nat) : option (option nat) :=
  if i <? ln s then match walk (nx s) i None (hd s) with Some (_, e) => Some e | None => None end else Some None.

Definition oeq (a b : option nat) : bool :=
  match a, b with Some x, Some y => x =? y | None, None => true | _, _ => false end.

(* Remove(i), i within range (out of range returns nil without touching anything) *)
Definition remove (s : sl) (i : nat) : option (sl * nat) :=
  match walk (nx s) i None (hd s) with
  | Some (before, Some e) =>
      let hd1 := if oeq (Some e) (hd s) then nx s e else hd s in
      let tl1 := if oeq (Some e) (tl s) then before else tl s in
      let nx1 := match before with Some b => fupd (nx s) b (nx s e) | None => nx s end in
      Some ({| nx := fupd nx1 e None; hd := hd1; tl := tl1; ln := ln s - 1 |}, e)
  | _ => None
  end.

(* InsertNodeAt(i, e) for 0 < i < len: before = head; i-1 steps; e.next = before.next; before.next = e *)
Definition insert_mid (s : sl) (i e : nat) : option sl :=
  match hd s with
  | None => None
  | Some h =>
      match walk (nx s) (i - 1) None (Some h) with
      | Some (_, Some b) => Some {| nx := fupd (fupd (nx s) e (nx s b)) b (Some e); hd := hd s; tl := tl s; ln := S (ln s) |}
      | _ => None
      end
  end.
Definition push_front (s : sl) (e : nat) : sl :=
  {| nx := fupd (nx s) e (hd s); hd := Some e; tl := if ln s =? 0 then Some e else tl s; ln := S (ln s) |}.
Definition push_back (s : sl) (e : nat) : option sl :=
  if ln s =? 0 then Some {| nx := nx s; hd := Some e; tl := Some e; ln := S (ln s) |}
  else match tl s with None => None | Some t => Some {| nx := fupd (nx s) t (Some e); hd := hd s; tl := Some e; ln := S (ln s) |} end.

(* ---- the chain from a through the nodes of l ends at b ---- *)
Fixpoint seg (nx : nat -> option nat) (a : option nat) (l : list nat) (b : option nat) : Prop :=
  match l with [] => a = b | x :: t => a = Some x /\ seg nx (nx x) t b end.
Definition last_opt (l : list nat) : option nat := match l with [] => None | _ => Some (last l 0) end.
Definition Inv (s : sl) (ids : list nat) : Prop :=
  seg (nx s) (hd s) ids None /\ NoDup ids /\ tl s = last_opt ids /\ ln s = length ids.

Lemma seg_app nx a l1 l2 b : seg nx a (l1 ++ l2) b <-> exists m, seg nx a l1 m /\ seg nx m l2 b.
Proof.
  revert a; induction l1 as [|x l1 IH]; intros a; cbn [app seg].
  - split; [intros H; exists a; auto|intros (m & -> & H); auto].
  - rewrite IH. split; [intros (H & m & H1 & H2); exists m; auto|intros (m & (H & H1) & H2); eauto].
Qed.
Lemma seg_frame nx nx' a l b : (forall x, In x l -> nx' x = nx x) -> seg nx a l b -> seg nx' a l b.
Proof.
  revert a; induction l as [|x l IH]; intros a Hf; cbn [seg]; auto. intros [-> H]. split; auto.
  rewrite Hf by (left; auto). apply IH; auto. intros y Hy. apply Hf. right; auto.
Qed.

Lemma walk_seg nx : forall pre a bf m, seg nx a pre m ->
  walk nx (length pre) bf a = Some (match pre with [] => bf | _ => Some (last pre 0) end, m).
Proof.
  induction pre as [|x pre IH]; intros a bf m; cbn [seg length walk].
  - intros ->. reflexivity.
  - intros [-> H]. rewrite (IH _ (Some x) m H). destruct pre; reflexivity.
Qed.

Theorem get_spec s ids i : Inv s ids -> get s i = Some (nth_error ids i).
Proof.
  intros (Hs & Hn & Ht & Hl). unfold get. rewrite Hl. destruct (Nat.ltb_spec i (length ids)) as [Hi|Hi].
  - destruct (nth_error ids i) as [e|] eqn:E; [|apply nth_error_None in E; lia].
    destruct (nth_error_split ids i E) as (pre & post & E1 & E3).
    subst ids. rewrite seg_app in Hs. destruct Hs as (m & H1 & H2). cbn [seg] in H2. destruct H2 as [-> _].
    rewrite <- E3, (walk_seg _ pre _ None (Some e) H1). reflexivity.
  - f_equal. symmetry. apply nth_error_None. lia.
Qed.

Lemma last_opt_app l x : last_opt (l ++ [x]) = Some x.
Proof. unfold last_opt. destruct (l ++ [x]) eqn:E; [destruct l; discriminate|]. rewrite <- E, last_last. reflexivity. Qed.
Lemma last_opt_cons_app l x y : last_opt (l ++ x :: y) = last_opt (x :: y).
Proof.
  unfold last_opt. destruct (l ++ x :: y) eqn:E; [destruct l; discriminate|]. rewrite <- E. f_equal.
  destruct (@exists_last _ (x :: y) ltac:(discriminate)) as (l' & z & ->). rewrite app_assoc, !last_last. reflexivity.
Qed.

Theorem remove_spec s pre e post : Inv s (pre ++ e :: post) ->
  exists s', remove s (length pre) = Some (s', e) /\ Inv s' (pre ++ post) /\ nx s' e = None /\
             (forall x, x <> e -> ~ In x pre -> nx s' x = nx s x).
Proof.
  intros (Hs & Hn & Ht & Hl). apply seg_app in Hs. destruct Hs as (m & H1 & H2). cbn [seg] in H2. destruct H2 as [-> H2].
  unfold remove. rewrite (walk_seg _ pre _ None (Some e) H1).
  apply NoDup_remove in Hn as Hn'. destruct Hn' as [Hn1 Hn2]. rewrite in_app_iff in Hn2.
  assert (Hpost : forall x, In x post -> x <> e) by (intros x Hx ->; tauto).
  assert (Hpre : forall x, In x pre -> x <> e) by (intros x Hx ->; tauto).
  eexists. split; [reflexivity|]. destruct pre as [|p0 pre0] eqn:Epre.
  - (* removing the head *)
    cbn [app] in *. cbn [seg] in H1. rewrite H1. cbn [oeq]. rewrite Nat.eqb_refl.
    split; [|split; [cbn [nx]; apply fupd_eq|intros x Hx _; cbn [nx]; apply fupd_ne; auto]].
    unfold Inv. cbn [nx hd tl ln]. split; [|split; [auto|split]].
    + apply (seg_frame (nx s)); auto. intros x Hx. apply fupd_ne. auto.
    + rewrite Ht. destruct post as [|q post]; [cbn [last_opt last oeq]; rewrite Nat.eqb_refl; reflexivity|].
      change (e :: q :: post) with ([e] ++ q :: post). rewrite last_opt_cons_app. cbn [last_opt oeq].
      destruct (Nat.eqb_spec e (last (q :: post) 0)) as [E|_]; [|reflexivity].
      exfalso. apply (Hpost e); auto. rewrite E. destruct (@exists_last _ (q :: post) ltac:(discriminate)) as (l' & z & ->). rewrite last_last. apply in_app_iff. right; left; auto.
    + rewrite Hl. cbn [length]. lia.
  - (* removing a later node: before = the last node of pre *)
    assert (Hhd : oeq (Some e) (hd s) = false).
    { cbn [seg] in H1. destruct H1 as [-> _]. cbn [oeq]. apply Nat.eqb_neq. intros <-. apply (Hpre e); auto; left; auto. }
    assert (Hne : p0 :: pre0 <> []) by discriminate. rewrite <- Epre in *. clear Epre.
    destruct (@exists_last _ pre Hne) as (pre' & b & Eb).
    assert (Hlast : last pre 0 = b) by (rewrite Eb; apply last_last). rewrite ?Hlast.
    rewrite Hhd.
    assert (Hbe : b <> e) by (apply Hpre; rewrite Eb; apply in_app_iff; right; left; auto).
    split; [|split; [cbn [nx]; apply fupd_eq|]].
    2:{ intros x Hx Hnp. cbn [nx]. rewrite fupd_ne by auto. apply fupd_ne. intros ->. apply Hnp. rewrite Eb. apply in_app_iff. right; left; auto. }
    unfold Inv. cbn [nx hd tl ln]. split; [|split; [auto|split]].
    + rewrite Eb in *. rewrite <- app_assoc in Hn1 |- *. cbn [app] in Hn1 |- *.
      apply seg_app in H1. destruct H1 as (m & H1 & H1'). cbn [seg] in H1'. destruct H1' as [-> H1'].
      apply seg_app. exists (Some b). split.
      * apply (seg_frame (nx s)); auto. intros x Hx. rewrite fupd_ne by (apply Hpre; apply in_app_iff; left; auto).
        apply fupd_ne. intros ->. apply NoDup_remove_2 in Hn1. apply Hn1. apply in_app_iff. left; auto.
      * cbn [seg]. split; auto. rewrite fupd_ne by auto. rewrite fupd_eq.
        apply (seg_frame (nx s)); auto. intros x Hx. rewrite fupd_ne by auto. apply fupd_ne. intros ->.
        apply NoDup_remove_2 in Hn1. apply Hn1. apply in_app_iff. right; auto.
    + rewrite Ht. destruct post as [|q post].
      * rewrite last_opt_cons_app. cbn [last_opt last oeq]. rewrite Nat.eqb_refl, app_nil_r, Eb. symmetry. apply last_opt_app.
      * rewrite !last_opt_cons_app. change (e :: q :: post) with ([e] ++ q :: post). rewrite last_opt_cons_app. cbn [last_opt oeq].
        destruct (Nat.eqb_spec e (last (q :: post) 0)) as [E|_]; [|reflexivity].
        exfalso. apply (Hpost e); auto. rewrite E. destruct (@exists_last _ (q :: post) ltac:(discriminate)) as (l' & z & ->). rewrite last_last. apply in_app_iff. right; left; auto.
    + rewrite Hl, !app_length. cbn [length]. lia.
Qed.

Theorem push_front_spec s ids e : Inv s ids -> ~ In e ids -> Inv (push_front s e) (e :: ids).
Proof.
  intros (Hs & Hn & Ht & Hl) He. unfold push_front, Inv. cbn [nx hd tl ln seg]. split; [|split; [constructor; auto|split]].
  - split; auto. rewrite fupd_eq. apply (seg_frame (nx s)); auto. intros x Hx. apply fupd_ne. intros ->. auto.
  - rewrite Hl, Ht. destruct ids as [|a ids]; [reflexivity|]. cbn [length Nat.eqb].
    change (e :: a :: ids) with ([e] ++ a :: ids). symmetry. apply last_opt_cons_app.
  - rewrite Hl. reflexivity.
Qed.

(* PushBackNode does not clear e.next: the node must be detached (fresh, or returned by Remove/RemoveFront) *)
Theorem push_back_spec s ids e : Inv s ids -> ~ In e ids -> nx s e = None ->
  exists s', push_back s e = Some s' /\ Inv s' (ids ++ [e]).
Proof.
  intros (Hs & Hn & Ht & Hl) He Hd. unfold push_back. rewrite Hl. destruct ids as [|a ids].
  - cbn [length Nat.eqb]. eexists. split; [reflexivity|]. unfold Inv. cbn [nx hd tl ln seg app].
    repeat split; auto. constructor; [auto|constructor].
  - cbn [length Nat.eqb]. rewrite Ht. cbn [last_opt]. eexists. split; [reflexivity|]. unfold Inv. cbn [nx hd tl ln].
    destruct (@exists_last _ (a :: ids) ltac:(discriminate)) as (l' & z & E). rewrite E in *. rewrite last_last.
    assert (Hz : z <> e) by (intros ->; apply He; apply in_app_iff; right; left; auto).
    split; [|split; [|split]].
    + apply seg_app in Hs. destruct Hs as (m & H1 & H2). cbn [seg] in H2. destruct H2 as [-> H2].
      rewrite <- app_assoc. cbn [app]. apply seg_app. exists (Some z). split.
      * apply (seg_frame (nx s)); auto. intros x Hx. apply fupd_ne. intros ->. apply NoDup_remove_2 in Hn. apply Hn. rewrite app_nil_r. auto.
      * cbn [seg]. split; auto. rewrite fupd_eq. split; auto. rewrite fupd_ne by auto. exact Hd.
    + eapply Permutation.Permutation_NoDup; [apply Permutation.Permutation_cons_append|]. constructor; auto.
    + symmetry. apply last_opt_app.
    + pose proof (f_equal (@length nat) E) as HE. rewrite !app_length in *. cbn [length] in *. lia.
Qed.

Theorem insert_mid_spec s pre b post e : Inv s (pre ++ b :: post) -> post <> [] -> ~ In e (pre ++ b :: post) ->
  exists s', insert_mid s (S (length pre)) e = Some s' /\ Inv s' (pre ++ b :: e :: post).
Proof.
  intros (Hs & Hn & Ht & Hl) Hpost He. apply seg_app in Hs. destruct Hs as (m & H1 & H2). cbn [seg] in H2. destruct H2 as [-> H2].
  unfold insert_mid. cbn [Nat.sub]. rewrite Nat.sub_0_r.
  assert (Hh : exists h, hd s = Some h) by (destruct pre; cbn [seg] in H1; [eauto|destruct H1; eauto]).
  destruct Hh as (h & Hh). rewrite Hh. rewrite <- Hh. rewrite (walk_seg _ pre _ None (Some b) H1).
  eexists. split; [reflexivity|]. unfold Inv. cbn [nx hd tl ln].
  assert (Hbe : b <> e) by (intros ->; apply He; apply in_app_iff; right; left; auto).
  split; [|split; [|split]].
  - apply seg_app. exists (Some b). split.
    + apply (seg_frame (nx s)); auto. intros x Hx. rewrite fupd_ne. apply fupd_ne.
      * intros ->. apply He. apply in_app_iff. left; auto.
      * intros ->. apply NoDup_remove_2 in Hn. apply Hn. apply in_app_iff. left; auto.
    + cbn [seg]. split; auto. rewrite fupd_eq. split; auto. rewrite fupd_ne by auto. rewrite fupd_eq.
      apply (seg_frame (nx s)); auto. intros x Hx. rewrite fupd_ne. apply fupd_ne.
      * intros ->. apply He. apply in_app_iff. right; right; auto.
      * intros ->. apply NoDup_remove_2 in Hn. apply Hn. apply in_app_iff. right; auto.
  - apply NoDup_remove in Hn as Hn'. destruct Hn' as [Hn1 Hn2].
    assert (Hperm : Permutation.Permutation (e :: pre ++ b :: post) (pre ++ b :: e :: post)).
    { change (pre ++ b :: e :: post) with (pre ++ [b] ++ e :: post). rewrite app_assoc.
      change (e :: pre ++ b :: post) with (e :: pre ++ [b] ++ post). rewrite (app_assoc pre [b] post). apply Permutation.Permutation_middle. }
    eapply Permutation.Permutation_NoDup; [exact Hperm|]. constructor; auto.
  - rewrite Ht. destruct post as [|q post]; [congruence|].
    rewrite last_opt_cons_app. change (b :: q :: post) with ([b] ++ q :: post). rewrite last_opt_cons_app.
    change (pre ++ b :: e :: q :: post) with (pre ++ [b; e] ++ q :: post). rewrite app_assoc, last_opt_cons_app. reflexivity.
  - rewrite Hl, !app_length. cbn [length]. lia.
Qed.
Print Assumptions remove_spec.
Print Assumptions insert_mid_spec.
Print Assumptions push_back_spec.
Print Assumptions get_spec.
