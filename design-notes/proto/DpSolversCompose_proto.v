From Coq Require Import List ZArith Lia Bool Arith Permutation Sorted.
Import ListNotations.
Require Import DpSolversRound_proto.
Local Open Scope Z_scope.

(* algz.FindDpSolvers, all rounds: after the items 0..n-1, the keys within the limit are exactly the
   attainable totals and every cell is a genuine selection — for every map iteration order. *)
Section Compose.
Variable vals : list Z.
Hypothesis vals_pos : Forall (fun v => 0 < v) vals.
Variable maxV : Z.
Variable allow : bool.
Variable ord : nat -> list cell -> list cell.                       (* Go's map iteration order in round k *)
Hypothesis ord_same : forall k dp c, In c (ord k dp) <-> In c dp.

(* for v, solver := range dpTmp { dp[v] = solver } *)
Definition merge (dp tmp : list cell) : list cell := tmp ++ filter (fun c => negb (has (fst c) tmp)) dp.

Fixpoint solve (n : nat) : list cell * Z :=
  match n with
  | O => ([(0, [])], 0)
  | S k => let '(dp, ovf) := solve k in
           let '(tmp, ovf') := round_go maxV (vl vals k) k allow dp (ord k dp) [] ovf in (merge dp tmp, ovf')
  end.

Lemma has_In t dp : has t dp = true <-> exists sel, In (t, sel) dp.
Proof.
  unfold has. rewrite existsb_exists. split.
  - intros ([c s] & Hin & E). cbn [fst] in E. apply Z.eqb_eq in E. subst. eauto.
  - intros (sel & Hin). exists (t, sel). split; auto. cbn [fst]. apply Z.eqb_refl.
Qed.
Lemma has_merge t dp tmp : has t (merge dp tmp) = true <-> has t dp = true \/ has t tmp = true.
Proof.
  unfold merge. rewrite (has_In t (tmp ++ _)). split.
  - intros (sel & Hin). apply in_app_or in Hin. destruct Hin as [Hin|Hin].
    + right. apply has_In. eauto.
    + left. apply filter_In in Hin. apply has_In. exists sel. tauto.
  - intros [H|H].
    + destruct (has t tmp) eqn:Et.
      * apply has_In in Et. destruct Et as (sel & Hin). exists sel. apply in_or_app. left; auto.
      * apply has_In in H. destruct H as (sel & Hin). exists sel. apply in_or_app. right. apply filter_In. split; auto.
        cbn [fst]. rewrite Et. reflexivity.
    + apply has_In in H. destruct H as (sel & Hin). exists sel. apply in_or_app. left; auto.
Qed.

Lemma cells_ok_mono k dp : cells_ok vals k dp -> cells_ok vals (S k) dp.
Proof. unfold cells_ok. apply Forall_impl. intros c [H1 H2]. split; auto. apply valid_mono; auto. Qed.

Lemma sorted_snoc_inv (s : list nat) x : StronglySorted lt (s ++ [x]) -> StronglySorted lt s /\ Forall (fun i => (i < x)%nat) s.
Proof.
  induction s as [|a s IH]; cbn [app]; intros H; [split; constructor|]. inversion H as [|? ? Hs Hall]; subst.
  destruct (IH Hs) as [I1 I2]. split.
  - constructor; auto. apply Forall_app in Hall. tauto.
  - constructor; auto. apply Forall_app in Hall. destruct Hall as [_ Hx]. inversion Hx; auto.
Qed.
Lemma valid_split k s : valid (S k) s -> valid k s \/ exists s', s = s' ++ [k] /\ valid k s'.
Proof.
  intros [Hs Hb]. destruct s as [|a s0] using rev_ind; [left; split; constructor|]. clear IHs0.
  destruct (sorted_snoc_inv _ _ Hs) as [Hs' Hlt]. apply Forall_app in Hb. destruct Hb as [Hb Ha]. inversion Ha as [|? ? Ha' _]; subst.
  destruct (Nat.eq_dec a k) as [->|Hne].
  - right. exists s0. split; auto. split; auto.
  - left. split; auto. apply Forall_app. split; [|constructor; [lia|constructor]].
    eapply Forall_impl; [|exact Hlt]. cbv beta. intros; lia.
Qed.

Lemma total_nonneg s : 0 <= total vals s.
Proof.
  induction s as [|i s IH]; cbn [total fold_right]; [lia|]. fold (total vals s).
  assert (0 <= vl vals i); [|lia]. unfold vl. destruct (Nat.lt_ge_cases i (length vals)).
  - rewrite Forall_forall in vals_pos. specialize (vals_pos (nth i vals 0) (nth_In _ _ H)). lia.
  - rewrite nth_overflow by lia. lia.
Qed.

Theorem solvers_complete_sound : forall n, 0 <= maxV ->
  cells_ok vals n (fst (solve n)) /\
  forall t, t <= maxV -> (attainable vals n t <-> has t (fst (solve n)) = true).
Proof.
  intros n HM. induction n as [|k IH].
  - cbn [solve fst]. split.
    + constructor; [|constructor]. cbn [fst snd]. split; [split; constructor|reflexivity].
    + intros t Ht. unfold has. cbn [existsb fst]. rewrite orb_false_r, Z.eqb_eq. split.
      * intros (s & [_ Hb] & Etot). destruct s as [|i s]; [cbn in Etot; auto|]. inversion Hb; lia.
      * intros <-. exists []. split; [split; constructor|reflexivity].
  - destruct IH as [Iok Iatt]. cbn [solve]. destruct (solve k) as [dp ovf]. cbn [fst] in *.
    destruct (round_go maxV (vl vals k) k allow dp (ord k dp) [] ovf) as [tmp ovf'] eqn:Er. cbn [fst].
    assert (Htmp : cells_ok vals (S k) tmp).
    { replace tmp with (fst (round_go maxV (vl vals k) k allow dp (ord k dp) [] ovf)) by (rewrite Er; reflexivity).
      apply round_sound; [|constructor]. unfold cells_ok in *. rewrite Forall_forall in *. intros c Hc. apply Iok. apply ord_same in Hc. exact Hc. }
    assert (Hok : cells_ok vals (S k) (merge dp tmp)).
    { unfold merge. apply Forall_app. split; auto. apply cells_ok_mono in Iok. unfold cells_ok in *. rewrite Forall_forall in *.
      intros c Hc. apply filter_In in Hc. apply Iok. tauto. }
    split; auto. intros t Ht. rewrite has_merge. split.
    + intros (s & Hv & Etot). destruct (valid_split k s Hv) as [Hv'|(s' & -> & Hv')].
      * left. apply Iatt; auto. exists s. auto.
      * rewrite total_app in Etot. cbn [total fold_right] in Etot. fold (vl vals k) in Etot.
        assert (Hcur : has (total vals s') dp = true).
        { apply Iatt; [pose proof (total_nonneg [k]); cbn [total fold_right] in *; lia|]. exists s'. auto. }
        apply has_In in Hcur. destruct Hcur as (sel & Hin).
        destruct (round_complete vals maxV k allow dp (ord k dp) [] ovf (total vals s') sel) as [H|H].
        -- apply ord_same. exact Hin.
        -- lia.
        -- left. rewrite <- Etot. replace (total vals s' + (vl vals k + 0)) with (total vals s' + vl vals k) by lia. exact H.
        -- right. rewrite Er in H. cbn [fst] in H. rewrite <- Etot. replace (total vals s' + (vl vals k + 0)) with (total vals s' + vl vals k) by lia. exact H.
    + intros H. assert (Hh : has t (merge dp tmp) = true) by (apply has_merge; exact H).
      apply has_In in Hh. destruct Hh as (sel & Hin). unfold cells_ok in Hok. rewrite Forall_forall in Hok.
      destruct (Hok _ Hin) as [Hv Etot]. cbn [fst snd] in *. exists sel. auto.
Qed.
End Compose.
Print Assumptions solvers_complete_sound.
