From Coq Require Import List ZArith Lia Bool Arith.
Import ListNotations.
Require Import OctalCodec_proto EscParseGeneric_proto.
Local Open Scope Z_scope.
Arguments Z.mul : simpl never.
Arguments Z.add : simpl never.
Arguments Z.sub : simpl never.

(* round trips through the generic escape parser: one escape consumed per step, then HexParse(HexFormat(s)) = s *)
Section Step.
Variable W P : nat.
Variable prefix : list Z.
Variable base maxv : Z.
Variable emit : Z -> option (list Z).
Hypothesis P_pos : (1 <= P)%nat.
Hypothesis P_lt_W : (P < W)%nat.
Hypothesis prefix_len : length prefix = P.
Hypothesis emit_len : forall v bs, emit v = Some bs -> (1 <= length bs <= W)%nat.
Notation gparse := (gparse W P prefix base maxv emit).

Lemma escape_step A ds rest out v bs fuel :
  length ds = (W - P)%nat -> pu base maxv 0 0%nat ds = (v, (W - P)%nat, true) -> emit v = Some bs -> (length out <= length A)%nat ->
  gparse (S fuel) (A ++ prefix ++ ds ++ rest) (length A) (length A) out =
  gparse fuel (A ++ prefix ++ ds ++ rest) (length A + W) (length A + W) (out ++ bs).
Proof.
  intros Hds Hpu He Ho. set (src := A ++ prefix ++ ds ++ rest).
  assert (Hlen : length src = (length A + W + length rest)%nat) by (unfold src; rewrite !app_length; lia).
  cbn [EscParseGeneric_proto.gparse]. fold src.
  destruct (Nat.leb_spec (length src) (length A)); [lia|]. destruct (Nat.ltb_spec (length src - length A) W); [lia|].
  unfold pfx_ok. rewrite <- prefix_len at 1.
  assert (E1 : slice src (length A) (length A + length prefix) = Some prefix) by (unfold src; apply slice_app_mid).
  rewrite E1. destruct (list_eq_dec Z.eq_dec prefix prefix); [|congruence].
  assert (E2 : slice src (length A + P) (length A + W) = Some ds).
  { unfold src. rewrite app_assoc. replace (length A + P)%nat with (length (A ++ prefix)) by (rewrite app_length; lia).
    replace (length A + W)%nat with (length (A ++ prefix) + length ds)%nat by (rewrite app_length; lia). apply slice_app_mid. }
  rewrite E2, Hpu. cbn [negb]. rewrite He. rewrite Nat.ltb_irrefl.
  pose proof (emit_len _ _ He). destruct (Nat.leb_spec (length out + length bs) (length src)); [|lia]. reflexivity.
Qed.
End Step.

(* ---- hex ---- *)
Definition hexdigit (n : Z) : Z := if n <? 10 then 48 + n else 55 + n.            (* upper case, as HexFormat writes *)
Definition hex_esc (b : Z) : list Z := [92; 120; hexdigit (b / 16); hexdigit (b mod 16)].
Definition hex_format (bs : list Z) : list Z := concat (map hex_esc bs).

Lemma pu_hex_sweep : forallb (fun n => let b := Z.of_nat n in
    match pu 16 255 0 0%nat [hexdigit (b / 16); hexdigit (b mod 16)] with (v, j, ok) => (v =? b) && Nat.eqb j 2 && ok end) (seq 0 256) = true.
Proof. vm_compute. reflexivity. Qed.
Lemma pu_hex b : 0 <= b < 256 -> pu 16 255 0 0%nat [hexdigit (b / 16); hexdigit (b mod 16)] = (b, 2%nat, true).
Proof.
  intros Hb. pose proof pu_hex_sweep as H. rewrite forallb_forall in H. specialize (H (Z.to_nat b) ltac:(apply in_seq; lia)).
  cbv zeta in H. rewrite Z2Nat.id in H by lia. destruct (pu 16 255 0 0%nat _) as [[v j] ok].
  apply andb_prop in H. destruct H as [H Hok]. apply andb_prop in H. destruct H as [Hv Hj].
  apply Z.eqb_eq in Hv. apply Nat.eqb_eq in Hj. subst. reflexivity.
Qed.

Lemma hex_roundtrip_go : forall rest fuel A out,
  Forall (fun b => 0 <= b < 256) rest -> (length out <= length A)%nat -> (length rest < fuel)%nat ->
  gparse 4 2 [92; 120] 16 255 (fun v => Some [v mod 256]) fuel (A ++ hex_format rest) (length A) (length A) out = Some (out ++ rest).
Proof.
  induction rest as [|b rest IH]; intros fuel A out Hb Ho Hf; (destruct fuel as [|fu]; [lia|]).
  - unfold hex_format. cbn [map concat]. rewrite app_nil_r. cbn [gparse]. rewrite Nat.leb_refl.
    unfold finish. rewrite Nat.ltb_irrefl, app_nil_r. reflexivity.
  - inversion Hb as [|? ? Hb0 Hbr]; subst. unfold hex_format. cbn [map concat]. fold (hex_format rest).
    change (hex_esc b ++ hex_format rest) with ([92; 120] ++ [hexdigit (b / 16); hexdigit (b mod 16)] ++ hex_format rest).
    rewrite (escape_step 4 2 [92; 120] 16 255 (fun v => Some [v mod 256]) ltac:(lia) ltac:(lia) eq_refl
               ltac:(intros v bs E; inversion E; cbn; lia) A _ (hex_format rest) out b [b mod 256] fu);
      [|reflexivity|apply pu_hex; auto|reflexivity|auto].
    rewrite (Z.mod_small b 256) by lia.
    replace (A ++ [92; 120] ++ [hexdigit (b / 16); hexdigit (b mod 16)] ++ hex_format rest)
      with ((A ++ hex_esc b) ++ hex_format rest) by (rewrite <- app_assoc; reflexivity).
    replace (length A + 4)%nat with (length (A ++ hex_esc b)) by (rewrite app_length; reflexivity).
    rewrite IH; auto.
    + rewrite <- app_assoc. reflexivity.
    + rewrite !app_length. cbn [length hex_esc]. lia.
    + cbn [length] in Hf. lia.
Qed.

Theorem hex_roundtrip bs : Forall (fun b => 0 <= b < 256) bs -> hex (hex_format bs) = Some bs.
Proof.
  intros H. unfold hex, esc_parse. apply (hex_roundtrip_go bs _ [] [] H); cbn [length]; try lia.
  assert (length (hex_format bs) = (4 * length bs)%nat).
  { unfold hex_format. clear H. induction bs as [|b t IHt]; cbn [map concat length]; [reflexivity|]. rewrite app_length, IHt. cbn [hex_esc length]. lia. }
  lia.
Qed.
Print Assumptions hex_roundtrip.
