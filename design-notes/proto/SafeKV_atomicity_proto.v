From Coq Require Import List Arith Lia Bool ZArith.
Import ListNotations.

(* C12, atomicity half: with well-locked skeletons, a reader's critical section sees one unchanging map
   (a consistent snapshot) and a writer's critical section is not interleaved with any other access. *)
Inductive mode := R | W.
Inductive ev := Acq (m : mode) | Rel (m : mode) | Rd | Wr (f : nat).       (* Wr f: apply effect number f to the map *)
Definition skel := list ev.
Definition held := option mode.
Definition map_ := list (Z * Z).

Fixpoint wl (h : held) (l : skel) : bool :=
  match l with
  | [] => match h with None => true | Some _ => false end
  | Acq m :: t => match h with None => wl (Some m) t | Some _ => false end
  | Rel m :: t => match h, m with Some R, R => wl None t | Some W, W => wl None t | _, _ => false end
  | Rd :: t => match h with Some _ => wl h t | None => false end
  | Wr _ :: t => match h with Some W => wl h t | _ => false end
  end.

Record thread := { rest : skel; hold : held;
                   snap : map_;             (* ghost: the map when the current critical section began *)
                   seen : list map_;        (* ghost: what the Rd events of the current section observed *)
                   done_ : list nat }.      (* ghost: effects applied so far in the current section *)
Record lockst := { writer : bool; readers : nat }.
Record config := { lk : lockst; mp : map_; ths : list thread }.

Fixpoint upd {A} (l : list A) (i : nat) (x : A) : list A :=
  match l, i with [], _ => [] | _ :: t, O => x :: t | h :: t, S j => h :: upd t j x end.

Section Methods.
Variable methods : list skel.
Variable eff : nat -> map_ -> map_.
Hypothesis methods_ok : forallb (wl None) methods = true.

Definition apply_all (fs : list nat) (m : map_) : map_ := fold_left (fun acc f => eff f acc) fs m.

Definition tstep (l : lockst) (m : map_) (t : thread) (k : nat) : lockst * map_ * thread :=
  match rest t with
  | [] => (l, m, {| rest := nth k methods []; hold := hold t; snap := snap t; seen := []; done_ := [] |})
  | Acq W :: r => if negb (writer l) && (readers l =? 0)
                  then ({| writer := true; readers := readers l |}, m, {| rest := r; hold := Some W; snap := m; seen := []; done_ := [] |})
                  else (l, m, t)
  | Acq R :: r => if negb (writer l)
                  then ({| writer := writer l; readers := S (readers l) |}, m, {| rest := r; hold := Some R; snap := m; seen := []; done_ := [] |})
                  else (l, m, t)
  | Rel W :: r => ({| writer := false; readers := readers l |}, m, {| rest := r; hold := None; snap := snap t; seen := seen t; done_ := done_ t |})
  | Rel R :: r => ({| writer := writer l; readers := pred (readers l) |}, m, {| rest := r; hold := None; snap := snap t; seen := seen t; done_ := done_ t |})
  | Rd :: r => (l, m, {| rest := r; hold := hold t; snap := snap t; seen := seen t ++ [m]; done_ := done_ t |})
  | Wr f :: r => (l, eff f m, {| rest := r; hold := hold t; snap := snap t; seen := seen t; done_ := done_ t ++ [f] |})
  end.

Definition step (c : config) (e : nat * nat) : config :=
  let '(i, k) := e in
  match nth_error (ths c) i with
  | None => c
  | Some t => let '(l', m', t') := tstep (lk c) (mp c) t k in {| lk := l'; mp := m'; ths := upd (ths c) i t' |}
  end.
Definition run (c : config) (sched : list (nat * nat)) : config := fold_left step sched c.
Definition idle : thread := {| rest := []; hold := None; snap := []; seen := []; done_ := [] |}.
Definition init (n : nat) (m0 : map_) : config := {| lk := {| writer := false; readers := 0 |}; mp := m0; ths := repeat idle n |}.

Definition cntR (l : list thread) : nat := length (filter (fun t => match hold t with Some R => true | _ => false end) l).
Definition cntW (l : list thread) : nat := length (filter (fun t => match hold t with Some W => true | _ => false end) l).

(* per-thread ghost facts: a reader's section has seen only its snapshot and the map still equals it;
   a writer's section: the map is exactly its own effects applied to the snapshot *)
Definition tok (m : map_) (t : thread) : Prop :=
  wl (hold t) (rest t) = true /\
  match hold t with
  | Some R => m = snap t /\ Forall (fun x => x = snap t) (seen t) /\ done_ t = []
  | Some W => m = apply_all (done_ t) (snap t)
  | None => True
  end.

Record Inv (c : config) : Prop := {
  i_t : Forall (tok (mp c)) (ths c);
  i_r : readers (lk c) = cntR (ths c);
  i_w : (if writer (lk c) then 1 else 0) = cntW (ths c);
  i_ex : writer (lk c) = true -> readers (lk c) = 0
}.

Lemma cnt_upd (f : thread -> bool) l i t t' : nth_error l i = Some t ->
  length (filter f (upd l i t')) + (if f t then 1 else 0) = length (filter f l) + (if f t' then 1 else 0).
Proof.
  revert i; induction l as [|a l IH]; intros [|i] H; cbn [nth_error upd] in *; try discriminate.
  - inversion H; subst. cbn [filter]. destruct (f t), (f t'); cbn [length]; lia.
  - specialize (IH i H). cbn [filter]. destruct (f a); cbn [length]; lia.
Qed.
Lemma upd_same {A} (l : list A) i t : nth_error l i = Some t -> upd l i t = l.
Proof.
  revert i; induction l as [|a l IH]; intros [|i] H; cbn [nth_error upd] in *; try discriminate; auto.
  - inversion H; reflexivity.
  - f_equal. apply IH; auto.
Qed.
Lemma Forall_upd_others {A} (P : A -> Prop) l i x :
  (forall j y, j <> i -> nth_error l j = Some y -> P y) -> P x -> Forall P (upd l i x).
Proof.
  revert i; induction l as [|a l IH]; intros [|i] H Hx; cbn [upd]; constructor; auto.
  - apply Forall_forall. intros y Hy. apply In_nth_error in Hy as [j Hj]. apply (H (S j)); [lia|exact Hj].
  - apply (H 0); [lia|reflexivity].
  - apply IH; auto. intros j y Hj Hy. apply (H (S j)); [lia|exact Hy].
Qed.
Lemma method_wl k : wl None (nth k methods []) = true.
Proof.
  destruct (nth_in_or_default k methods []) as [Hin|E]; [|rewrite E; reflexivity].
  rewrite forallb_forall in methods_ok. apply methods_ok, Hin.
Qed.
Lemma filter_one {A} (f : A -> bool) l i a : nth_error l i = Some a -> f a = true -> 1 <= length (filter f l).
Proof.
  revert i; induction l as [|x l IH]; intros [|i] H Ha; cbn [nth_error] in *; try discriminate.
  - inversion H; subst. cbn [filter]. rewrite Ha. cbn; lia.
  - cbn [filter]. specialize (IH i H Ha). destruct (f x); cbn [length]; lia.
Qed.
Lemma filter_two {A} (f : A -> bool) l i j a b :
  i <> j -> nth_error l i = Some a -> nth_error l j = Some b -> f a = true -> f b = true -> 2 <= length (filter f l).
Proof.
  revert i j; induction l as [|x l IH]; intros [|i] [|j] Hij Hi Hj Ha Hb; cbn [nth_error] in *; try discriminate; try lia.
  - inversion Hi; subst. cbn [filter]. rewrite Ha. cbn [length]. pose proof (filter_one f l j b Hj Hb). lia.
  - inversion Hj; subst. cbn [filter]. rewrite Hb. cbn [length]. pose proof (filter_one f l i a Hi Ha). lia.
  - assert (i <> j) by lia. specialize (IH i j H Hi Hj Ha Hb). cbn [filter]. destruct (f x); cbn [length]; lia.
Qed.

Lemma apply_all_snoc fs f m : apply_all (fs ++ [f]) m = eff f (apply_all fs m).
Proof. unfold apply_all. rewrite fold_left_app. reflexivity. Qed.

Theorem step_inv c e : Inv c -> Inv (step c e).
Proof.
  destruct e as [i k]. intros [Ht Hr Hw Hex]. unfold step.
  destruct (nth_error (ths c) i) as [t|] eqn:Hi; [|constructor; auto].
  assert (Hti : tok (mp c) t) by (rewrite Forall_forall in Ht; apply Ht; eapply nth_error_In; eauto).
  assert (Hothers : forall j y, j <> i -> nth_error (ths c) j = Some y -> tok (mp c) y)
    by (intros j y _ Hy; rewrite Forall_forall in Ht; apply Ht; eapply nth_error_In; eauto).
  pose proof (cnt_upd (fun t => match hold t with Some R => true | _ => false end) (ths c) i t) as CR.
  pose proof (cnt_upd (fun t => match hold t with Some W => true | _ => false end) (ths c) i t) as CW.
  unfold cntR, cntW in *. destruct Hti as [Hwl Hg].
  destruct t as [rs h sn se dn]. cbn [rest hold snap seen done_] in *. unfold tstep; cbn [rest hold snap seen done_].
  destruct rs as [|[mo|mo| |f] r]; cbn [wl] in Hwl.
  - (* start a method *)
    destruct h; [discriminate|].
    specialize (CR {| rest := nth k methods []; hold := None; snap := sn; seen := []; done_ := [] |} Hi).
    specialize (CW {| rest := nth k methods []; hold := None; snap := sn; seen := []; done_ := [] |} Hi). cbn [hold] in *.
    constructor; cbn [lk mp ths]; unfold cntR, cntW; auto; try lia. apply Forall_upd_others; auto. split; [apply method_wl|exact I].
  - destruct h; [discriminate|]. destruct mo.
    + destruct (negb (writer (lk c))) eqn:Ew.
      * specialize (CR {| rest := r; hold := Some R; snap := mp c; seen := []; done_ := [] |} Hi).
        specialize (CW {| rest := r; hold := Some R; snap := mp c; seen := []; done_ := [] |} Hi). cbn [hold] in *.
        constructor; cbn [lk mp ths writer readers]; unfold cntR, cntW; auto; try lia.
        -- apply Forall_upd_others; auto. split; [exact Hwl|]. cbn [hold snap seen done_]. auto.
        -- intros E. rewrite E in Ew. discriminate.
      * cbn [lk mp ths]. rewrite (upd_same _ _ _ Hi). constructor; auto.
    + destruct (negb (writer (lk c)) && (readers (lk c) =? 0)) eqn:Ew.
      * apply andb_prop in Ew. destruct Ew as [Ew Er]. apply Nat.eqb_eq in Er. apply negb_true_iff in Ew.
        specialize (CR {| rest := r; hold := Some W; snap := mp c; seen := []; done_ := [] |} Hi).
        specialize (CW {| rest := r; hold := Some W; snap := mp c; seen := []; done_ := [] |} Hi). cbn [hold] in *.
        rewrite Ew in Hw. constructor; cbn [lk mp ths writer readers]; unfold cntR, cntW; auto; try lia.
        apply Forall_upd_others; auto. split; [exact Hwl|]. cbn [hold snap done_]. reflexivity.
      * cbn [lk mp ths]. rewrite (upd_same _ _ _ Hi). constructor; auto.
  - destruct h as [[|]|]; destruct mo; try discriminate;
      specialize (CR {| rest := r; hold := None; snap := sn; seen := se; done_ := dn |} Hi);
      specialize (CW {| rest := r; hold := None; snap := sn; seen := se; done_ := dn |} Hi); cbn [hold] in *;
      constructor; cbn [lk mp ths writer readers]; unfold cntR, cntW; auto; try lia.
    all: try (apply Forall_upd_others; auto; split; [exact Hwl|exact I]).
    all: try discriminate.
    all: try (intros E; specialize (Hex E); lia).
    all: try (destruct (writer (lk c)); lia).
  - (* Rd *)
    destruct h as [mh|]; [|discriminate].
    specialize (CR {| rest := r; hold := Some mh; snap := sn; seen := se ++ [mp c]; done_ := dn |} Hi).
    specialize (CW {| rest := r; hold := Some mh; snap := sn; seen := se ++ [mp c]; done_ := dn |} Hi). cbn [hold] in *.
    constructor; cbn [lk mp ths]; unfold cntR, cntW; auto; try (destruct mh; lia).
    apply Forall_upd_others; auto. split; [exact Hwl|]. cbn [hold snap seen done_]. destruct mh; auto.
    destruct Hg as (E1 & E2 & E3). repeat split; auto. apply Forall_app. split; auto.
  - (* Wr: only under the write lock, and then nobody else holds anything *)
    destruct h as [[|]|]; try discriminate.
    specialize (CR {| rest := r; hold := Some W; snap := sn; seen := se; done_ := dn ++ [f] |} Hi).
    specialize (CW {| rest := r; hold := Some W; snap := sn; seen := se; done_ := dn ++ [f] |} Hi). cbn [hold] in *.
    assert (Hwr : writer (lk c) = true).
    { destruct (writer (lk c)); auto. exfalso.
      assert (1 <= length (filter (fun t => match hold t with Some W => true | _ => false end) (ths c))) by (eapply filter_one; eauto; reflexivity). lia. }
    constructor; cbn [lk mp ths]; unfold cntR, cntW; auto; try lia.
    apply Forall_upd_others.
    + intros j y Hj Hy. destruct (Hothers j y Hj Hy) as [Hwy Hgy]. split; auto.
      destruct (hold y) as [[|]|] eqn:Ehy; auto.
      * exfalso. assert (1 <= length (filter (fun t => match hold t with Some R => true | _ => false end) (ths c))) by (eapply filter_one; eauto; cbn; rewrite Ehy; reflexivity).
        specialize (Hex Hwr). lia.
      * exfalso. assert (2 <= length (filter (fun t => match hold t with Some W => true | _ => false end) (ths c))).
        { eapply (filter_two _ _ i j); eauto; cbn; rewrite ?Ehy; reflexivity. }
        rewrite Hwr in Hw. lia.
    + split; [exact Hwl|]. cbn [hold snap done_]. rewrite apply_all_snoc, <- Hg. reflexivity.
Qed.

Lemma run_inv sched : forall c, Inv c -> Inv (run c sched).
Proof. induction sched as [|e t IH]; intros c H; cbn [run fold_left]; auto. apply IH, step_inv, H. Qed.
Lemma init_inv n m0 : Inv (init n m0).
Proof.
  assert (HR : cntR (repeat idle n) = 0) by (unfold cntR; induction n; cbn; auto).
  assert (HW : cntW (repeat idle n) = 0) by (unfold cntW; induction n; cbn; auto).
  constructor; cbn [init lk mp ths writer readers]; auto; try discriminate.
  apply Forall_forall. intros t Ht. apply repeat_spec in Ht. subst. split; [reflexivity|exact I].
Qed.

(* C12, atomicity half: in every reachable state, for every thread inside a critical section —
   a reader has seen only the map as it was when it took the lock, and the map still is that map (one consistent
   snapshot for Keys/Values/Range/All/GetWithMap); a writer's section is exactly its own effects applied to the map it
   found (nobody else's access came in between: SetNx, SetX, Delete, Clear, Map are atomic) *)
Theorem critical_sections_atomic n m0 sched : let c := run (init n m0) sched in
  forall t, In t (ths c) ->
    match hold t with
    | Some R => mp c = snap t /\ Forall (fun x => x = snap t) (seen t)
    | Some W => mp c = apply_all (done_ t) (snap t)
    | None => True
    end.
Proof.
  cbv zeta. intros t Hin. destruct (run_inv sched (init n m0) (init_inv n m0)) as [Ht _ _ _].
  rewrite Forall_forall in Ht. destruct (Ht t Hin) as [_ Hg]. destruct (hold t) as [[|]|]; auto. tauto.
Qed.
End Methods.
Print Assumptions critical_sections_atomic.
