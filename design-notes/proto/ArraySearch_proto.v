From Coq Require Import List Arith Lia Bool Sorted.
Import ListNotations.

(* setz.search (roaring_bitmap.go:299-310): lower bound by bisection; fuel = len + 1 rounds *)
Fixpoint search_loop (fuel : nat) (v : list nat) (x low high : nat) : nat :=
  match fuel with
  | O => low
  | S f => if low <? high then
             let mid := (low + high) / 2 in
             if nth mid v 0 <? x then search_loop f v x (mid + 1) high else search_loop f v x low mid
           else low
  end.
Definition search (v : list nat) (x : nat) : nat := search_loop (S (length v)) v x 0 (length v).

Definition sorted (v : list nat) : Prop := forall i j, i < j -> j < length v -> nth i v 0 < nth j v 0.

Lemma search_loop_spec v x : sorted v -> forall fuel low high,
  low <= high -> high <= length v -> high - low < fuel ->
  (forall i, i < low -> nth i v 0 < x) -> (forall i, high <= i -> i < length v -> x <= nth i v 0) ->
  let r := search_loop fuel v x low high in
  r <= length v /\ (forall i, i < r -> nth i v 0 < x) /\ (forall i, r <= i -> i < length v -> x <= nth i v 0).
Proof.
  intros Hs. induction fuel as [|f IH]; intros low high H1 H2 H3 Hlo Hhi; [lia|]. cbn [search_loop].
  destruct (Nat.ltb_spec low high) as [Hlt|Hge].
  - assert (Hm : low <= (low + high) / 2 < high).
    { split; [apply Nat.div_le_lower_bound; lia | apply Nat.div_lt_upper_bound; lia]. }
    set (mid := (low + high) / 2) in *.
    destruct (Nat.ltb_spec (nth mid v 0) x) as [Hc|Hc].
    + apply IH; try lia; auto. intros i Hi.
      destruct (Nat.eq_dec i mid) as [->|Hne]; auto.
      assert (nth i v 0 < nth mid v 0) by (apply Hs; lia). lia.
    + apply IH; try lia; auto. intros i Hi Hl.
      destruct (Nat.eq_dec i mid) as [->|Hne]; auto.
      assert (nth mid v 0 < nth i v 0) by (apply Hs; lia). lia.
  - cbv zeta. assert (low = high) by lia. subst. repeat split; auto; lia.
Qed.

Theorem search_lower_bound v x : sorted v ->
  let r := search v x in
  r <= length v /\ (forall i, i < r -> nth i v 0 < x) /\ (forall i, r <= i -> i < length v -> x <= nth i v 0).
Proof. intros Hs. apply search_loop_spec; auto; try lia. Qed.

(* arrayContainer.Contains / Add (below 4096) / Remove *)
Definition acontains (v : list nat) (x : nat) : bool :=
  let p := search v x in (p <? length v) && (nth p v 0 =? x).
Definition aadd (v : list nat) (x : nat) : list nat * bool :=
  let p := search v x in
  if (p <? length v) && (nth p v 0 =? x) then (v, false)
  else (firstn p v ++ x :: skipn p v, true).            (* append 0; copy(v[p+1:], v[p:]); v[p] = x *)
Definition aremove (v : list nat) (x : nat) : list nat * bool :=
  let p := search v x in
  if (p <? length v) && (nth p v 0 =? x) then (firstn p v ++ skipn (S p) v, true) else (v, false).

Lemma sorted_In v x : sorted v -> In x v ->
  let p := search v x in p < length v /\ nth p v 0 = x.
Proof.
  intros Hs Hin. destruct (In_nth _ _ 0 Hin) as (k & Hk & Ek).
  destruct (search_lower_bound v x Hs) as (A & B & C). cbv zeta.
  destruct (Nat.lt_ge_cases k (search v x)) as [Hlt|Hge]; [specialize (B k Hlt); lia|].
  destruct (Nat.eq_dec k (search v x)) as [<-|Hne]; auto.
  assert (search v x < length v) by lia. split; auto.
  assert (nth (search v x) v 0 < nth k v 0) by (apply Hs; lia).
  specialize (C (search v x) ltac:(lia) ltac:(lia)). lia.
Qed.

Theorem acontains_spec v x : sorted v -> acontains v x = true <-> In x v.
Proof.
  intros Hs. unfold acontains. cbv zeta. rewrite andb_true_iff, Nat.ltb_lt, Nat.eqb_eq. split.
  - intros [H1 H2]. rewrite <- H2. apply nth_In; auto.
  - intros Hin. apply sorted_In; auto.
Qed.

Lemma nth_insert v p x i : p <= length v ->
  nth i (firstn p v ++ x :: skipn p v) 0 = if i <? p then nth i v 0 else if i =? p then x else nth (i - 1) v 0.
Proof.
  intros Hp. assert (Hl : length (firstn p v) = p) by (rewrite firstn_length; lia).
  destruct (Nat.ltb_spec i p).
  - rewrite app_nth1 by lia. rewrite <- (firstn_skipn p v) at 2. rewrite app_nth1 by lia. reflexivity.
  - rewrite app_nth2 by lia. rewrite Hl. destruct (Nat.eqb_spec i p) as [->|Hne]; [rewrite Nat.sub_diag; reflexivity|].
    destruct (i - p) as [|k] eqn:E; [lia|]. cbn [nth].
    rewrite <- (firstn_skipn p v) at 2. rewrite app_nth2 by lia. rewrite Hl. f_equal. lia.
Qed.

Theorem aadd_spec v x : sorted v ->
  let '(v', fresh) := aadd v x in
  sorted v' /\ (forall y, In y v' <-> y = x \/ In y v) /\ fresh = negb (acontains v x) /\
  length v' = (if fresh then S (length v) else length v).
Proof.
  intros Hs. unfold aadd, acontains. cbv zeta.
  destruct (search_lower_bound v x Hs) as (A & B & C). set (p := search v x) in *.
  destruct ((p <? length v) && (nth p v 0 =? x)) eqn:E.
  - repeat split; auto. intros [-> | H]; auto.
    apply andb_true_iff in E. destruct E as [E1 E2]. apply Nat.ltb_lt in E1. apply Nat.eqb_eq in E2.
    rewrite <- E2. apply nth_In; auto.
  - assert (Hx : forall i, p <= i -> i < length v -> x < nth i v 0).
    { intros i H1 H2. pose proof (C i H1 H2) as Ci. destruct (Nat.eq_dec (nth i v 0) x) as [Ei|]; [|lia].
      exfalso. destruct (Nat.eq_dec i p) as [->|Hne].
      - rewrite andb_false_iff, Nat.ltb_ge, Nat.eqb_neq in E. lia.
      - assert (nth p v 0 < nth i v 0) by (apply Hs; lia). specialize (C p ltac:(lia) ltac:(lia)). lia. }
    assert (Hlen : length (firstn p v ++ x :: skipn p v) = S (length v)).
    { rewrite app_length. cbn [length]. rewrite firstn_length, skipn_length. lia. }
    repeat split; auto.
    + intros i j Hij Hj. rewrite Hlen in Hj. rewrite !nth_insert by auto.
      destruct (Nat.ltb_spec i p), (Nat.ltb_spec j p); try lia.
      * apply Hs; lia.
      * destruct (Nat.eqb_spec j p); [apply B; auto|]. specialize (B i ltac:(lia)). specialize (Hx (j - 1) ltac:(lia) ltac:(lia)). lia.
      * destruct (Nat.eqb_spec i p), (Nat.eqb_spec j p); try lia.
        -- apply Hx; lia.
        -- apply Hs; lia.
    + rewrite in_app_iff. cbn [In]. intros [H | [H | H]]; auto; right.
      * rewrite <- (firstn_skipn p v). apply in_or_app; auto.
      * rewrite <- (firstn_skipn p v). apply in_or_app; auto.
    + intros [-> | H]; rewrite in_app_iff; cbn [In]; auto.
      rewrite <- (firstn_skipn p v) in H. apply in_app_or in H. tauto.
Qed.
Print Assumptions aadd_spec.

Lemma nth_delete v p i : p < length v ->
  nth i (firstn p v ++ skipn (S p) v) 0 = if i <? p then nth i v 0 else nth (S i) v 0.
Proof.
  intros Hp. assert (Hl : length (firstn p v) = p) by (rewrite firstn_length; lia).
  destruct (Nat.ltb_spec i p).
  - rewrite app_nth1 by lia. rewrite <- (firstn_skipn p v) at 2. rewrite app_nth1 by lia. reflexivity.
  - rewrite app_nth2 by lia. rewrite Hl.
    rewrite <- (firstn_skipn (S p) v) at 2. rewrite app_nth2 by (rewrite firstn_length; lia).
    rewrite firstn_length. f_equal. lia.
Qed.

Theorem aremove_spec v x : sorted v ->
  let '(v', was) := aremove v x in
  sorted v' /\ (forall y, In y v' <-> y <> x /\ In y v) /\ was = acontains v x /\
  length v' = (if was then length v - 1 else length v).
Proof.
  intros Hs. unfold aremove, acontains. cbv zeta. set (p := search v x) in *.
  destruct ((p <? length v) && (nth p v 0 =? x)) eqn:E.
  - apply andb_true_iff in E. destruct E as [E1 E2]. apply Nat.ltb_lt in E1. apply Nat.eqb_eq in E2.
    assert (Hlen : length (firstn p v ++ skipn (S p) v) = length v - 1).
    { rewrite app_length, firstn_length, skipn_length. lia. }
    repeat split; auto.
    + intros i j Hij Hj. rewrite Hlen in Hj. rewrite !nth_delete by auto.
      destruct (Nat.ltb_spec i p), (Nat.ltb_spec j p); try lia; apply Hs; lia.
    + intros ->. apply In_nth with (d := 0) in H. destruct H as (k & Hk & Ek). rewrite Hlen in Hk.
      rewrite nth_delete in Ek by auto. destruct (Nat.ltb_spec k p).
      * assert (nth k v 0 < nth p v 0) by (apply Hs; lia). lia.
      * assert (nth p v 0 < nth (S k) v 0) by (apply Hs; lia). lia.
    + apply In_nth with (d := 0) in H. destruct H as (k & Hk & Ek). rewrite Hlen in Hk.
      rewrite nth_delete in Ek by auto. rewrite <- Ek. destruct (k <? p); apply nth_In; lia.
    + intros [Hne Hin]. apply In_nth with (d := 0) in Hin. destruct Hin as (k & Hk & Ek).
      assert (k <> p) by congruence.
      destruct (Nat.lt_ge_cases k p).
      * subst y. assert (Eq : nth k (firstn p v ++ skipn (S p) v) 0 = nth k v 0)
          by (rewrite nth_delete by auto; destruct (Nat.ltb_spec k p); auto; lia).
        rewrite <- Eq. apply nth_In. lia.
      * subst y. assert (Eq : nth (k - 1) (firstn p v ++ skipn (S p) v) 0 = nth k v 0)
          by (rewrite nth_delete by auto; destruct (Nat.ltb_spec (k - 1) p); [lia|f_equal; lia]).
        rewrite <- Eq. apply nth_In. lia.
  - repeat split; auto; try tauto. intros ->. match goal with H : In x v |- _ => rename H into Hy end.
    destruct (sorted_In v x Hs Hy) as [H1 H2]. fold p in H1, H2.
    rewrite andb_false_iff, Nat.ltb_ge, Nat.eqb_neq in E. lia.
Qed.
Print Assumptions aremove_spec.
