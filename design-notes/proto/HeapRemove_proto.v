From Coq Require Import List Arith Lia Bool Permutation.
Import ListNotations.
Require Import HeapSift_proto HeapHandles_proto.

(* heapz.Heap.Remove / Pop on element handles (heap.go:61-118): the ownership guard makes the index check
   unreachable, the removed element is exactly the one passed, and the index invariant survives. *)
Section Ops.
Variable V : Type.
Variable val : nat -> V.
Variable lt : V -> V -> bool.
Notation ltE := (ltE V val lt).
Notation down_goE := (down_goE V val lt).
Notation up_goE := (up_goE V val lt).

(* positions at or beyond the sift bound are never touched, and the content is permuted *)
Lemma down_go_frame : forall fuel (s : list nat) i n k, i < n -> n <= length s -> n <= k ->
  nth k (fst (down_go nat 0 ltE fuel s i n)) 0 = nth k s 0.
Proof.
  induction fuel as [|f IH]; intros s i n k Hi Hn Hk; cbn [down_go fst]; [reflexivity|].
  destruct (Nat.leb_spec n (2 * i + 1)); [reflexivity|].
  set (j := if (2 * i + 1 + 1 <? n) && ltE (nth (2 * i + 1 + 1) s 0) (nth (2 * i + 1) s 0) then 2 * i + 1 + 1 else 2 * i + 1).
  assert (Hj : j < n) by (unfold j; destruct (Nat.ltb_spec (2 * i + 1 + 1) n); cbn [andb]; [destruct (ltE _ _)|]; lia).
  destruct (ltE (nth j s 0) (nth i s 0)); [|reflexivity].
  rewrite IH by (rewrite ?swap_length; lia). rewrite nth_swap by lia.
  destruct (Nat.eqb_spec k j); [lia|]. destruct (Nat.eqb_spec k i); [lia|]. reflexivity.
Qed.
Lemma down_go_len : forall fuel (s : list nat) i n, i < n -> n <= length s -> length (fst (down_go nat 0 ltE fuel s i n)) = length s.
Proof.
  induction fuel as [|f IH]; intros s i n Hi Hn; cbn [down_go fst]; [reflexivity|].
  destruct (Nat.leb_spec n (2 * i + 1)); [reflexivity|].
  set (j := if (2 * i + 1 + 1 <? n) && ltE (nth (2 * i + 1 + 1) s 0) (nth (2 * i + 1) s 0) then 2 * i + 1 + 1 else 2 * i + 1).
  assert (Hj : j < n) by (unfold j; destruct (Nat.ltb_spec (2 * i + 1 + 1) n); cbn [andb]; [destruct (ltE _ _)|]; lia).
  destruct (ltE (nth j s 0) (nth i s 0)); [|reflexivity]. rewrite IH by (rewrite ?swap_length; lia). apply swap_length.
Qed.
Lemma down_go_perm : forall fuel (s : list nat) i n, i < n -> n <= length s -> Permutation (fst (down_go nat 0 ltE fuel s i n)) s.
Proof.
  induction fuel as [|f IH]; intros s i n Hi Hn; cbn [down_go fst]; [reflexivity|].
  destruct (Nat.leb_spec n (2 * i + 1)); [reflexivity|].
  set (j := if (2 * i + 1 + 1 <? n) && ltE (nth (2 * i + 1 + 1) s 0) (nth (2 * i + 1) s 0) then 2 * i + 1 + 1 else 2 * i + 1).
  assert (Hj : j < n) by (unfold j; destruct (Nat.ltb_spec (2 * i + 1 + 1) n); cbn [andb]; [destruct (ltE _ _)|]; lia).
  destruct (ltE (nth j s 0) (nth i s 0)); [|reflexivity].
  etransitivity; [apply IH; rewrite ?swap_length; lia|]. apply upd_nth_perm_swap; lia.
Qed.
Lemma up_go_frame : forall fuel (s : list nat) j k, j < length s -> j < k ->
  nth k (up_go nat 0 ltE fuel s j) 0 = nth k s 0 /\ length (up_go nat 0 ltE fuel s j) = length s /\ Permutation (up_go nat 0 ltE fuel s j) s.
Proof.
  induction fuel as [|f IH]; intros s j k Hj Hk; cbn [up_go]; [auto|].
  match goal with |- context [if ?c then _ else _] => destruct c eqn:Ec end; [auto|].
  assert (Hp : (j - 1) / 2 <= j) by (apply Nat.div_le_upper_bound; lia).
  destruct (IH (swap nat 0 s ((j - 1) / 2) j) ((j - 1) / 2) k) as (A & B & C); [rewrite swap_length; lia|lia|].
  rewrite A, B. split; [|split].
  - rewrite nth_swap by lia. destruct (Nat.eqb_spec k j); [lia|]. destruct (Nat.eqb_spec k ((j - 1) / 2)); [lia|]. reflexivity.
  - apply swap_length.
  - etransitivity; [exact C|]. apply upd_nth_perm_swap; lia.
Qed.

(* fix(values, index, n) on handles *)
Definition fixE (t : st) (i n : nat) : st :=
  let '(t', i') := down_goE n t i n in if i <? i' then t' else up_goE (S i) t' i.

Inductive res := Ok (t : st) (owner : nat -> bool) | Panic.
Definition popE (t : st) (owner : nat -> bool) : res :=
  let n := length (fst t) - 1 in
  let e := nth n (fst t) 0 in
  Ok (removelast (fst t), snd t) (fun x => if x =? e then false else owner x).        (* e.heap = nil; e.index = -1 *)
Definition removeE (t : st) (owner : nat -> bool) (e : nat) : res :=
  if negb (owner e) then Ok t owner else                                   (* e.heap == nil || e.heap != h *)
  if length (fst t) <=? snd t e then Panic else                             (* "heap: invalid index" *)
  let n := length (fst t) - 1 in
  let t1 := if n =? snd t e then t else fixE (swapE t (snd t e) n) (snd t e) n in
  popE t1 owner.

Definition Own (t : st) (owner : nat -> bool) : Prop := forall x, owner x = true <-> In x (fst t).

Lemma fixE_props t i n : Hd t -> i < n -> n < length (fst t) ->
  Hd (fixE t i n) /\ length (fst (fixE t i n)) = length (fst t) /\ nth n (fst (fixE t i n)) 0 = nth n (fst t) 0 /\
  Permutation (fst (fixE t i n)) (fst t).
Proof.
  intros H Hi Hn. unfold fixE. pose proof (down_goE_fst V val lt n t i n) as E.
  pose proof (down_goE_Hd V val lt n t i n H ltac:(lia) Hi) as HD.
  destruct (down_goE n t i n) as [t' i'] eqn:Ed. cbn [fst snd] in *.
  assert (E1 : fst t' = fst (down_go nat 0 ltE n (fst t) i n)) by (rewrite <- E; reflexivity).
  assert (L : length (fst t') = length (fst t)) by (rewrite E1; apply down_go_len; lia).
  assert (F : nth n (fst t') 0 = nth n (fst t) 0) by (rewrite E1; apply down_go_frame; lia).
  assert (P : Permutation (fst t') (fst t)) by (rewrite E1; apply down_go_perm; lia).
  destruct (i <? i'); [auto|].
  pose proof (up_goE_fst V val lt (S i) t' i) as Eu. destruct (up_go_frame (S i) (fst t') i n) as (A & B & C); [lia|lia|].
  split; [apply up_goE_Hd; auto; lia|]. rewrite Eu. split; [lia|]. split; [congruence|]. etransitivity; eauto.
Qed.

Lemma removelast_nth (l : list nat) : l <> [] -> l = removelast l ++ [nth (length l - 1) l 0].
Proof.
  intros H. destruct (@exists_last _ l H) as (l' & a & ->). rewrite removelast_last, app_length. cbn [length].
  replace (length l' + 1 - 1) with (length l') by lia. rewrite app_nth2, Nat.sub_diag by lia. reflexivity.
Qed.

Theorem removeE_spec t owner e : Hd t -> Own t owner ->
  match removeE t owner e with
  | Panic => False
  | Ok t' owner' =>
      Hd t' /\ Own t' owner' /\
      (if owner e then Permutation (e :: fst t') (fst t) /\ owner' e = false else t' = t /\ owner' = owner)
  end.
Proof.
  intros H HO. unfold removeE. destruct (owner e) eqn:Eo; cbn [negb]; [|auto].
  assert (Hin : In e (fst t)) by (apply HO; auto).
  destruct (handle_points_back t e H Hin) as [Hidx Hnth].
  destruct (Nat.leb_spec (length (fst t)) (snd t e)); [lia|].
  set (n := length (fst t) - 1).
  (* after the optional swap + fix: same length, e in the last slot, content permuted, handles intact *)
  assert (G : exists t1, (if n =? snd t e then t else fixE (swapE t (snd t e) n) (snd t e) n) = t1 /\
              Hd t1 /\ length (fst t1) = length (fst t) /\ nth n (fst t1) 0 = e /\ Permutation (fst t1) (fst t)).
  { destruct (Nat.eqb_spec n (snd t e)) as [E|E].
    - exists t. split; [reflexivity|]. split; [exact H|]. split; [reflexivity|]. split; [rewrite E; exact Hnth|reflexivity].
    - assert (Hs : Hd (swapE t (snd t e) n)) by (apply swapE_Hd; auto; unfold n; lia).
      destruct (fixE_props (swapE t (snd t e) n) (snd t e) n Hs) as (F1 & F2 & F3 & F4);
        [unfold n in *; lia|rewrite swapE_fst, swap_length; unfold n; lia|].
      eexists. split; [reflexivity|]. rewrite swapE_fst, swap_length in *. split; [exact F1|]. split; [exact F2|]. split.
      + rewrite F3. rewrite nth_swap by (unfold n; lia). rewrite Nat.eqb_refl. exact Hnth.
      + etransitivity; [exact F4|]. apply upd_nth_perm_swap; unfold n; lia. }
  destruct G as (t1 & -> & H1 & L1 & N1 & P1). unfold popE. rewrite L1. fold n. rewrite N1.
  assert (Hne : fst t1 <> []) by (intros E; rewrite E in L1; cbn in L1; lia).
  pose proof (removelast_nth (fst t1) Hne) as Ed. rewrite L1 in Ed. fold n in Ed. rewrite N1 in Ed.
  destruct H1 as [Hnd Hix].
  assert (Hnd' : NoDup (removelast (fst t1)) /\ ~ In e (removelast (fst t1))).
  { rewrite Ed in Hnd. apply NoDup_remove in Hnd. rewrite app_nil_r in Hnd. exact Hnd. }
  split; [|split; [|split]].
  - split; cbn [fst snd]; [tauto|]. intros k Hk.
    assert (Hk' : k < length (fst t1)) by (rewrite Ed, app_length; cbn [length]; lia).
    rewrite <- (Hix k Hk') at 2. f_equal. rewrite Ed at 2. rewrite app_nth1 by lia. reflexivity.
  - intros x. cbn [fst]. destruct (Nat.eqb_spec x e) as [->|Hne'].
    + split; [discriminate|]. intros Hx. tauto.
    + rewrite (HO x). split.
      * intros Hx. assert (Hx1 : In x (fst t1)) by (eapply Permutation_in; [apply Permutation_sym; exact P1|exact Hx]).
        rewrite Ed in Hx1. apply in_app_or in Hx1. destruct Hx1 as [Hx1|[Hx1|[]]]; [auto|congruence].
      * intros Hx. eapply Permutation_in; [exact P1|]. rewrite Ed. apply in_or_app. left; auto.
  - cbn [fst]. eapply Permutation_trans; [|exact P1]. rewrite Ed at 2. apply Permutation_cons_append.
  - rewrite Nat.eqb_refl. reflexivity.
Qed.
End Ops.
Print Assumptions removeE_spec.
