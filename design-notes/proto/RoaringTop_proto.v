From Coq Require Import List ZArith Lia Bool Arith.
Import ListNotations.
Local Open Scope Z_scope.

(* setz.RoaringBitmap.Add/Remove/Contains/Len (roaring_bitmap.go:35-92) over its two components taken at their
   specifications: the ordered map of C02 (a finite map high -> container) and a container as a duplicate-free
   set of 16-bit lows with add/remove returning "changed" (C03's container theorems, both kinds). *)
Section Roaring.
Variable cadd crem : list Z -> Z -> list Z * bool.
Hypothesis cadd_spec : forall c x, NoDup c -> let '(c', ok) := cadd c x in
  NoDup c' /\ (forall y, In y c' <-> y = x \/ In y c) /\ (ok = true <-> ~ In x c) /\ length c' = (if ok then S (length c) else length c).
Hypothesis crem_spec : forall c x, NoDup c -> let '(c', ok) := crem c x in
  NoDup c' /\ (forall y, In y c' <-> y <> x /\ In y c) /\ (ok = true <-> In x c) /\ (if ok then S (length c') else length c') = length c.

Record rb := { keys : list Z; bk : Z -> option (list Z); len : nat }.
Definition set_ (f : Z -> option (list Z)) (h : Z) (c : option (list Z)) := fun k => if k =? h then c else f k.
Definition hi (num : Z) := Z.shiftr num 16.
Definition lo (num : Z) := Z.land num 65535.

Definition add (r : rb) (num : Z) : rb * bool :=
  match bk r (hi num) with
  | None => ({| keys := hi num :: keys r; bk := set_ (bk r) (hi num) (Some (fst (cadd [] (lo num)))); len := S (len r) |}, true)
  | Some c => let '(c', ok) := cadd c (lo num) in
              ({| keys := keys r; bk := set_ (bk r) (hi num) (Some c'); len := if ok then S (len r) else len r |}, ok)
  end.
Definition remove (r : rb) (num : Z) : rb * bool :=
  match bk r (hi num) with
  | None => (r, false)
  | Some c => let '(c', ok) := crem c (lo num) in
              if ok then
                (if (length c' =? 0)%nat
                 then {| keys := List.remove Z.eq_dec (hi num) (keys r); bk := set_ (bk r) (hi num) None; len := pred (len r) |}
                 else {| keys := keys r; bk := set_ (bk r) (hi num) (Some c'); len := pred (len r) |}, true)
              else (r, false)
  end.
Definition contains (r : rb) (num : Z) : bool :=
  match bk r (hi num) with None => false | Some c => if in_dec Z.eq_dec (lo num) c then true else false end.

Definition has (r : rb) (num : Z) : Prop := match bk r (hi num) with None => False | Some c => In (lo num) c end.
Fixpoint card (ks : list Z) (f : Z -> option (list Z)) : nat :=
  match ks with [] => O | k :: t => (match f k with Some c => length c | None => O end + card t f)%nat end.
Record Inv (r : rb) : Prop := {
  i_keys : NoDup (keys r);
  i_dom : forall h, In h (keys r) <-> bk r h <> None;
  i_ne : forall h c, bk r h = Some c -> NoDup c /\ c <> [];           (* no empty bucket stays in the map *)
  i_len : len r = card (keys r) (bk r)
}.

(* a number is its (high, low) pair *)
Lemma hi_lo_inj a b : hi a = hi b -> lo a = lo b -> a = b.
Proof.
  unfold hi, lo. intros H L. change 65535 with (Z.ones 16) in L. rewrite !Z.land_ones in L by lia.
  rewrite !Z.shiftr_div_pow2 in H by lia. rewrite (Z.div_mod a (2 ^ 16)), (Z.div_mod b (2 ^ 16)) by lia. congruence.
Qed.

Lemma card_set_notin ks f h c : ~ In h ks -> card ks (set_ f h c) = card ks f.
Proof.
  induction ks as [|k t IH]; intros Hn; cbn [card]; [reflexivity|]. unfold set_ at 1.
  destruct (Z.eqb_spec k h) as [->|_]; [exfalso; apply Hn; left; auto|]. rewrite IH; auto. intros H; apply Hn; right; auto.
Qed.
Lemma card_set_in ks f h c c0 : NoDup ks -> In h ks -> f h = Some c0 ->
  (card ks (set_ f h (Some c)) + length c0 = card ks f + length c)%nat.
Proof.
  induction ks as [|k t IH]; intros Hnd Hin Hf; [contradiction|]. inversion Hnd as [|? ? Hnk Hnd']; subst. cbn [card]. unfold set_ at 1.
  destruct (Z.eqb_spec k h) as [->|Hne].
  - rewrite Hf, card_set_notin by auto. lia.
  - destruct Hin as [E|Hin]; [congruence|]. specialize (IH Hnd' Hin Hf). lia.
Qed.
Lemma card_remove ks f h c0 : NoDup ks -> In h ks -> f h = Some c0 ->
  (card (List.remove Z.eq_dec h ks) (set_ f h None) + length c0 = card ks f)%nat.
Proof.
  induction ks as [|k t IH]; intros Hnd Hin Hf; [contradiction|]. inversion Hnd as [|? ? Hnk Hnd']; subst. cbn [List.remove card].
  destruct (Z.eq_dec h k) as [->|Hne].
  - rewrite Hf. rewrite notin_remove by auto. rewrite card_set_notin by auto. lia.
  - destruct Hin as [E|Hin]; [congruence|]. cbn [card]. unfold set_ at 1. destruct (Z.eqb_spec k h); [congruence|].
    specialize (IH Hnd' Hin Hf). lia.
Qed.

Lemma nodup_list_remove (x : Z) l : NoDup l -> NoDup (List.remove Z.eq_dec x l).
Proof.
  induction l as [|k t IH]; intros H; cbn [List.remove]; [constructor|]. inversion H; subst.
  destruct (Z.eq_dec x k); auto. constructor; auto. intros Hin. apply in_remove in Hin. tauto.
Qed.

Theorem add_spec r num : Inv r -> let '(r', ok) := add r num in
  Inv r' /\ (ok = true <-> ~ has r num) /\ (forall x, has r' x <-> x = num \/ has r x) /\
  len r' = (if ok then S (len r) else len r).
Proof.
  intros [Hk Hd Hn Hl]. unfold add. destruct (bk r (hi num)) as [c|] eqn:Eb.
  - destruct (Hn _ _ Eb) as [Hc Hce]. pose proof (cadd_spec c (lo num) Hc) as S. destruct (cadd c (lo num)) as [c' ok].
    destruct S as (S1 & S2 & S3 & S4).
    assert (Hin : In (hi num) (keys r)) by (apply Hd; congruence).
    split; [|split; [|split]].
    + constructor; cbn [keys bk len]; auto.
      * intros h. rewrite Hd. unfold set_. destruct (Z.eqb_spec h (hi num)) as [->|_]; [split; congruence|tauto].
      * intros h c0. unfold set_. destruct (Z.eqb_spec h (hi num)) as [->|_]; [|apply Hn].
        intros E. inversion E; subst c0. split; auto. intros ->. destruct (S2 (lo num)) as [_ S2']. apply (S2' (or_introl eq_refl)).
      * pose proof (card_set_in (keys r) (bk r) (hi num) c' c Hk Hin Eb). destruct ok; lia.
    + unfold has. rewrite Eb. exact S3.
    + intros x. unfold has. cbn [bk]. unfold set_. destruct (Z.eqb_spec (hi x) (hi num)) as [E|E].
      * rewrite E, Eb, S2. split; [intros [H|H]; auto; left; apply hi_lo_inj; auto|intros [->|H]; auto].
      * split; [auto|]. intros [->|H]; [congruence|auto].
    + reflexivity.
  - pose proof (cadd_spec [] (lo num) (NoDup_nil _)) as S. destruct (cadd [] (lo num)) as [c' ok]. destruct S as (S1 & S2 & S3 & S4). cbn [fst].
    assert (Hnin : ~ In (hi num) (keys r)) by (rewrite Hd; congruence).
    split; [|split; [|split]].
    + constructor; cbn [keys bk len].
      * constructor; auto.
      * intros h. cbn [In]. rewrite Hd. unfold set_. destruct (Z.eqb_spec h (hi num)) as [->|Hne]; [split; [discriminate|auto]|].
        split; [intros [E|H]; [congruence|auto]|auto].
      * intros h c0. unfold set_. destruct (Z.eqb_spec h (hi num)) as [->|_]; [|apply Hn].
        intros E. inversion E; subst c0. split; auto. intros ->. destruct (S2 (lo num)) as [_ S2']. apply (S2' (or_introl eq_refl)).
      * cbn [card]. unfold set_ at 1. rewrite Z.eqb_refl. rewrite card_set_notin by auto.
        assert (ok = true) by (apply S3; intros []). subst ok. cbn [length] in S4. lia.
    + unfold has. rewrite Eb. tauto.
    + intros x. unfold has. cbn [bk]. unfold set_. destruct (Z.eqb_spec (hi x) (hi num)) as [E|E].
      * rewrite E, Eb, S2. cbn [In]. split; [intros [H|[]]; left; apply hi_lo_inj; auto|intros [->|[]]; auto].
      * split; [auto|]. intros [->|H]; [congruence|auto].
    + reflexivity.
Qed.

Theorem remove_spec r num : Inv r -> let '(r', ok) := remove r num in
  Inv r' /\ (ok = true <-> has r num) /\ (forall x, has r' x <-> x <> num /\ has r x) /\
  (if ok then S (len r') else len r') = len r.
Proof.
  intros HI. pose proof HI as [Hk Hd Hn Hl]. unfold remove. destruct (bk r (hi num)) as [c|] eqn:Eb.
  - destruct (Hn _ _ Eb) as [Hc Hce]. pose proof (crem_spec c (lo num) Hc) as S. destruct (crem c (lo num)) as [c' ok].
    destruct S as (S1 & S2 & S3 & S4).
    assert (Hin : In (hi num) (keys r)) by (apply Hd; congruence).
    destruct ok.
    + assert (Hmem : forall x, (match set_ (bk r) (hi num) (if (length c' =? 0)%nat then None else Some c') (hi x) with None => False | Some c0 => In (lo x) c0 end)
                       <-> x <> num /\ has r x).
      { intros x. unfold has, set_. destruct (Z.eqb_spec (hi x) (hi num)) as [E|E].
        - rewrite E, Eb. destruct (Nat.eqb_spec (length c') 0) as [E0|E0].
          + destruct c'; [|discriminate]. split; [intros []|]. intros [Hx Hi]. apply (S2 (lo x)). split; auto. intros El. apply Hx. apply hi_lo_inj; auto.
          + rewrite S2. split; [intros [H1 H2]; split; auto; intros ->; auto|].
            intros [Hx Hi]. split; auto. intros El. apply Hx. apply hi_lo_inj; auto.
        - split; [intros H; split; auto; intros ->; congruence|tauto]. }
      destruct (Nat.eqb_spec (length c') 0) as [E0|E0].
      * split; [|split; [|split]].
        -- constructor; cbn [keys bk len].
           ++ apply nodup_list_remove; auto.
           ++ intros h. unfold set_. destruct (Z.eqb_spec h (hi num)) as [->|Hne].
              ** split; [intros H; apply remove_In in H; contradiction|congruence].
              ** rewrite <- Hd. split; [intros H; apply in_remove in H; tauto|intros H; apply in_in_remove; auto].
           ++ intros h c0. unfold set_. destruct (Z.eqb_spec h (hi num)); [discriminate|apply Hn].
           ++ pose proof (card_remove (keys r) (bk r) (hi num) c Hk Hin Eb). lia.
        -- unfold has. rewrite Eb. tauto.
        -- intros x. unfold has. cbn [bk]. exact (Hmem x).
        -- cbn [len]. pose proof (card_remove (keys r) (bk r) (hi num) c Hk Hin Eb).
           assert (0 < length c)%nat by (destruct c; [congruence|cbn; lia]). lia.
      * split; [|split; [|split]].
        -- constructor; cbn [keys bk len]; auto.
           ++ intros h. rewrite Hd. unfold set_. destruct (Z.eqb_spec h (hi num)) as [->|_]; [split; congruence|tauto].
           ++ intros h c0. unfold set_. destruct (Z.eqb_spec h (hi num)) as [->|_]; [|apply Hn].
              intros E. inversion E; subst c0. split; auto. intros ->. cbn in E0. lia.
           ++ pose proof (card_set_in (keys r) (bk r) (hi num) c' c Hk Hin Eb). lia.
        -- unfold has. rewrite Eb. tauto.
        -- intros x. unfold has. cbn [bk]. exact (Hmem x).
        -- cbn [len]. pose proof (card_set_in (keys r) (bk r) (hi num) c' c Hk Hin Eb).
           assert (0 < length c)%nat by (destruct c; [congruence|cbn; lia]). lia.
    + split; [exact HI|]. split; [unfold has; rewrite Eb; split; [discriminate|intros H; apply S3 in H; discriminate]|].
      split; [|reflexivity]. intros x. split; [|tauto]. intros H. split; auto. intros ->. unfold has in H. rewrite Eb in H.
      apply S3 in H. discriminate.
  - split; [exact HI|]. split; [unfold has; rewrite Eb; split; [discriminate|intros []]|]. split; [|reflexivity].
    intros x. split; [|tauto]. intros H. split; auto. intros ->. unfold has in H. rewrite Eb in H. exact H.
Qed.

Theorem contains_spec r num : contains r num = true <-> has r num.
Proof.
  unfold contains, has. destruct (bk r (hi num)) as [c|]; [|split; [discriminate|intros []]].
  destruct (in_dec Z.eq_dec (lo num) c); split; auto; discriminate.
Qed.
End Roaring.
Print Assumptions add_spec.
Print Assumptions remove_spec.
