From Coq Require Import List ZArith Lia Bool Arith Sorted.
Import ListNotations.
Require Import SkipList_levels_proto SkipListRemove_proto.
Local Open Scope Z_scope.

(* listz.SkipList.RangeWithStart / RangeWithRange (skip.go:195-235) on the per-level model.
   The callback is a predicate on keys; the result is the list of keys it was called on. *)
Fixpoint visit (f : Z -> bool) (l : list Z) : list Z :=            (* for cur.next[0] != nil { if !f(..) {break} } *)
  match l with [] => [] | x :: t => if f x then x :: visit f t else [x] end.

Definition range_start (start : Z) (levels : list (list Z)) (level : nat) (f : Z -> bool) : list Z :=
  let '(hit, us) := search start levels level None in
  if hit then (if f start then start :: visit f (after start (nth 0 levels [])) else [start])
  else visit f (nexts (nth 0 us None) (nth 0 levels [])).
Definition range_range (start stop : Z) levels level (f : Z -> bool) : list Z :=
  range_start start levels level (fun k => if stop <=? k then false else f k).

Lemma highs_eq key l : Zsorted l -> filter (fun x => key <=? x) l = (if mem key l then [key] else []) ++ highs key l.
Proof.
  intros Hs. destruct (mem key l) eqn:Em.
  - rewrite (sorted_split_mem key l Hs Em) at 1. rewrite filter_app. cbn [filter]. rewrite Z.leb_refl.
    rewrite filter_all_false by (intros x Hx; apply filter_In in Hx; destruct Hx as [_ Hx]; apply Z.ltb_lt in Hx; apply Z.leb_gt; lia).
    cbn [app]. f_equal. apply filter_all_true. intros x Hx. apply filter_In in Hx. destruct Hx as [_ Hx]. apply Z.ltb_lt in Hx. apply Z.leb_le. lia.
  - rewrite (sorted_split key l Hs Em) at 1. rewrite filter_app.
    rewrite filter_all_false by (intros x Hx; apply filter_In in Hx; destruct Hx as [_ Hx]; apply Z.ltb_lt in Hx; apply Z.leb_gt; lia).
    cbn [app]. apply filter_all_true. intros x Hx. apply filter_In in Hx. destruct Hx as [_ Hx]. apply Z.ltb_lt in Hx. apply Z.leb_le. lia.
Qed.

(* the callback sees exactly the keys >= start, ascending, up to and including the first one it rejects *)
Theorem range_start_spec start levels level f :
  levels_ok levels -> (0 < level)%nat ->
  range_start start levels level f = visit f (filter (fun x => start <=? x) (nth 0 levels [])).
Proof.
  intros Hok Hlv. pose proof Hok as [HS HN]. unfold range_start.
  rewrite search_spec by (auto; left; reflexivity). rewrite hit_iff_level0 by auto.
  rewrite (highs_eq start _ (HS 0%nat)). destruct (mem start (nth 0 levels [])) eqn:Em.
  - cbn [app visit]. destruct (f start); [|reflexivity]. f_equal. f_equal.
    rewrite (sorted_split_mem start _ (HS 0%nat) Em) at 1. apply after_app_notin.
    intros H. apply filter_In in H. destruct H as [_ H]. apply Z.ltb_lt in H. lia.
  - cbn [app]. f_equal. rewrite nth_map_seq by lia.
    pose proof (split_at_pred start _ (HS 0%nat) Em) as Hp. destruct (pred start (nth 0 levels [])) as [c|]; cbn [nexts].
    + destruct Hp as (_ & Ha & _). exact Ha.
    + rewrite (sorted_split start _ (HS 0%nat) Em) at 1. rewrite Hp. reflexivity.
Qed.

(* RangeWithRange: the user's callback sees exactly the keys in [start, stop), up to its first rejection *)
Theorem range_range_user_calls start stop levels level f :
  levels_ok levels -> (0 < level)%nat ->
  filter (fun k => k <? stop) (range_range start stop levels level f) =
  filter (fun k => k <? stop) (visit f (filter (fun x => (start <=? x) && (x <? stop)) (nth 0 levels []))).
Proof.
  intros Hok Hlv. unfold range_range. rewrite range_start_spec by auto.
  pose proof (proj1 Hok 0%nat) as Hs. induction (nth 0 levels []) as [|x l IH]; [reflexivity|].
  inversion Hs as [|? ? Hs' Hall]; subst. cbn [filter]. destruct (Z.leb_spec start x); cbn [andb]; [|apply IH; auto].
  destruct (Z.ltb_spec x stop) as [Hlt|Hge].
  - cbn [visit]. destruct (Z.leb_spec stop x); [lia|]. destruct (f x); cbn [filter]; destruct (Z.ltb_spec x stop); try lia; [f_equal; apply IH; auto|reflexivity].
  - cbn [visit]. destruct (Z.leb_spec stop x); [|lia]. cbn [filter]. destruct (Z.ltb_spec x stop); [lia|].
    (* everything after x is >= stop as well: nothing more reaches the user *)
    rewrite Forall_forall in Hall. clear IH.
    assert (E : filter (fun x0 => (start <=? x0) && (x0 <? stop)) l = []).
    { apply filter_all_false. intros y Hy. specialize (Hall y Hy). destruct (Z.ltb_spec y stop); [lia|]. apply andb_false_r. }
    rewrite E. reflexivity.
Qed.
Print Assumptions range_start_spec.
Print Assumptions range_range_user_calls.
