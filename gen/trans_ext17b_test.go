package main

var ext17Funcs = []string{"Cat", "Rep", "RuneRev", "RangeStr", "RangeKeys"}

func ext17More(a string, add func(string, func() string)) []string { return nil }
