// Area RandzCode (C20): the Go -> Gallina translation (gen/trans.go + gen/trans_ext20.go) of randz/id.go — ID.Base32,
// ParseBase32 and the init() that builds the decode table — plus CountGenerator.getRand (randz/count.go) and the bit-count
// loop of NewStrGenerator (randz/str.go, a loop fragment).  coq/Proofs/RandzCode.v proves each generated function equal to
// the hand-written model function of Model/Randz.v on every run.  Fails closed on anything outside the subset.
package main

func init() { Register(Area{Name: "RandzCode", Gen: genRandzCode}) }

func genRandzCode(repo string) (string, error) {
	body, err := Translate(repo, TransSpec{
		Dir:        "randz",
		Funcs:      []string{"init:decodeBase32Map", "ParseBase32", "ID.Base32", "CountGenerator.getRand"},
		Globals:    []string{"decodeBase32Map"},
		WrapSigned: true,
		Frags:      []FragSpec{{Func: "NewStrGenerator", Nth: 1}},
	})
	if err != nil {
		return "", err
	}
	return "From Coq Require Import Bool.\nFrom V Require Import Lib.GoSem.\nImport GoNotations.\nLocal Open Scope Z_scope.\n" + body, nil
}
