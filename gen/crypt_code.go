// Area CryptCode (C09): the Go -> Gallina translation of golib's own code in cryptz/crypt.go.
package main

func init() { Register(Area{Name: "CryptCode", Gen: genCryptCode}) }

var cryptStubs = map[string]string{
	"bytes": `package bytes
func Equal(a, b []byte) bool`,
	"crypto/aes": `package aes
import "crypto/cipher"
const BlockSize = 16
func NewCipher(key []byte) (cipher.Block, error)`,
	"crypto/cipher": `package cipher
type Block interface { BlockSize() int; Encrypt(dst, src []byte); Decrypt(dst, src []byte) }`,
	"crypto/md5": `package md5
const Size = 16
func Sum(data []byte) [Size]byte`,
	"crypto/rand": `package rand
import "io"
var Reader io.Reader`,
	"io": `package io
type Reader interface { Read(p []byte) (n int, err error) }
type Writer interface { Write(p []byte) (n int, err error) }
func ReadFull(r Reader, buf []byte) (n int, err error)`,
	"fmt": `package fmt
func Errorf(format string, a ...any) error`,
}

func genCryptCode(repo string) (string, error) {
	body, err := Translate(repo, TransSpec{
		Dir:           "cryptz",
		Funcs:         []string{"fillCred", "fillSaltAndCred", "SaltBySecretCBCEncrypt", "SaltBySecretCBCDecrypt", "SaltBySecretGCMEncrypt", "SaltBySecretGCMDecrypt"},
		InPlace:       true,
		Stubs:         cryptStubs,
		ModuleImports: true,
		Foreign: []ForeignSpec{
			{Name: "md5.Sum"}, {Name: "io.ReadFull", Writes: []int{1}}, {Name: "bytes.Equal"},
			{Name: "cryptz.AESCBCEncrypt", Writes: []int{0}}, {Name: "cryptz.AESCBCDecrypt", Writes: []int{0}},
			{Name: "cryptz.AESGCMEncrypt", Writes: []int{0}}, {Name: "cryptz.AESGCMDecrypt", Writes: []int{0}},
		},
		ErrCodes: []ErrCode{
			{Text: "cipherText text length illegal", Code: 11},
			{Text: "check cbc fixed header error", Code: 12},
			{Text: "check fixed header error", Code: 13},
			{Text: "generate random salt error", Prefix: true, Code: 19},
		},
		T09: T09Spec{CapLocals: true, ForeignVars: []string{"rand.Reader"}, SelfForeign: true,
			Identity: []string{"strz.UnsafeStrOrBytesToBytes"}, DeadAlias: true},
	})
	if err != nil {
		return "", err
	}
	return "From Coq Require Import Bool.\nFrom V Require Import Lib.GoSem Lib.GoSemRec Lib.GoSemStd.\nImport GoNotations.\nLocal Open Scope Z_scope.\n" + body, nil
}
