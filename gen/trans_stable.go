// go2v: stable Record field names (hooks marked `// [stable]` in trans.go, trans_expr.go, trans_seq.go).
//
// The names of unexported struct fields are not behaviour: renaming `values` to `slots`, or reordering the fields of
// `type SyncRing struct`, changes nothing a caller can see, but it would rename / reorder the projections of the generated
// Record (`SyncRing_values`, the argument order of `mkSyncRing`), which the theorem STATEMENTS mention.  A TransSpec can
// therefore list, per struct, the expected (pristine) fields in order with their Go types (TransSpec.Expect).  When the
// current struct has the same multiset of field types, every current field is mapped to an expected field of the same
// type — first the fields whose name is unchanged, then the remaining ones by occurrence index among the fields of that
// type — and the Record is emitted with the EXPECTED names in the EXPECTED order; selectors `r.slots` are translated to
// the projection of the expected name.  When the type multisets differ (a field was added, removed or retyped) the current
// names are emitted as before.  The mapping is a heuristic about NAMES only and cannot make a wrong theorem pass: every
// equality is re-proved against the emitted definitions (a mapping that crosses two same-typed fields whose roles were
// swapped makes the proofs fail, it does not make them lie).
package main

import (
	"fmt"
	"go/types"
	"strings"
)

// ExpectField: one field of the pristine struct; Type as go/types prints it without package qualifiers ("[]T",
// "uint32", "[]item[T]").
type ExpectField struct{ Name, Type string }

func fieldTypeString(ty types.Type) string {
	return types.TypeString(ty, func(*types.Package) string { return "" })
}

// stableFields: cur = the current fields in declaration order.  Returns, for the Record to emit, the indices into cur in
// emission order and the Coq field names; ok = false: emit the current names in the current order.
func stableFields(curNames, curTypes []string, exp []ExpectField) (order []int, names []string, ok bool) {
	if len(exp) == 0 || len(exp) != len(curNames) {
		return nil, nil, false
	}
	count := map[string]int{}
	for _, ty := range curTypes {
		count[ty]++
	}
	for _, e := range exp {
		count[e.Type]--
	}
	for _, n := range count {
		if n != 0 {
			return nil, nil, false
		}
	}
	curOf := make([]int, len(exp)) // expected index -> current index
	usedCur := make([]bool, len(curNames))
	for i := range curOf {
		curOf[i] = -1
	}
	for i, e := range exp { // unchanged names first
		for j := range curNames {
			if !usedCur[j] && curNames[j] == e.Name && curTypes[j] == e.Type {
				curOf[i], usedCur[j] = j, true
				break
			}
		}
	}
	for i, e := range exp { // the rest: same type, same occurrence index among the unmatched
		if curOf[i] >= 0 {
			continue
		}
		for j := range curNames {
			if !usedCur[j] && curTypes[j] == e.Type {
				curOf[i], usedCur[j] = j, true
				break
			}
		}
		if curOf[i] < 0 {
			return nil, nil, false
		}
	}
	for i, e := range exp {
		order = append(order, curOf[i])
		names = append(names, e.Name)
	}
	return order, names, true
}

// coqField: the Record field name a Go field name is translated to.
func (si *structInfo) coqField(goName string) string {
	for i, g := range si.goNames {
		if g == goName {
			return si.fields[i]
		}
	}
	return goName
}

// renameNote: a comment for the generated file when names were mapped.
func (si *structInfo) renameNote() string {
	var parts []string
	for i, g := range si.goNames {
		if g != si.fields[i] {
			parts = append(parts, fmt.Sprintf("%s is the Go field %s", si.fields[i], g))
		}
	}
	if len(parts) == 0 {
		return ""
	}
	return " — stable names (TransSpec.Expect): " + strings.Join(parts, ", ")
}
