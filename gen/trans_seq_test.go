// Self-test of the "seq" extension of the translator (gen/trans_seq.go): sequential reading of sync/atomic, slices of
// structs, pointers to elements, tagless switch, timed tails.  internal/sample/seq.go is run natively (one goroutine) and
// its translation is evaluated by coqc on the same arguments; internal/refused/seq.go must be refused.
package main

import (
	"fmt"
	"os"
	"os/exec"
	"path/filepath"
	"strings"
	"testing"

	"verifgen/internal/sample"
)

func TestSeqExtensionAgainstNativeGo(t *testing.T) {
	if _, err := exec.LookPath("coqc"); err != nil {
		t.Skip("coqc not found")
	}
	body, err := Translate(".", TransSpec{Dir: "internal/sample", Structs: []string{"cell", "Slots"},
		Funcs:     []string{"Slots.Setup", "Slots.Put", "Slots.Get", "Slots.Count", "Slots.Stale", "Slots.PutWait", "SlotScript", "LocalAtomics"},
		TimedTail: []string{"Slots.PutWait"}})
	if err != nil {
		t.Fatal(err)
	}
	var ex []string
	add := func(call string, f func() string) {
		ex = append(ex, fmt.Sprintf("Example sx%d : %s = %s.\nProof. vm_compute. reflexivity. Qed.", len(ex), call, native(f)))
	}
	lists := [][]int{nil, {4}, {4, 5}, {7, 8, 9}, {1, 2, 3, 4, 5}, {1, 2, 3, 4, 5, 6, 7, 8, 9, 10}}
	for _, n := range []int{-1, 0, 1, 2, 3, 4, 5, 8} {
		for _, xs := range lists {
			for _, stale := range []int{0, 1, 2, 3} {
				n, xs, stale := n, xs, stale
				add(fmt.Sprintf("g_SlotScript 100 %s %s %s", zs(n), ls(xs), zs(stale)), func() string {
					p, a, b, ok, okS, h, c, z := sample.SlotScript(n, xs, stale)
					return fmt.Sprintf("(%s, %s, %s, %s, %s, %s, %s, %s)", zs(p), zs(a), zs(b), bs(ok), bs(okS), zs(h), zs(c), zs(z))
				})
			}
		}
	}
	for _, a := range []uint32{0, 5, 6, 1<<32 - 1} {
		for _, d := range []uint32{0, 1, 1<<32 - 1, 1<<32 - 7} {
			a, d := a, d
			add(fmt.Sprintf("g_LocalAtomics %d %d", a, d), func() string {
				x, o1, o2, y := sample.LocalAtomics(a, d)
				return fmt.Sprintf("(%d, %s, %s, %d)", x, bs(o1), bs(o2), y)
			})
		}
	}
	// the timed tail: PutWait(v, 0) on a ring with room / on a full ring; the remainder is a parameter of the translation
	for _, fill := range []int{0, 1, 2, 3} {
		fill := fill
		var s sample.Slots[int]
		s.Setup(2)
		pre := "do s <- g_Slots_Setup 100 zero_Slots 2;;"
		for i := 0; i < fill; i++ {
			s.Put(10 + i)
			pre += fmt.Sprintf(" do '(s, _) <- g_Slots_Put s %d;;", 10+i)
		}
		r0 := s.PutWait(50, 0)
		c0 := s.Count()
		ex = append(ex, fmt.Sprintf("Example tx%d : (%s do '(s, b) <- g_Slots_PutWait 100 s 50 0 (fun _ _ _ => NoFuel);; do n <- g_Slots_Count s;; Ret (b, n)) = Ret (%s, %d).\nProof. vm_compute. reflexivity. Qed.",
			fill, pre, bs(r0), c0))
		if c0 < 2 { // room: PutWait(v, -1) returns; on a full ring it would spin for ever (NoFuel below)
			r1 := s.PutWait(51, -1)
			ex = append(ex, fmt.Sprintf("Example ty%d : (%s do '(s, _) <- g_Slots_PutWait 100 s 50 0 (fun _ _ _ => NoFuel);; do '(s, b) <- g_Slots_PutWait 100 s 51 (-1) (fun _ _ _ => Panic);; do n <- g_Slots_Count s;; Ret (b, n)) = Ret (%s, %d).\nProof. vm_compute. reflexivity. Qed.",
				fill, pre, bs(r1), s.Count()))
		} else {
			ex = append(ex, fmt.Sprintf("Example ty%d : (%s do '(s, _) <- g_Slots_PutWait 100 s 50 0 (fun _ _ _ => Panic);; do '(s, b) <- g_Slots_PutWait 100 s 51 (-1) (fun _ _ _ => Panic);; Ret b) = NoFuel.\nProof. vm_compute. reflexivity. Qed.",
				fill, pre))
			// a positive wait on a full ring reaches the remainder, with the state after the failed attempt
			ex = append(ex, fmt.Sprintf("Example tz%d : (%s do '(s, b) <- g_Slots_PutWait 100 s 50 7 (fun s v d => Ret (s, (v =? 50) && (d =? 7)));; Ret b) = Ret true.\nProof. vm_compute. reflexivity. Qed.",
				fill, pre))
		}
	}

	dir := t.TempDir()
	os.MkdirAll(filepath.Join(dir, "Lib"), 0755)
	os.MkdirAll(filepath.Join(dir, "Gen"), 0755)
	for _, f := range []string{"GoSem.v", "GoSemRec.v"} {
		src, err := os.ReadFile("../coq/Lib/" + f)
		if err != nil {
			t.Fatal(err)
		}
		os.WriteFile(filepath.Join(dir, "Lib", f), src, 0644)
	}
	text := "From Coq Require Import List ZArith Bool.\nImport ListNotations.\nFrom V Require Import Lib.GoSem Lib.GoSemRec.\nImport GoNotations.\nLocal Open Scope Z_scope.\n" +
		body + "\n" + strings.Join(ex, "\n") + "\n"
	os.WriteFile(filepath.Join(dir, "Gen", "SeqSample.v"), []byte(text), 0644)
	if keep := os.Getenv("GO2V_KEEP_SEQ"); keep != "" {
		os.WriteFile(keep, []byte(text), 0644)
	}
	for _, f := range []string{"Lib/GoSem.v", "Lib/GoSemRec.v", "Gen/SeqSample.v"} {
		cmd := exec.Command("timeout", "600", "coqc", "-Q", ".", "V", f)
		cmd.Dir = dir
		if out, err := cmd.CombinedOutput(); err != nil {
			t.Fatalf("coqc %s: %v\n%s", f, err, out)
		}
	}
	t.Logf("%d examples agree", len(ex))
}

func TestSeqExtensionFailsClosed(t *testing.T) {
	for _, fn := range []string{"Holder.PlaceThenReassign", "Holder.ElemValue", "Holder.SwitchBreak", "Holder.TagSwitch", "Holder.AtomicSwap",
		"Holder.Sleepy", "Holder.CallsTimed", "Holder.AtomicOrder", "Holder.AppendStructs", "Holder.CondWrites"} {
		_, err := Translate(".", TransSpec{Dir: "internal/refused", Structs: []string{"pair", "Holder"}, Funcs: []string{fn},
			TimedTail: []string{"Holder.Timed"}})
		if err == nil || !strings.Contains(err.Error(), "unsupported") || !strings.Contains(err.Error(), "seq.go:") {
			t.Errorf("%s: expected `unsupported: ... at file:line`, got %v", fn, err)
		} else {
			t.Logf("%s: %v", fn, err)
		}
	}
}
