// gen/randz.go: constants of randz (C20) -> coq/Gen/Randz.v
//
//   randz/id.go    the base-32 alphabet; the length of the decode table; the bound of the init() loop that
//                  fills the table with the "invalid" marker (the F9 defect was that this bound was 32, not 256);
//                  the marker value written by init() and the one tested by ParseBase32; the radix literals of
//                  ParseBase32 / Base32; NewIdGenerator's clamping thresholds and the time mask.
//   randz/str.go   the number of random bits per word (63) in NewStrGenerator.
//   hashz/hash_str.go  BKDRHash seed and result mask (CountGenerator hashes the id with it).
// Every extraction fails closed when the source no longer has the expected shape.
package main

import (
	"fmt"
	"go/ast"
	"go/token"
	"math/big"
	"strings"
)

func init() { Register(Area{Name: "Randz", Gen: genRandz}) }

// rzArrayLen returns the length of a package-level `var name [N]T`.
func rzArrayLen(p *Pkg, name string) (*big.Int, error) {
	for _, f := range p.Files {
		for _, d := range f.Decls {
			g, ok := d.(*ast.GenDecl)
			if !ok || g.Tok != token.VAR {
				continue
			}
			for _, s := range g.Specs {
				vs := s.(*ast.ValueSpec)
				for _, n := range vs.Names {
					if n.Name != name {
						continue
					}
					at, ok := vs.Type.(*ast.ArrayType)
					if !ok || at.Len == nil {
						return nil, fmt.Errorf("%s is not a fixed-size array", name)
					}
					return Eval(at.Len, p.Env, 0)
				}
			}
		}
	}
	return nil, fmt.Errorf("array %s not found", name)
}

// rzInitFuncs returns every func init() of the package.
func rzInitFuncs(p *Pkg) []*ast.FuncDecl {
	var out []*ast.FuncDecl
	for _, f := range p.Files {
		for _, d := range f.Decls {
			if fd, ok := d.(*ast.FuncDecl); ok && fd.Recv == nil && fd.Name.Name == "init" {
				out = append(out, fd)
			}
		}
	}
	return out
}

// rzEvalLen evaluates an integer expression, additionally understanding len(<package-level array>).
func rzEvalLen(p *Pkg, e ast.Expr) (*big.Int, error) {
	if c, ok := e.(*ast.CallExpr); ok {
		if id, ok := c.Fun.(*ast.Ident); ok && id.Name == "len" && len(c.Args) == 1 {
			if a, ok := c.Args[0].(*ast.Ident); ok {
				if n, err := rzArrayLen(p, a.Name); err == nil {
					return n, nil
				}
			}
		}
	}
	return Eval(e, p.Env, 0)
}

// rzLoopBound: the number of iterations' upper bound of
//   for i := range X            (X a package-level array or string constant)      -> len(X)
//   for i := 0; i < B; i++      (i starts at 0, step 1)                              -> B   (B <= evaluated; `<=` gives B+1)
// together with the name of the loop variable.
func rzLoopBound(p *Pkg, s ast.Stmt) (*big.Int, string, error) {
	switch x := s.(type) {
	case *ast.RangeStmt:
		k, ok := x.Key.(*ast.Ident)
		if !ok || x.Value != nil {
			return nil, "", fmt.Errorf("range loop must have the form `for i := range X`")
		}
		id, ok := x.X.(*ast.Ident)
		if !ok {
			return nil, "", fmt.Errorf("range over a non-identifier")
		}
		if n, err := rzArrayLen(p, id.Name); err == nil {
			return n, k.Name, nil
		}
		if str, err := p.Str(id.Name); err == nil {
			return big.NewInt(int64(len(str))), k.Name, nil
		}
		if n, err := p.Int(id.Name); err == nil { // range over an integer constant
			return n, k.Name, nil
		}
		return nil, "", fmt.Errorf("range over %s: neither array nor string constant", id.Name)
	case *ast.ForStmt:
		as, ok := x.Init.(*ast.AssignStmt)
		if !ok || len(as.Lhs) != 1 || len(as.Rhs) != 1 || as.Tok != token.DEFINE {
			return nil, "", fmt.Errorf("for loop: unexpected init")
		}
		iv, ok := as.Lhs[0].(*ast.Ident)
		if !ok {
			return nil, "", fmt.Errorf("for loop: unexpected init")
		}
		if z, err := Eval(as.Rhs[0], p.Env, 0); err != nil || z.Sign() != 0 {
			return nil, "", fmt.Errorf("for loop: must start at 0")
		}
		inc, ok := x.Post.(*ast.IncDecStmt)
		if !ok || inc.Tok != token.INC {
			return nil, "", fmt.Errorf("for loop: step must be i++")
		}
		if id, ok := inc.X.(*ast.Ident); !ok || id.Name != iv.Name {
			return nil, "", fmt.Errorf("for loop: step must be i++")
		}
		c, ok := x.Cond.(*ast.BinaryExpr)
		if !ok {
			return nil, "", fmt.Errorf("for loop: unexpected condition")
		}
		if id, ok := c.X.(*ast.Ident); !ok || id.Name != iv.Name {
			return nil, "", fmt.Errorf("for loop: condition must compare the loop variable")
		}
		b, err := rzEvalLen(p, c.Y)
		if err != nil {
			return nil, "", err
		}
		switch c.Op {
		case token.LSS:
			return b, iv.Name, nil
		case token.LEQ:
			return new(big.Int).Add(b, big.NewInt(1)), iv.Name, nil
		}
		return nil, "", fmt.Errorf("for loop: unexpected comparison %s", c.Op)
	}
	return nil, "", fmt.Errorf("not a loop")
}

func rzLoopBody(s ast.Stmt) *ast.BlockStmt {
	switch x := s.(type) {
	case *ast.RangeStmt:
		return x.Body
	case *ast.ForStmt:
		return x.Body
	}
	return nil
}

// rzIsIndexOf reports whether e is `arr[<something>]` and returns the index expression.
func rzIsIndexOf(e ast.Expr, arr string) (ast.Expr, bool) {
	ix, ok := e.(*ast.IndexExpr)
	if !ok {
		return nil, false
	}
	id, ok := ix.X.(*ast.Ident)
	if !ok || id.Name != arr {
		return nil, false
	}
	return ix.Index, true
}

func genRandz(repo string) (string, error) {
	p, err := Load(repo, "randz")
	if err != nil {
		return "", err
	}
	var sb strings.Builder
	sb.WriteString("Local Open Scope Z_scope.\n")

	// ---- alphabet, table
	alpha, err := p.Str("encodeBase32Map")
	if err != nil {
		return "", err
	}
	sb.WriteString("(* randz/id.go: const encodeBase32Map *)\n")
	sb.WriteString(CoqBytes("g_base32_alphabet", []byte(alpha)))
	tlen, err := rzArrayLen(p, "decodeBase32Map")
	if err != nil {
		return "", err
	}
	sb.WriteString("(* var decodeBase32Map [N]byte *)\n")
	sb.WriteString(CoqZ("g_decode_table_len", tlen))

	// ---- the init() that fills the table: loop 1 = fill with a marker, loop 2 = scatter the alphabet
	var fill, scatter ast.Stmt
	for _, fd := range rzInitFuncs(p) {
		var loops []ast.Stmt
		touches := false
		for _, st := range fd.Body.List {
			switch st.(type) {
			case *ast.RangeStmt, *ast.ForStmt:
				loops = append(loops, st)
			}
		}
		ast.Inspect(fd.Body, func(n ast.Node) bool {
			if id, ok := n.(*ast.Ident); ok && id.Name == "decodeBase32Map" {
				touches = true
			}
			return true
		})
		if touches {
			if len(loops) != 2 || len(fd.Body.List) != 2 {
				return "", fmt.Errorf("init() of the decode table: expected exactly two loops, found %d statements / %d loops", len(fd.Body.List), len(loops))
			}
			fill, scatter = loops[0], loops[1]
		}
	}
	if fill == nil {
		return "", fmt.Errorf("init() that fills decodeBase32Map not found")
	}
	bound, iv, err := rzLoopBound(p, fill)
	if err != nil {
		return "", fmt.Errorf("fill loop: %v", err)
	}
	fb := rzLoopBody(fill)
	if len(fb.List) != 1 {
		return "", fmt.Errorf("fill loop: expected one assignment")
	}
	fas, ok := fb.List[0].(*ast.AssignStmt)
	if !ok || fas.Tok != token.ASSIGN || len(fas.Lhs) != 1 || len(fas.Rhs) != 1 {
		return "", fmt.Errorf("fill loop: expected one assignment")
	}
	if ix, ok := rzIsIndexOf(fas.Lhs[0], "decodeBase32Map"); !ok {
		return "", fmt.Errorf("fill loop: does not assign decodeBase32Map[i]")
	} else if id, ok := ix.(*ast.Ident); !ok || id.Name != iv {
		return "", fmt.Errorf("fill loop: index is not the loop variable")
	}
	marker, err := Eval(fas.Rhs[0], p.Env, 0)
	if err != nil {
		return "", fmt.Errorf("fill loop: %v", err)
	}
	sb.WriteString("(* init(): `for i ...  { decodeBase32Map[i] = marker }`: number of entries written (from index 0), marker *)\n")
	sb.WriteString(CoqZ("g_decode_init_bound", bound))
	sb.WriteString(CoqZ("g_decode_fill", marker))
	// scatter loop: for i := 0; i < len(encodeBase32Map); i++ { decodeBase32Map[encodeBase32Map[i]] = byte(i) }
	sbound, siv, err := rzLoopBound(p, scatter)
	if err != nil {
		return "", fmt.Errorf("scatter loop: %v", err)
	}
	scb := rzLoopBody(scatter)
	okShape := false
	if len(scb.List) == 1 {
		if as, ok := scb.List[0].(*ast.AssignStmt); ok && as.Tok == token.ASSIGN && len(as.Lhs) == 1 && len(as.Rhs) == 1 {
			if ix, ok := rzIsIndexOf(as.Lhs[0], "decodeBase32Map"); ok {
				if ix2, ok := rzIsIndexOf(ix, "encodeBase32Map"); ok {
					if id, ok := ix2.(*ast.Ident); ok && id.Name == siv {
						// rhs: byte(i) or i
						r := as.Rhs[0]
						if c, ok := r.(*ast.CallExpr); ok && len(c.Args) == 1 {
							r = c.Args[0]
						}
						if id, ok := r.(*ast.Ident); ok && id.Name == siv {
							okShape = true
						}
					}
				}
			}
		}
	}
	if !okShape {
		return "", fmt.Errorf("scatter loop: expected decodeBase32Map[encodeBase32Map[i]] = byte(i)")
	}
	sb.WriteString("(* init(): `decodeBase32Map[encodeBase32Map[i]] = byte(i)` for i below *)\n")
	sb.WriteString(CoqZ("g_decode_scatter_bound", sbound))

	// ---- ParseBase32: the marker tested, the radix
	pf := p.Func("ParseBase32")
	if pf == nil {
		return "", fmt.Errorf("ParseBase32 not found")
	}
	var tested, radix *big.Int
	nif, nmul := 0, 0
	ast.Inspect(pf.Body, func(n ast.Node) bool {
		switch x := n.(type) {
		case *ast.IfStmt:
			if be, ok := x.Cond.(*ast.BinaryExpr); ok && be.Op == token.EQL {
				if _, ok := rzIsIndexOf(be.X, "decodeBase32Map"); ok {
					if v, err := Eval(be.Y, p.Env, 0); err == nil {
						tested = v
						nif++
					}
				}
			}
		case *ast.BinaryExpr:
			if x.Op == token.MUL {
				if v, err := Eval(x.Y, p.Env, 0); err == nil {
					radix = v
					nmul++
				}
			}
		}
		return true
	})
	if nif != 1 || nmul != 1 || tested == nil || radix == nil {
		return "", fmt.Errorf("ParseBase32: expected one `decodeBase32Map[..] == marker` test and one `id*radix`")
	}
	sb.WriteString("(* ParseBase32: `if decodeBase32Map[b[i]] == marker` ; `id = id*radix + ...` *)\n")
	sb.WriteString(CoqZ("g_parse_invalid", tested))
	sb.WriteString(CoqZ("g_parse_radix", radix))

	// ---- ID.Base32: every integer literal must be the same radix
	bf := p.Func("ID.Base32")
	if bf == nil {
		return "", fmt.Errorf("ID.Base32 not found")
	}
	var brad *big.Int
	for _, v := range p.IntLits(bf) {
		// literals in Base32: 32 (x5), 0, 12 (capacity), 0, 1, 1, 1
		if v.Cmp(big.NewInt(12)) > 0 {
			if brad != nil && brad.Cmp(v) != 0 {
				return "", fmt.Errorf("ID.Base32: two different radix literals %v, %v", brad, v)
			}
			brad = v
		}
	}
	if brad == nil {
		return "", fmt.Errorf("ID.Base32: radix literal not found")
	}
	sb.WriteString("(* ID.Base32: the literal compared with / divided by *)\n")
	sb.WriteString(CoqZ("g_format_radix", brad))

	// ---- NewIdGenerator: if randBit <= A { randBit = B }; if randBit > C { randBit = D }; timeMask: expr
	nf := p.Func("NewIdGenerator")
	if nf == nil {
		return "", fmt.Errorf("NewIdGenerator not found")
	}
	type clamp struct {
		op       token.Token
		thr, set *big.Int
	}
	var clamps []clamp
	var tmask *big.Int
	var shiftIsRandBit, randMaxOK bool
	for _, st := range nf.Body.List {
		switch x := st.(type) {
		case *ast.IfStmt:
			be, ok := x.Cond.(*ast.BinaryExpr)
			if !ok || x.Else != nil || len(x.Body.List) != 1 {
				return "", fmt.Errorf("NewIdGenerator: unexpected if")
			}
			if id, ok := be.X.(*ast.Ident); !ok || id.Name != "randBit" {
				return "", fmt.Errorf("NewIdGenerator: if does not test randBit")
			}
			thr, err := Eval(be.Y, p.Env, 0)
			if err != nil {
				return "", err
			}
			as, ok := x.Body.List[0].(*ast.AssignStmt)
			if !ok || len(as.Lhs) != 1 || as.Tok != token.ASSIGN {
				return "", fmt.Errorf("NewIdGenerator: unexpected if body")
			}
			if id, ok := as.Lhs[0].(*ast.Ident); !ok || id.Name != "randBit" {
				return "", fmt.Errorf("NewIdGenerator: if body does not set randBit")
			}
			set, err := Eval(as.Rhs[0], p.Env, 0)
			if err != nil {
				return "", err
			}
			clamps = append(clamps, clamp{be.Op, thr, set})
		case *ast.ReturnStmt:
			if len(x.Results) != 1 {
				return "", fmt.Errorf("NewIdGenerator: unexpected return")
			}
			cl, ok := x.Results[0].(*ast.CompositeLit)
			if !ok {
				return "", fmt.Errorf("NewIdGenerator: return is not a composite literal")
			}
			for _, el := range cl.Elts {
				kv, ok := el.(*ast.KeyValueExpr)
				if !ok {
					return "", fmt.Errorf("NewIdGenerator: unkeyed literal")
				}
				k := kv.Key.(*ast.Ident).Name
				switch k {
				case "timeMask":
					tmask, err = Eval(kv.Value, p.Env, 0)
					if err != nil {
						return "", err
					}
				case "timeShift":
					if id, ok := kv.Value.(*ast.Ident); ok && id.Name == "randBit" {
						shiftIsRandBit = true
					}
				case "randMax":
					if be, ok := kv.Value.(*ast.BinaryExpr); ok && be.Op == token.SHL {
						one, e1 := Eval(be.X, p.Env, 0)
						id, ok := be.Y.(*ast.Ident)
						if e1 == nil && one.Cmp(big.NewInt(1)) == 0 && ok && id.Name == "randBit" {
							randMaxOK = true
						}
					}
				}
			}
		default:
			return "", fmt.Errorf("NewIdGenerator: unexpected statement")
		}
	}
	if len(clamps) != 2 || clamps[0].op != token.LEQ || clamps[1].op != token.GTR || tmask == nil || !shiftIsRandBit || !randMaxOK {
		return "", fmt.Errorf("NewIdGenerator: expected `if randBit <= a {randBit = b}; if randBit > c {randBit = d}`, timeMask, timeShift: randBit, randMax: 1 << randBit")
	}
	sb.WriteString("(* NewIdGenerator: if randBit <= lo { randBit = dflt }; if randBit > hi { randBit = hiset }; timeMask *)\n")
	sb.WriteString(CoqZ("g_rb_lo", clamps[0].thr))
	sb.WriteString(CoqZ("g_rb_default", clamps[0].set))
	sb.WriteString(CoqZ("g_rb_hi", clamps[1].thr))
	sb.WriteString(CoqZ("g_rb_hiset", clamps[1].set))
	sb.WriteString(CoqZ("g_time_mask", tmask))

	// ---- NewStrGenerator: charIdxMax: W / bits ; charIdxMask: 1<<bits - 1
	sf := p.Func("NewStrGenerator")
	if sf == nil {
		return "", fmt.Errorf("NewStrGenerator not found")
	}
	var wbits *big.Int
	maskOK := false
	ast.Inspect(sf.Body, func(n ast.Node) bool {
		kv, ok := n.(*ast.KeyValueExpr)
		if !ok {
			return true
		}
		k, ok := kv.Key.(*ast.Ident)
		if !ok {
			return true
		}
		switch k.Name {
		case "charIdxMax":
			if be, ok := kv.Value.(*ast.BinaryExpr); ok && be.Op == token.QUO {
				if id, ok := be.Y.(*ast.Ident); ok && id.Name == "bits" {
					if v, err := Eval(be.X, p.Env, 0); err == nil {
						wbits = v
					}
				}
			}
		case "charIdxMask":
			// 1<<bits - 1
			if be, ok := kv.Value.(*ast.BinaryExpr); ok && be.Op == token.SUB {
				one, e1 := Eval(be.Y, p.Env, 0)
				if sh, ok := be.X.(*ast.BinaryExpr); ok && sh.Op == token.SHL && e1 == nil && one.Cmp(big.NewInt(1)) == 0 {
					o2, e2 := Eval(sh.X, p.Env, 0)
					if id, ok := sh.Y.(*ast.Ident); ok && id.Name == "bits" && e2 == nil && o2.Cmp(big.NewInt(1)) == 0 {
						maskOK = true
					}
				}
			}
		}
		return true
	})
	if wbits == nil || !maskOK {
		return "", fmt.Errorf("NewStrGenerator: expected charIdxMask: 1<<bits - 1 and charIdxMax: W / bits")
	}
	sb.WriteString("(* NewStrGenerator: charIdxMax: W / bits *)\n")
	sb.WriteString(CoqZ("g_str_word_bits", wbits))
	cs, err := p.Str("CHAR_SET")
	if err != nil {
		return "", err
	}
	sb.WriteString(CoqBytes("g_char_set", []byte(cs)))

	// ---- hashz.BKDRHash: seed, mask
	h, err := Load(repo, "hashz")
	if err != nil {
		return "", err
	}
	hf := h.Func("BKDRHash")
	if hf == nil {
		return "", fmt.Errorf("hashz.BKDRHash not found")
	}
	lits := h.IntLits(hf)
	// var seed uint32 = 131; var hash uint32 = 0; for i := 0; ...; return hash & 0x7FFFFFFF
	if len(lits) != 4 || lits[1].Sign() != 0 || lits[2].Sign() != 0 {
		return "", fmt.Errorf("hashz.BKDRHash: expected literals seed, 0, 0, mask; found %v", lits)
	}
	sb.WriteString("(* hashz.BKDRHash: seed; result mask (uint32 arithmetic) *)\n")
	sb.WriteString(CoqZ("g_bkdr_seed", lits[0]))
	sb.WriteString(CoqZ("g_bkdr_mask", lits[3]))
	return sb.String(), nil
}
