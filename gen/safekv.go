package main

// Area SafeKVSkel (C12): for every method of mapz.SafeKV (mapz/safekv.go, mapz/iter.go) the program-order list of lock
// events and accesses to the guarded map, as a Coq value:
//
//   Acq R|W, Rel R|W      s.mu.RLock()/Lock(), s.mu.RUnlock()/Unlock()  (`defer s.mu.Unlock()` = release at the very end)
//   Rd Hdr / Wr Hdr       the field s.entries itself is read / assigned (Clear replaces the map)
//   Rd Entries/Wr Entries the content of the map is read (index, len, range; one more Rd Entries per iteration) / written
//                         (index assignment, delete, clear, a KV method that writes, the callee of fn(s.entries))
//   CallUser              a call of a function-typed parameter (fn, yield)
//   Star [..]             a part that runs any number of times: the body of an if / for / range, after the events of its header
//
// Lock placement is invisible to sequential differential testing; this file is the tie for the race-freedom half.
// Everything the extractor does not understand makes it fail closed: lock calls that are not top-level statements,
// other defers, other uses of s.mu / s.entries / s (aliases, address-of, closures, passing the map to a non-parameter
// function), returns under an explicitly released lock, nested control flow that contains map accesses, value receivers.

import (
	"fmt"
	"go/ast"
	"go/token"
	"sort"
	"strings"
)

func init() { Register(Area{Name: "SafeKVSkel", Gen: genSafeKV}) }

type skItem struct {
	ev   string   // "" for a Star
	body []string // Star body
}

type skx struct {
	recv      string            // receiver name
	entries   string            // field name of the map
	mu        string            // field name of the mutex
	funcParam map[string]bool   // names of function-typed parameters (incl. those of a returned closure)
	kvWriter  map[string]bool   // KV method name -> writes the map
	kvReader  map[string]bool   // KV method name -> reads the map
	consumed  map[ast.Node]bool // selector nodes s.entries / s.mu that were understood
	items     []skItem
	inStar    bool
	star      []string
	deferred  []string
	held      int // number of explicit (non-deferred) acquisitions not yet released, for the return check
	err       error
}

func (x *skx) fail(format string, a ...any) {
	if x.err == nil {
		x.err = fmt.Errorf(format, a...)
	}
}
func (x *skx) emit(ev string) {
	if x.inStar {
		x.star = append(x.star, ev)
	} else {
		x.items = append(x.items, skItem{ev: ev})
	}
}
func (x *skx) isRecvSel(e ast.Expr, field string) bool {
	s, ok := e.(*ast.SelectorExpr)
	if !ok || s.Sel.Name != field {
		return false
	}
	id, ok := s.X.(*ast.Ident)
	return ok && id.Name == x.recv
}
func (x *skx) isEntries(e ast.Expr) bool {
	if p, ok := e.(*ast.ParenExpr); ok {
		return x.isEntries(p.X)
	}
	if x.isRecvSel(e, x.entries) {
		x.consumed[e] = true
		x.consumed[e.(*ast.SelectorExpr).X] = true
		return true
	}
	return false
}

// lockCall recognises s.mu.Lock() etc.; returns the event
func (x *skx) lockCall(c *ast.CallExpr) (string, bool) {
	se, ok := c.Fun.(*ast.SelectorExpr)
	if !ok || !x.isRecvSel(se.X, x.mu) || len(c.Args) != 0 {
		return "", false
	}
	x.consumed[se.X] = true
	x.consumed[se.X.(*ast.SelectorExpr).X] = true
	switch se.Sel.Name {
	case "Lock":
		return "Acq W", true
	case "RLock":
		return "Acq R", true
	case "Unlock":
		return "Rel W", true
	case "RUnlock":
		return "Rel R", true
	}
	x.fail("mutex method %s not understood", se.Sel.Name)
	return "", false
}

// expr emits the events of evaluating e (as an rvalue), in evaluation order
func (x *skx) expr(e ast.Expr) {
	if e == nil || x.err != nil {
		return
	}
	switch n := e.(type) {
	case *ast.ParenExpr:
		x.expr(n.X)
	case *ast.IndexExpr:
		if x.isEntries(n.X) {
			x.expr(n.Index)
			x.emit("Rd Hdr")
			x.emit("Rd Entries")
			return
		}
		x.expr(n.X)
		x.expr(n.Index)
	case *ast.CallExpr:
		if _, ok := x.lockCall(n); ok {
			x.fail("lock call inside an expression or nested statement")
			return
		}
		if id, ok := n.Fun.(*ast.Ident); ok {
			switch id.Name {
			case "len":
				if len(n.Args) == 1 && x.isEntries(n.Args[0]) {
					x.emit("Rd Hdr")
					x.emit("Rd Entries")
					return
				}
			case "delete", "clear":
				if len(n.Args) >= 1 && x.isEntries(n.Args[0]) {
					for _, a := range n.Args[1:] {
						x.expr(a)
					}
					x.emit("Rd Hdr")
					x.emit("Wr Entries")
					return
				}
			}
			if x.funcParam[id.Name] {
				passesMap := false
				for _, a := range n.Args {
					if x.isEntries(a) {
						passesMap = true
					} else {
						x.expr(a)
					}
				}
				if passesMap {
					x.emit("Rd Hdr")
					x.emit("CallUser")
					x.emit("Wr Entries") // the callee holds the map itself: it may read and write the content
				} else {
					x.emit("CallUser")
				}
				return
			}
		}
		// s.entries.Method(...): a KV method, classified by its body
		if se, ok := n.Fun.(*ast.SelectorExpr); ok && x.isEntries(se.X) {
			for _, a := range n.Args {
				x.expr(a)
			}
			w, r := x.kvWriter[se.Sel.Name], x.kvReader[se.Sel.Name]
			if !w && !r {
				x.fail("method %s of the map type not understood", se.Sel.Name)
				return
			}
			x.emit("Rd Hdr")
			if r {
				x.emit("Rd Entries")
			}
			if w {
				x.emit("Wr Entries")
			}
			return
		}
		x.expr(n.Fun)
		for _, a := range n.Args {
			x.expr(a)
		}
	case *ast.SelectorExpr:
		x.expr(n.X)
	case *ast.StarExpr:
		x.expr(n.X)
	case *ast.UnaryExpr:
		x.expr(n.X)
	case *ast.BinaryExpr:
		x.expr(n.X)
		x.expr(n.Y)
	case *ast.KeyValueExpr:
		x.expr(n.Key)
		x.expr(n.Value)
	case *ast.CompositeLit:
		for _, el := range n.Elts {
			x.expr(el)
		}
	case *ast.SliceExpr:
		x.expr(n.X)
		x.expr(n.Low)
		x.expr(n.High)
		x.expr(n.Max)
	case *ast.TypeAssertExpr:
		x.expr(n.X)
	case *ast.IndexListExpr:
		x.expr(n.X)
	case *ast.FuncLit:
		// a closure must not touch the receiver at all (checked by the leftover scan)
	case *ast.Ident, *ast.BasicLit, *ast.ArrayType, *ast.MapType, *ast.ChanType, *ast.FuncType, *ast.InterfaceType, *ast.StructType, *ast.Ellipsis:
	default:
		x.fail("expression %T not understood", e)
	}
}

// assignTarget emits the events of storing into lhs
func (x *skx) assignTarget(lhs ast.Expr, alsoRead bool) {
	switch n := lhs.(type) {
	case *ast.IndexExpr:
		if x.isEntries(n.X) {
			x.expr(n.Index)
			x.emit("Rd Hdr")
			if alsoRead {
				x.emit("Rd Entries")
			}
			x.emit("Wr Entries")
			return
		}
		x.expr(n.X)
		x.expr(n.Index)
	case *ast.SelectorExpr:
		if x.isEntries(n) {
			if alsoRead {
				x.emit("Rd Hdr")
			}
			x.emit("Wr Hdr")
			return
		}
		x.expr(n.X)
	case *ast.StarExpr:
		x.expr(n.X)
	case *ast.Ident:
	case *ast.ParenExpr:
		x.assignTarget(n.X, alsoRead)
	default:
		x.fail("assignment target %T not understood", lhs)
	}
}

func (x *skx) block(b *ast.BlockStmt, top bool) {
	if b == nil {
		return
	}
	for _, st := range b.List {
		x.stmt(st, top)
		if x.err != nil {
			return
		}
	}
}

// nested runs f as the body of a Star
func (x *skx) nested(f func()) {
	if x.inStar {
		// one level only: a nested block may stay if it produces no events
		before := len(x.star)
		f()
		if len(x.star) != before {
			x.fail("nested control flow that contains map accesses or callbacks is not understood")
		}
		return
	}
	x.inStar = true
	x.star = nil
	f()
	x.inStar = false
	if len(x.star) > 0 {
		x.items = append(x.items, skItem{body: x.star})
	}
	x.star = nil
}

func (x *skx) stmt(st ast.Stmt, top bool) {
	if st == nil || x.err != nil {
		return
	}
	switch n := st.(type) {
	case *ast.ExprStmt:
		if c, ok := n.X.(*ast.CallExpr); ok {
			if ev, ok := x.lockCall(c); ok {
				if !top {
					x.fail("lock call under if/for/switch")
					return
				}
				if strings.HasPrefix(ev, "Acq") {
					x.held++
				} else {
					x.held--
				}
				x.emit(ev)
				return
			}
		}
		x.expr(n.X)
	case *ast.DeferStmt:
		ev, ok := x.lockCall(n.Call)
		if !ok || !strings.HasPrefix(ev, "Rel") || !top {
			x.fail("defer other than a top-level `defer s.%s.Unlock()/RUnlock()`", x.mu)
			return
		}
		x.held-- // released at the end on every path
		x.deferred = append([]string{ev}, x.deferred...)
	case *ast.AssignStmt:
		for _, r := range n.Rhs {
			if x.isEntries(r) {
				x.fail("alias of s.%s", x.entries)
				return
			}
			x.expr(r)
		}
		for _, l := range n.Lhs {
			x.assignTarget(l, n.Tok != token.ASSIGN && n.Tok != token.DEFINE)
		}
	case *ast.IncDecStmt:
		x.assignTarget(n.X, true)
	case *ast.DeclStmt:
		if gd, ok := n.Decl.(*ast.GenDecl); ok {
			for _, sp := range gd.Specs {
				if vs, ok := sp.(*ast.ValueSpec); ok {
					for _, v := range vs.Values {
						if x.isEntries(v) {
							x.fail("alias of s.%s", x.entries)
							return
						}
						x.expr(v)
					}
				}
			}
		}
	case *ast.ReturnStmt:
		for _, r := range n.Results {
			if x.isEntries(r) {
				x.fail("s.%s escapes through return", x.entries)
				return
			}
			x.expr(r)
		}
		if !top && x.held > 0 {
			x.fail("return under if/for while a lock taken without defer is held")
		}
	case *ast.IfStmt:
		x.stmt(n.Init, false)
		x.expr(n.Cond)
		x.nested(func() { x.block(n.Body, false) })
		if n.Else != nil {
			x.nested(func() { x.stmt(n.Else, false) })
		}
	case *ast.BlockStmt:
		x.block(n, top)
	case *ast.ForStmt:
		x.stmt(n.Init, false)
		x.nested(func() {
			x.expr(n.Cond)
			x.block(n.Body, false)
			x.stmt(n.Post, false)
		})
	case *ast.RangeStmt:
		overMap := x.isEntries(n.X)
		if overMap {
			x.emit("Rd Hdr")
			x.emit("Rd Entries")
		} else {
			x.expr(n.X)
		}
		x.nested(func() {
			if overMap {
				x.emit("Rd Entries")
			}
			x.block(n.Body, false)
		})
	case *ast.SwitchStmt:
		x.stmt(n.Init, false)
		x.expr(n.Tag)
		for _, cc := range n.Body.List {
			c := cc.(*ast.CaseClause)
			for _, e := range c.List {
				x.expr(e)
			}
			x.nested(func() {
				for _, s := range c.Body {
					x.stmt(s, false)
				}
			})
		}
	case *ast.BranchStmt, *ast.EmptyStmt:
	case *ast.LabeledStmt:
		x.stmt(n.Stmt, top)
	default:
		x.fail("statement %T not understood", st)
	}
}

// leftover: any mention of the receiver that was not understood
func (x *skx) leftover(body *ast.BlockStmt) {
	ast.Inspect(body, func(n ast.Node) bool {
		if x.err != nil {
			return false
		}
		if id, ok := n.(*ast.Ident); ok && id.Name == x.recv && !x.consumed[id] {
			x.fail("use of the receiver %s outside the understood forms of s.%s / s.%s (alias, escape, closure, other method)", x.recv, x.entries, x.mu)
		}
		return true
	})
}

func funcTypedParams(ft *ast.FuncType, into map[string]bool) {
	if ft == nil || ft.Params == nil {
		return
	}
	for _, f := range ft.Params.List {
		if _, ok := f.Type.(*ast.FuncType); ok {
			for _, nm := range f.Names {
				into[nm.Name] = true
			}
		}
	}
}

// classify the methods of the map type (mapz/kv.go) as readers / writers of their receiver
func kvMethods(p *Pkg, typeName string) (writer, reader map[string]bool) {
	writer, reader = map[string]bool{}, map[string]bool{}
	for _, f := range p.Files {
		for _, d := range f.Decls {
			fd, ok := d.(*ast.FuncDecl)
			if !ok || fd.Recv == nil || len(fd.Recv.List) != 1 || len(fd.Recv.List[0].Names) != 1 || fd.Body == nil {
				continue
			}
			t := fd.Recv.List[0].Type
			if s, ok := t.(*ast.StarExpr); ok {
				t = s.X
			}
			if ix, ok := t.(*ast.IndexListExpr); ok {
				t = ix.X
			}
			if ix, ok := t.(*ast.IndexExpr); ok {
				t = ix.X
			}
			id, ok := t.(*ast.Ident)
			if !ok || id.Name != typeName {
				continue
			}
			m := fd.Recv.List[0].Names[0].Name
			isM := func(e ast.Expr) bool { i, ok := e.(*ast.Ident); return ok && i.Name == m }
			w, r, other := false, false, false
			written := map[ast.Node]bool{}
			ast.Inspect(fd.Body, func(n ast.Node) bool {
				switch s := n.(type) {
				case *ast.AssignStmt:
					for _, l := range s.Lhs {
						if ix, ok := l.(*ast.IndexExpr); ok && isM(ix.X) {
							w = true
							written[ix] = true
							written[ix.X] = true
						}
					}
				case *ast.IncDecStmt:
					if ix, ok := s.X.(*ast.IndexExpr); ok && isM(ix.X) {
						w, r = true, true
						written[ix] = true
						written[ix.X] = true
					}
				case *ast.CallExpr:
					if f, ok := s.Fun.(*ast.Ident); ok && (f.Name == "delete" || f.Name == "clear") && len(s.Args) > 0 && isM(s.Args[0]) {
						w = true
						written[s.Args[0]] = true
					} else if f, ok := s.Fun.(*ast.Ident); ok && f.Name == "len" && len(s.Args) == 1 && isM(s.Args[0]) {
						r = true
						written[s.Args[0]] = true
					} else {
						for _, a := range s.Args {
							if isM(a) {
								other = true
							}
						}
						if se, ok := s.Fun.(*ast.SelectorExpr); ok && isM(se.X) {
							other = true
						}
					}
				case *ast.IndexExpr:
					if isM(s.X) && !written[s] {
						r = true
						written[s.X] = true
					}
				case *ast.RangeStmt:
					if isM(s.X) {
						r = true
						written[s.X] = true
					}
				}
				return true
			})
			if other {
				// passes the map on: treat as reader and writer
				w, r = true, true
			}
			if !w && !r {
				r = true
			}
			writer[fd.Name.Name], reader[fd.Name.Name] = w, r
		}
	}
	return
}

func genSafeKV(repo string) (string, error) {
	p, err := Load(repo, "mapz")
	if err != nil {
		return "", err
	}
	// ---- the struct: exactly one map field and one sync.RWMutex field
	var entries, mu, mapType string
	found := false
	for _, f := range p.Files {
		for _, d := range f.Decls {
			gd, ok := d.(*ast.GenDecl)
			if !ok || gd.Tok != token.TYPE {
				continue
			}
			for _, sp := range gd.Specs {
				ts := sp.(*ast.TypeSpec)
				if ts.Name.Name != "SafeKV" {
					continue
				}
				st, ok := ts.Type.(*ast.StructType)
				if !ok {
					return "", fmt.Errorf("SafeKV is not a struct")
				}
				found = true
				for _, fl := range st.Fields.List {
					if len(fl.Names) != 1 {
						return "", fmt.Errorf("SafeKV: embedded or multi-name field not understood")
					}
					name := fl.Names[0].Name
					t := fl.Type
					if se, ok := t.(*ast.SelectorExpr); ok {
						if id, ok := se.X.(*ast.Ident); ok && id.Name == "sync" && se.Sel.Name == "RWMutex" {
							if mu != "" {
								return "", fmt.Errorf("SafeKV: two mutexes")
							}
							mu = name
							continue
						}
						return "", fmt.Errorf("SafeKV: field %s of type %s.%s not understood", name, se.X, se.Sel.Name)
					}
					if _, ok := t.(*ast.MapType); ok {
						if entries != "" {
							return "", fmt.Errorf("SafeKV: two maps")
						}
						entries = name
						continue
					}
					base := t
					if ix, ok := base.(*ast.IndexListExpr); ok {
						base = ix.X
					}
					if ix, ok := base.(*ast.IndexExpr); ok {
						base = ix.X
					}
					if id, ok := base.(*ast.Ident); ok {
						// a named map type of the package (KV)
						isMap := false
						for _, f2 := range p.Files {
							for _, d2 := range f2.Decls {
								if g2, ok := d2.(*ast.GenDecl); ok && g2.Tok == token.TYPE {
									for _, s2 := range g2.Specs {
										t2 := s2.(*ast.TypeSpec)
										if t2.Name.Name == id.Name {
											if _, ok := t2.Type.(*ast.MapType); ok {
												isMap = true
											}
										}
									}
								}
							}
						}
						if isMap {
							if entries != "" {
								return "", fmt.Errorf("SafeKV: two maps")
							}
							entries, mapType = name, id.Name
							continue
						}
					}
					return "", fmt.Errorf("SafeKV: field %s not understood (only the map and the RWMutex are expected)", name)
				}
			}
		}
	}
	if !found || entries == "" || mu == "" {
		return "", fmt.Errorf("SafeKV struct with one map and one sync.RWMutex not found")
	}
	kvW, kvR := kvMethods(p, mapType)
	// ---- methods
	type meth struct {
		name  string
		items []skItem
	}
	var ms []meth
	for _, f := range p.Files {
		for _, d := range f.Decls {
			fd, ok := d.(*ast.FuncDecl)
			if !ok || fd.Recv == nil || len(fd.Recv.List) != 1 || fd.Body == nil {
				continue
			}
			t := fd.Recv.List[0].Type
			ptr := false
			if s, ok := t.(*ast.StarExpr); ok {
				t, ptr = s.X, true
			}
			if ix, ok := t.(*ast.IndexListExpr); ok {
				t = ix.X
			}
			if ix, ok := t.(*ast.IndexExpr); ok {
				t = ix.X
			}
			id, ok := t.(*ast.Ident)
			if !ok || id.Name != "SafeKV" {
				continue
			}
			if !ptr {
				return "", fmt.Errorf("SafeKV.%s has a value receiver (copies the mutex)", fd.Name.Name)
			}
			if len(fd.Recv.List[0].Names) != 1 {
				return "", fmt.Errorf("SafeKV.%s: unnamed receiver", fd.Name.Name)
			}
			x := &skx{recv: fd.Recv.List[0].Names[0].Name, entries: entries, mu: mu, funcParam: map[string]bool{},
				kvWriter: kvW, kvReader: kvR, consumed: map[ast.Node]bool{}}
			funcTypedParams(fd.Type, x.funcParam)
			body := fd.Body
			// iterator methods: `return func(yield ...) { ... }` — the skeleton is that of the closure (it runs when ranged over)
			if len(body.List) == 1 {
				if rs, ok := body.List[0].(*ast.ReturnStmt); ok && len(rs.Results) == 1 {
					if fl, ok := rs.Results[0].(*ast.FuncLit); ok {
						funcTypedParams(fl.Type, x.funcParam)
						body = fl.Body
					}
				}
			}
			x.block(body, true)
			for _, ev := range x.deferred {
				x.items = append(x.items, skItem{ev: ev})
			}
			x.leftover(body)
			if x.err != nil {
				return "", fmt.Errorf("SafeKV.%s: %v", fd.Name.Name, x.err)
			}
			ms = append(ms, meth{fd.Name.Name, x.items})
		}
	}
	if len(ms) == 0 {
		return "", fmt.Errorf("no SafeKV methods found")
	}
	sort.Slice(ms, func(i, j int) bool { return ms[i].name < ms[j].name })
	var sb strings.Builder
	sb.WriteString("(* lock events and map accesses of every mapz.SafeKV method, in program order (see gen/safekv.go) *)\n")
	sb.WriteString("Inductive mode := R | W.\nInductive loc := Hdr | Entries.\n")
	sb.WriteString("Inductive ev := Acq (m : mode) | Rel (m : mode) | Rd (l : loc) | Wr (l : loc) | CallUser.\n")
	sb.WriteString("Inductive item := E (e : ev) | Star (body : list ev).\n")
	var names []string
	for _, m := range ms {
		var parts []string
		for _, it := range m.items {
			if it.ev != "" {
				parts = append(parts, "E ("+it.ev+")")
			} else {
				parts = append(parts, "Star ["+strings.Join(it.body, "; ")+"]")
			}
		}
		fmt.Fprintf(&sb, "Definition skel_%s : list item := [%s].\n", m.name, strings.Join(parts, "; "))
		names = append(names, "skel_"+m.name)
	}
	fmt.Fprintf(&sb, "Definition all_skels : list (list item) := [%s].\n", strings.Join(names, "; "))
	return sb.String(), nil
}
