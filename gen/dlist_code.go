// Area DListCode (C13): the Go -> Gallina translation of listz/doubly_list.go by the pointer extension [ext13]
// (gen/trans_ext13.go): DNode AND DList live in one heap (a *DList is an id too; the sentinel `root DNode[T]` is stored
// inline, so &l.root is l's own id — exactly the layout of the hand model coq/Model/DList.v, where the sentinel of list L
// is the id L).  coq/Proofs/DListCode.v proves the generated functions equal to the model's (c13_dlist_code_is_model).
// Fails closed on anything outside the subset and on source of another shape (-> gen/defaults/DListCode.v, DESIGN §0.9).
package main

func init() { Register(Area{Name: "DListCode", Gen: genDListCode}) }

var dlistFuncs = []string{"DNode.Next", "DNode.Prev", "DList.Init", "DList.Len", "DList.Front", "DList.Back", "DList.lazyInit",
	"DList.insert", "DList.insertValue", "DList.remove", "DList.move", "DList.Remove", "DList.PushFront", "DList.PushBack",
	"DList.InsertBefore", "DList.InsertAfter", "DList.PushFrontNode", "DList.PushBackNode", "DList.InsertNodeBefore",
	"DList.InsertNodeAfter", "DList.MoveToFront", "DList.MoveToBack", "DList.MoveBefore", "DList.MoveAfter", "DList.PushBackDList", "DList.PushFrontDList"}

var dlistShape = map[string]Shape13{
	"DNode.Next": {}, "DNode.Prev": {}, "DList.Init": {}, "DList.Len": {}, "DList.Front": {}, "DList.Back": {},
	"DList.lazyInit": {Calls: []string{"DList.Init"}}, "DList.insert": {}, "DList.insertValue": {Calls: []string{"DList.insert"}},
	"DList.remove": {}, "DList.move": {}, "DList.Remove": {Calls: []string{"DList.remove"}},
	"DList.PushFront":        {Calls: []string{"DList.insertValue", "DList.lazyInit"}},
	"DList.PushBack":         {Calls: []string{"DList.insertValue", "DList.lazyInit"}},
	"DList.InsertBefore":     {Calls: []string{"DList.insertValue"}},
	"DList.InsertAfter":      {Calls: []string{"DList.insertValue"}},
	"DList.PushFrontNode":    {Calls: []string{"DList.insert", "DList.lazyInit"}},
	"DList.PushBackNode":     {Calls: []string{"DList.insert", "DList.lazyInit"}},
	"DList.InsertNodeBefore": {Calls: []string{"DList.insert"}},
	"DList.InsertNodeAfter":  {Calls: []string{"DList.insert"}},
	"DList.MoveToFront":      {Calls: []string{"DList.move"}},
	"DList.MoveToBack":       {Calls: []string{"DList.move"}},
	"DList.MoveBefore":       {Calls: []string{"DList.move"}},
	"DList.MoveAfter":        {Calls: []string{"DList.move"}},
	"DList.PushBackDList": {Loops: 1, Calls: []string{"DList.Front", "DList.Len", "DList.insertValue", "DList.lazyInit", "DNode.Next"},
		Headers: []string{"i, e := other.Len(), other.Front(); i ? #; i, e = i-1, e.Next()"}},
	"DList.PushFrontDList": {Loops: 1, Calls: []string{"DList.Back", "DList.Len", "DList.insertValue", "DList.lazyInit", "DNode.Prev"},
		Headers: []string{"i, e := other.Len(), other.Back(); i ? #; i, e = i-1, e.Prev()"}},
}

func genDListCode(repo string) (string, error) {
	body, err := TranslateHeap(repo, HeapSpec{Dir: "listz", HeapStructs: []string{"DNode", "DList"},
		Funcs: dlistFuncs, Shape: dlistShape,
		Fields: map[string][]string{"DNode": {"next *DNode[T]", "prev *DNode[T]", "list *DList[T]", "Value T"}, "DList": {"root DNode[T]", "len int"}}})
	if err != nil {
		return "", err
	}
	return "From Coq Require Import Bool.\nFrom V Require Import Lib.GoSem Lib.GoSemHeap.\nImport GoNotations.\nLocal Open Scope Z_scope.\n" + body, nil
}
