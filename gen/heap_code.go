// Area HeapCode (C04): the Go -> Gallina translation (gen/trans*.go) of the sift loops of heapz/adjustment.go (swap, up,
// down, fix, build) and of the slice-backed heap of heapz/slice.go (type Slice: Push, Pop, Peek, Len, Remove, Fix).
// The element type is Z; the comparison is a function parameter / Record field `cmp : Z -> Z -> bool` (a total pure
// function), the swap hook a state transformer `list Z -> Z -> Z -> M (list Z)` instantiated with the generated g_swap.
// coq/Proofs/HeapCode.v proves each generated function equal to the hand-written model of Model/Heap.v on every run,
// for every comparison function.  Fails closed on anything outside the subset (-> gen/defaults/HeapCode.v, tie degraded).
package main

func init() { Register(Area{Name: "HeapCode", Gen: genHeapCode}) }

func genHeapCode(repo string) (string, error) {
	body, err := Translate(repo, TransSpec{
		Dir:     "heapz",
		Structs: []string{"Slice"},
		Funcs: []string{"swap", "up", "down", "fix", "build",
			"Slice.Push", "Slice.Pop", "Slice.Peek", "Slice.Len", "Slice.Remove", "Slice.Fix"},
		InOut: true,
		// [stable] renaming the unexported field cmp does not rename Slice_cmp / set_Slice_cmp in the theorem statements
		Expect: map[string][]ExpectField{"Slice": {{"Values", "[]T"}, {"cmp", "func(T, T) bool"}}},
	})
	if err != nil {
		return "", err
	}
	return "From Coq Require Import Bool.\nFrom V Require Import Lib.GoSem.\nImport GoNotations.\nLocal Open Scope Z_scope.\n" + body, nil
}
