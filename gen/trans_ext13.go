// [ext13] (first user: area SListCode, C13) — pointer-structured code: pointers to structs as node ids in a heap.
//
// The core translator (trans.go ...) has no pointers.  This file is a separate, small front end for the statement forms
// listz/singly_list.go needs; it shares the package loader, the stub importer and the target monad / loop combinator of
// coq/Lib/GoSem.v with the core and adds coq/Lib/GoSemHeap.v (ptr, hupd, ptr_eqb, h_get, h_set).  See the section
// "Extension [ext13]" of gen/TRANSLATOR.md for the translation rules.  Everything else is refused ("unsupported: ...").
package main

import (
	"fmt"
	"go/ast"
	"go/constant"
	"go/printer"
	"go/token"
	"go/types"
	"regexp"
	"sort"
	"strings"
)

// HeapSpec says what TranslateHeap translates.
type HeapSpec struct {
	Dir         string
	HeapStructs []string // struct types that live in the heap: *S is a node id (ptr); one store per field in Record Heap
	Structs     []string // struct types that are only ever reached through a method receiver: a Record value, rebound after writes
	Funcs       []string // "Recv.Name" or "Name"; callees inside the package are pulled in automatically (callees first)
	// Shape, when non-nil: per listed function the shape the area's PROOF SCRIPTS cover — number of for statements, number
	// of switch statements, the functions called (sorted, distinct).  Source that translates but has another shape is
	// refused so that the area degrades to its default (DESIGN §0.9) instead of failing a proof never written for it.
	Shape map[string]Shape13
	// Fields, when non-nil: struct -> its fields ("name type", in order) as the theorem statements (to_model) know them
	Fields map[string][]string
}

type Shape13 struct {
	Loops, Switches int
	Calls           []string
	Headers         []string // per for statement, in source order: "init; cond; post" as printed by go/printer, the comparison / logical operators of cond replaced by "?", its integer literals by "#"
}

type hstruct13 struct {
	name   string
	obj    *types.TypeName
	fields []string
	ftypes []types.Type
}

// inline: a field of a heap struct whose type is a heap struct BY VALUE (DList.root DNode[T]): the inner object has the
// id of the outer one (x.root.f is field f of id x, &x.root is x); no store is emitted for it.  At most one per struct.
func (t *trans13) inline(ty types.Type) *hstruct13 {
	if n := t.namedOf(ty); n != nil {
		return t.heap[n]
	}
	return nil
}

type hfunc13 struct {
	key     string
	fd      *ast.FuncDecl
	obj     *types.Func
	callees []*hfunc13
	loops   bool // itself or transitively
	state   int  // 0 unvisited, 1 in progress, 2 done
	text    string
}

type trans13 struct {
	fset   *token.FileSet
	repo   string
	info   *types.Info
	heap   map[*types.TypeName]*hstruct13
	recs   map[*types.TypeName]*hstruct13
	horder []*hstruct13
	rorder []*hstruct13
	byKey  map[string]*hfunc13
	byObj  map[*types.Func]*hfunc13
	order  []*hfunc13
}

func (t *trans13) fail(n ast.Node, format string, args ...interface{}) {
	pos := "?"
	if n != nil {
		p := t.fset.Position(n.Pos())
		pos = fmt.Sprintf("%s:%d", strings.TrimPrefix(strings.TrimPrefix(p.Filename, t.repo), "/"), p.Line)
	}
	panic(unsupported{fmt.Sprintf("unsupported: [ext13] %s at %s", fmt.Sprintf(format, args...), pos)})
}

// TranslateHeap translates the listed functions of repo/spec.Dir (see the header).
func TranslateHeap(repo string, spec HeapSpec) (out string, err error) {
	p, e := Load(repo, spec.Dir)
	if e != nil {
		return "", e
	}
	t := &trans13{fset: p.Fset, repo: repo, heap: map[*types.TypeName]*hstruct13{}, recs: map[*types.TypeName]*hstruct13{},
		byKey: map[string]*hfunc13{}, byObj: map[*types.Func]*hfunc13{}}
	defer func() {
		if r := recover(); r != nil {
			if u, ok := r.(unsupported); ok {
				out, err = "", fmt.Errorf("%s", u.msg)
				return
			}
			panic(r)
		}
	}()
	t.info = &types.Info{Types: map[ast.Expr]types.TypeAndValue{}, Defs: map[*ast.Ident]types.Object{},
		Uses: map[*ast.Ident]types.Object{}, Selections: map[*ast.SelectorExpr]*types.Selection{}}
	conf := types.Config{Importer: stubImporter{}, Error: func(error) {}}
	tpkg, _ := conf.Check(spec.Dir, p.Fset, p.Files, t.info)
	if tpkg == nil {
		return "", fmt.Errorf("type checking %s failed", spec.Dir)
	}
	load := func(names []string, into map[*types.TypeName]*hstruct13, order *[]*hstruct13) error {
		for _, sn := range names {
			obj, _ := tpkg.Scope().Lookup(sn).(*types.TypeName)
			if obj == nil {
				return fmt.Errorf("struct type %s not found in %s", sn, spec.Dir)
			}
			st, ok := obj.Type().Underlying().(*types.Struct)
			if !ok {
				return fmt.Errorf("%s is not a struct type", sn)
			}
			hs := &hstruct13{name: sn, obj: obj}
			for i := 0; i < st.NumFields(); i++ {
				f := st.Field(i)
				if f.Embedded() {
					return fmt.Errorf("unsupported: [ext13] embedded field %s of %s", f.Name(), sn)
				}
				hs.fields = append(hs.fields, f.Name())
				hs.ftypes = append(hs.ftypes, f.Type())
			}
			into[obj] = hs
			*order = append(*order, hs)
		}
		return nil
	}
	if e := load(spec.HeapStructs, t.heap, &t.horder); e != nil {
		return "", e
	}
	if e := load(spec.Structs, t.recs, &t.rorder); e != nil {
		return "", e
	}
	for _, f := range p.Files {
		for _, d := range f.Decls {
			if fd, ok := d.(*ast.FuncDecl); ok && fd.Body != nil && !(fd.Recv == nil && fd.Name.Name == "init") {
				hf := &hfunc13{key: funcKey(fd), fd: fd}
				hf.obj, _ = t.info.Defs[fd.Name].(*types.Func)
				t.byKey[hf.key] = hf
				if hf.obj != nil {
					t.byObj[hf.obj] = hf
				}
			}
		}
	}
	for _, hs := range append(append([]*hstruct13{}, t.horder...), t.rorder...) {
		if want, ok := spec.Fields[hs.name]; ok {
			var got []string
			for i, f := range hs.fields {
				got = append(got, f+" "+types.TypeString(hs.ftypes[i], func(*types.Package) string { return "" }))
			}
			if strings.Join(got, "; ") != strings.Join(want, "; ") {
				return "", fmt.Errorf("unsupported: [ext13] shape: struct %s has the fields {%s}; the theorem statements know {%s}", hs.name, strings.Join(got, "; "), strings.Join(want, "; "))
			}
		}
	}
	var sb strings.Builder
	sb.WriteString(t.emitTypes())
	for _, k := range spec.Funcs {
		hf := t.byKey[k]
		if hf == nil {
			return "", fmt.Errorf("function %s not found in %s", k, spec.Dir)
		}
		t.visit(hf)
	}
	if spec.Shape != nil {
		for _, hf := range t.order {
			want, ok := spec.Shape[hf.key]
			if !ok {
				return "", fmt.Errorf("unsupported: [ext13] shape: function %s is not one the proofs cover (a new helper?)", hf.key)
			}
			got := t.shapeOf(hf)
			if strings.Join(got.Headers, " | ") != strings.Join(want.Headers, " | ") {
				return "", fmt.Errorf("unsupported: [ext13] shape: the loops of %s are [%s]; the proofs cover [%s]", hf.key, strings.Join(got.Headers, " | "), strings.Join(want.Headers, " | "))
			}
			if got.Loops != want.Loops || got.Switches != want.Switches || strings.Join(got.Calls, ",") != strings.Join(want.Calls, ",") {
				return "", fmt.Errorf("unsupported: [ext13] shape: %s has %d loops, %d switches, calls [%s]; the proofs cover %d, %d, [%s]",
					hf.key, got.Loops, got.Switches, strings.Join(got.Calls, ","), want.Loops, want.Switches, strings.Join(want.Calls, ","))
			}
		}
	}
	for _, hf := range t.order {
		sb.WriteString(hf.text)
	}
	return sb.String(), nil
}

// the operators of a loop condition are NOT part of the fingerprint: `<` -> `<=` is a semantic change the proof must see
var opBlind13 = regexp.MustCompile(` *(<=|>=|==|!=|<|>|&&|\|\|) *`)

// ... and neither are its integer literals (`i > 0` -> `i > 1`)
var litBlind13 = regexp.MustCompile(`\b[0-9]+\b`)

func (t *trans13) src(n ast.Node) string {
	if n == nil || isNilNode(n) {
		return ""
	}
	var sb strings.Builder
	printer.Fprint(&sb, t.fset, n)
	return sb.String()
}

func (t *trans13) shapeOf(hf *hfunc13) Shape13 {
	var s Shape13
	seen := map[string]bool{}
	ast.Inspect(hf.fd.Body, func(n ast.Node) bool {
		switch x := n.(type) {
		case *ast.ForStmt:
			s.Loops++
			s.Headers = append(s.Headers, t.src(x.Init)+"; "+litBlind13.ReplaceAllString(opBlind13.ReplaceAllString(t.src(x.Cond), " ? "), "#")+"; "+t.src(x.Post))
		case *ast.RangeStmt:
			s.Loops++
		case *ast.SwitchStmt:
			s.Switches++
		case *ast.CallExpr:
			if cf := t.calleeOf(x); cf != nil && !seen[cf.key] {
				seen[cf.key] = true
				s.Calls = append(s.Calls, cf.key)
			}
		}
		return true
	})
	sort.Strings(s.Calls)
	return s
}

// ---- types ---------------------------------------------------------------------------------------------------------

func (t *trans13) namedOf(ty types.Type) *types.TypeName {
	if n, ok := ty.(*types.Named); ok {
		return n.Origin().Obj()
	}
	return nil
}

// ty maps a Go type to (Coq type, zero value); kind "ptr" for a pointer to a heap struct
func (t *trans13) ty(ty types.Type, at ast.Node) (coq, zero string) {
	switch x := ty.(type) {
	case *types.Basic:
		switch x.Kind() {
		case types.Int, types.Int64, types.UntypedInt:
			return "Z", "0"
		case types.Bool, types.UntypedBool:
			return "bool", "false"
		case types.UntypedNil:
			return "ptr", "None"
		}
	case *types.TypeParam:
		return "Z", "0"
	case *types.Pointer:
		if n := t.namedOf(x.Elem()); n != nil && t.heap[n] != nil {
			return "ptr", "None"
		}
	}
	t.fail(at, "type %s", ty)
	return
}

func (t *trans13) isPtr(ty types.Type) *hstruct13 {
	if p, ok := ty.(*types.Pointer); ok {
		if n := t.namedOf(p.Elem()); n != nil {
			return t.heap[n]
		}
	}
	return nil
}
func (t *trans13) isRecPtr(ty types.Type) *hstruct13 {
	if p, ok := ty.(*types.Pointer); ok {
		if n := t.namedOf(p.Elem()); n != nil {
			return t.recs[n]
		}
	}
	return nil
}

func (t *trans13) emitTypes() string {
	var sb strings.Builder
	// the heap: one store per field of every heap type
	var projs, tys []string
	for _, hs := range t.horder {
		nin := 0
		for i, f := range hs.fields {
			if t.inline(hs.ftypes[i]) != nil {
				if nin++; nin > 1 {
					t.fail(nil, "two inline struct fields in %s", hs.name)
				}
				continue
			}
			c, _ := t.ty(hs.ftypes[i], nil)
			projs = append(projs, hs.name+"_"+f)
			tys = append(tys, "nat -> "+c)
		}
	}
	projs = append(projs, "h_fresh")
	tys = append(tys, "nat")
	sb.WriteString("\n(* the heap: one store per field of the heap types (")
	for i, hs := range t.horder {
		if i > 0 {
			sb.WriteString(", ")
		}
		sb.WriteString(hs.name)
	}
	sb.WriteString("), ids allocated in order *)\n")
	sb.WriteString(recordText("Heap", projs, tys))
	unf := []string{}
	for i := range projs {
		unf = append(unf, "set_"+projs[i], projs[i])
	}
	n := 0
	for _, hs := range t.horder {
		var ps, args []string
		nf := 0
		for i, f := range hs.fields {
			if t.inline(hs.ftypes[i]) != nil {
				continue
			}
			c, _ := t.ty(hs.ftypes[i], nil)
			ps = append(ps, fmt.Sprintf("(%s : %s)", f+"'", c))
			args = append(args, fmt.Sprintf("(hupd (%s s) (h_fresh s) %s)", projs[n+nf], f+"'"))
			nf++
		}
		var keep []string
		for j, pr := range projs[:len(projs)-1] {
			if j >= n && j < n+nf {
				keep = append(keep, args[j-n])
			} else {
				keep = append(keep, "("+pr+" s)")
			}
		}
		fmt.Fprintf(&sb, "(* &%s{...}: a fresh id, every field initialised *)\nDefinition new_%s (s : Heap) %s : Heap * ptr :=\n  (mkHeap %s (S (h_fresh s)), Some (h_fresh s)).\n",
			hs.name, hs.name, strings.Join(ps, " "), strings.Join(keep, " "))
		unf = append(unf, "new_"+hs.name)
		n += nf
	}
	fmt.Fprintf(&sb, "#[export] Hint Unfold %s : go2v.\n", strings.Join(unf, " "))
	for _, rs := range t.rorder {
		var ps, tys, zs []string
		for i, f := range rs.fields {
			c, z := t.ty(rs.ftypes[i], nil)
			ps = append(ps, rs.name+"_"+f)
			tys = append(tys, c)
			zs = append(zs, z)
		}
		fmt.Fprintf(&sb, "\n(* type %s struct: only reached through method receivers, a value that is rebound after every write *)\n", rs.name)
		sb.WriteString(recordText(rs.name, ps, tys))
		fmt.Fprintf(&sb, "Definition zero_%s : %s := mk%s %s.\n", rs.name, rs.name, rs.name, strings.Join(zs, " "))
		unf := []string{"zero_" + rs.name}
		for _, p := range ps {
			unf = append(unf, "set_"+p, p)
		}
		fmt.Fprintf(&sb, "#[export] Hint Unfold %s : go2v.\n", strings.Join(unf, " "))
	}
	return sb.String()
}

func recordText(name string, projs, tys []string) string {
	var sb strings.Builder
	var fs []string
	for i := range projs {
		fs = append(fs, projs[i]+" : "+tys[i])
	}
	fmt.Fprintf(&sb, "Record %s : Type := mk%s { %s }.\n", name, name, strings.Join(fs, "; "))
	for i := range projs {
		var args []string
		for j := range projs {
			if i == j {
				args = append(args, "x")
			} else {
				args = append(args, "("+projs[j]+" s)")
			}
		}
		fmt.Fprintf(&sb, "Definition set_%s (s : %s) (x : %s) : %s := mk%s %s.\n", projs[i], name, tys[i], name, name, strings.Join(args, " "))
	}
	return sb.String()
}

// ---- call graph ----------------------------------------------------------------------------------------------------

func (t *trans13) calleeOf(call *ast.CallExpr) *hfunc13 {
	fun := call.Fun
	if ix, ok := fun.(*ast.IndexExpr); ok { // f[T](...)
		fun = ix.X
	}
	var id *ast.Ident
	switch f := fun.(type) {
	case *ast.Ident:
		id = f
	case *ast.SelectorExpr:
		id = f.Sel
	default:
		return nil
	}
	fn, _ := t.info.Uses[id].(*types.Func)
	if fn == nil {
		return nil
	}
	return t.byObj[fn.Origin()]
}

func (t *trans13) visit(hf *hfunc13) {
	if hf.state == 2 {
		return
	}
	if hf.state == 1 {
		t.fail(hf.fd, "recursion through %s", hf.key)
	}
	hf.state = 1
	ast.Inspect(hf.fd.Body, func(n ast.Node) bool {
		switch x := n.(type) {
		case *ast.ForStmt:
			hf.loops = true
		case *ast.CallExpr:
			if cf := t.calleeOf(x); cf != nil {
				t.visit(cf)
				hf.callees = append(hf.callees, cf)
				if cf.loops {
					hf.loops = true
				}
			}
		}
		return true
	})
	hf.text = t.function(hf)
	hf.state = 2
	t.order = append(t.order, hf)
}

// ---- one function --------------------------------------------------------------------------------------------------

type fc13 struct {
	t       *trans13
	hf      *hfunc13
	recv    types.Object // the receiver variable (nil: none)
	rec     *hstruct13   // receiver is a pointer to this Record struct (else nil)
	names   map[types.Object]string
	used    map[string]bool
	tmp     int
	results []string // Coq types of the results
	inLoop  bool
}

func (c *fc13) fresh(p string) string { c.tmp++; return fmt.Sprintf("%s'%d", p, c.tmp) }

func (c *fc13) name(o types.Object) string {
	if n, ok := c.names[o]; ok {
		return n
	}
	base := o.Name()
	n := base
	for i := 1; c.used[n]; i++ {
		n = fmt.Sprintf("%s_%d", base, i)
	}
	c.used[n] = true
	c.names[o] = n
	return n
}

// st: the threaded state as a tuple body: "h', l" or "h'"
func (c *fc13) st() string {
	if c.rec != nil {
		return "h', " + c.name(c.recv)
	}
	return "h'"
}

// retOf: Ret (h', (l, r)) / Ret (h', r)
func (c *fc13) retOf(r string) string {
	if c.rec != nil {
		return fmt.Sprintf("Ret (h', (%s, %s))", c.name(c.recv), r)
	}
	return fmt.Sprintf("Ret (h', %s)", r)
}

func (t *trans13) retType(hf *hfunc13, c *fc13) string {
	r := "unit"
	if len(c.results) == 1 {
		r = c.results[0]
	} else if len(c.results) > 1 {
		r = "(" + strings.Join(c.results, " * ") + ")"
	}
	if c.rec != nil {
		return fmt.Sprintf("M (Heap * (%s * %s))", c.rec.name, r)
	}
	return fmt.Sprintf("M (Heap * %s)", r)
}

func coqFuncName13(key string) string { return "g_" + strings.ReplaceAll(key, ".", "_") }

func (t *trans13) function(hf *hfunc13) string {
	fd := hf.fd
	c := &fc13{t: t, hf: hf, names: map[types.Object]string{}, used: map[string]bool{}}
	for _, w := range coqReserved {
		c.used[w] = true
	}
	for _, w := range strings.Fields("ptr hupd ptr_eqb h_get h_set h_addr Heap mkHeap h_fresh") {
		c.used[w] = true
	}
	var params []string
	if hf.loops {
		params = append(params, "(fuel : nat)")
	}
	params = append(params, "(h' : Heap)")
	if fd.Recv != nil && len(fd.Recv.List) == 1 {
		f := fd.Recv.List[0]
		if len(f.Names) != 1 || f.Names[0].Name == "_" {
			t.fail(fd, "unnamed receiver of %s", hf.key)
		}
		c.recv = t.info.Defs[f.Names[0]]
		rt := c.recv.Type()
		if rs := t.isRecPtr(rt); rs != nil {
			c.rec = rs
			params = append(params, fmt.Sprintf("(%s : %s)", c.name(c.recv), rs.name))
		} else if t.isPtr(rt) != nil {
			params = append(params, fmt.Sprintf("(%s : ptr)", c.name(c.recv)))
			c.recv = nil // an ordinary pointer parameter
		} else {
			t.fail(fd, "receiver type %s", rt)
		}
	}
	for _, f := range fd.Type.Params.List {
		for _, n := range f.Names {
			o := t.info.Defs[n]
			ct, _ := t.ty(o.Type(), f)
			params = append(params, fmt.Sprintf("(%s : %s)", c.name(o), ct))
		}
		if len(f.Names) == 0 {
			t.fail(f, "unnamed parameter")
		}
	}
	if fd.Type.Results != nil {
		for _, f := range fd.Type.Results.List {
			if len(f.Names) != 0 {
				t.fail(f, "named results")
			}
			ct, _ := t.ty(t.info.Types[f.Type].Type, f)
			c.results = append(c.results, ct)
		}
	}
	body := c.seq(fd.Body.List, func() string {
		if len(c.results) != 0 {
			t.fail(fd, "control reaches the end of %s", hf.key)
		}
		return c.retOf("tt")
	})
	p := t.fset.Position(fd.Pos())
	name := coqFuncName13(hf.key)
	return fmt.Sprintf("\n(* func %s   (%s:%d) *)\nDefinition %s %s : %s :=\n%s.\n#[export] Hint Unfold %s : go2v.\n",
		hf.key, strings.TrimPrefix(strings.TrimPrefix(p.Filename, t.repo), "/"), p.Line, name, strings.Join(params, " "), t.retType(hf, c), ind13(body), name)
}

func ind13(s string) string {
	lines := strings.Split(strings.TrimRight(s, "\n"), "\n")
	for i, l := range lines {
		lines[i] = "  " + l
	}
	return strings.Join(lines, "\n")
}

// ---- effects / assigned variables ---------------------------------------------------------------------------------

// changes: does evaluating n change the heap or the receiver Record (a call, an allocation, a field write)?
func (c *fc13) effects(nodes ...ast.Node) (heap, rec bool) {
	for _, n := range nodes {
		if n == nil || isNilNode(n) {
			continue
		}
		ast.Inspect(n, func(x ast.Node) bool {
			switch y := x.(type) {
			case *ast.CallExpr:
				heap, rec = true, true
			case *ast.CompositeLit:
				heap = true
			case *ast.AssignStmt:
				for _, l := range y.Lhs {
					c.lhsEffect(l, &heap, &rec)
				}
			case *ast.IncDecStmt:
				c.lhsEffect(y.X, &heap, &rec)
			}
			return true
		})
	}
	return heap, rec && c.rec != nil
}

func isNilNode(n ast.Node) bool {
	switch x := n.(type) {
	case *ast.BlockStmt:
		return x == nil
	case ast.Expr:
		return x == nil
	case ast.Stmt:
		return x == nil
	}
	return false
}

func (c *fc13) lhsEffect(l ast.Expr, heap, rec *bool) {
	if s, ok := l.(*ast.SelectorExpr); ok {
		if c.isRecv(s.X) {
			*rec = true
		} else {
			*heap = true
		}
	}
}

func (c *fc13) isRecv(e ast.Expr) bool {
	id, ok := e.(*ast.Ident)
	return ok && c.recv != nil && c.rec != nil && c.t.info.Uses[id] == c.recv
}

// assigned: the local variables assigned inside the nodes that are declared outside of them, in declaration order
func (c *fc13) assigned(nodes ...ast.Node) []types.Object {
	set := map[types.Object]bool{}
	inside := func(o types.Object) bool {
		for _, n := range nodes {
			if n != nil && !isNilNode(n) && o.Pos() >= n.Pos() && o.Pos() < n.End() {
				return true
			}
		}
		return false
	}
	add := func(e ast.Expr) {
		if id, ok := e.(*ast.Ident); ok && id.Name != "_" {
			o := c.t.info.Uses[id]
			if o == nil {
				o = c.t.info.Defs[id]
			}
			if v, ok := o.(*types.Var); ok && !inside(v) && o != c.recv {
				set[o] = true
			}
		}
	}
	for _, n := range nodes {
		if n == nil || isNilNode(n) {
			continue
		}
		ast.Inspect(n, func(x ast.Node) bool {
			switch y := x.(type) {
			case *ast.AssignStmt:
				for _, l := range y.Lhs {
					add(l)
				}
			case *ast.IncDecStmt:
				add(y.X)
			}
			return true
		})
	}
	var out []types.Object
	for o := range set {
		out = append(out, o)
	}
	sort.Slice(out, func(i, j int) bool { return out[i].Pos() < out[j].Pos() })
	return out
}

// changesState / readsState: the left-to-right discipline — an operand that is evaluated EARLIER must not read state that
// an operand evaluated LATER changes (pure terms are not bound to temporaries)
func changesState13(e ast.Expr) bool {
	r := false
	ast.Inspect(e, func(x ast.Node) bool {
		switch x.(type) {
		case *ast.CallExpr, *ast.CompositeLit:
			r = true
		}
		return true
	})
	return r
}

// readsState: does the TERM of e read the state at the place where the term is used?  Calls and heap reads are bound to
// temporaries where they are evaluated; only a field of the receiver Record stays a pure term ((SList_f l)).
func (c *fc13) readsState13(e ast.Expr) bool {
	r := false
	ast.Inspect(e, func(x ast.Node) bool {
		if s, ok := x.(*ast.SelectorExpr); ok && c.isRecv(s.X) {
			r = true
		}
		return true
	})
	return r
}
func hasSelector13(e ast.Expr) bool {
	r := false
	ast.Inspect(e, func(x ast.Node) bool {
		if _, ok := x.(*ast.SelectorExpr); ok {
			r = true
		}
		return true
	})
	return r
}

func (c *fc13) orderCheck(es []ast.Expr) {
	for j := range es {
		if changesState13(es[j]) {
			for i := 0; i < j; i++ {
				if c.readsState13(es[i]) {
					c.t.fail(es[j], "an operand that changes the state after an operand that reads it (evaluation order)")
				}
			}
		}
	}
}

// ---- expressions ---------------------------------------------------------------------------------------------------

// expr returns a pure term; whatever can panic or changes the state is appended to pre as `do`/`let` lines
func (c *fc13) expr(e ast.Expr, pre *[]string) string {
	t := c.t
	if tv, ok := t.info.Types[e]; ok && tv.Value != nil { // a constant
		switch tv.Value.Kind() {
		case constant.Int:
			s := tv.Value.ExactString()
			if strings.HasPrefix(s, "-") {
				return "(" + s + ")"
			}
			return s
		case constant.Bool:
			return tv.Value.String()
		}
		t.fail(e, "constant %s", tv.Value)
	}
	switch x := e.(type) {
	case *ast.ParenExpr:
		return c.expr(x.X, pre)
	case *ast.Ident:
		if x.Name == "nil" {
			if _, ok := t.info.Uses[x].(*types.Nil); ok {
				return "None"
			}
		}
		o := t.info.Uses[x]
		if v, ok := o.(*types.Var); ok && !v.IsField() && v.Parent() != v.Pkg().Scope() {
			if o == c.recv && c.rec != nil {
				t.fail(e, "the receiver used as a value")
			}
			c.ty(v.Type(), e)
			return c.name(o)
		}
		t.fail(e, "identifier %s", x.Name)
	case *ast.UnaryExpr:
		switch x.Op {
		case token.NOT:
			return "(negb " + c.expr(x.X, pre) + ")"
		case token.SUB:
			return "(- " + c.expr(x.X, pre) + ")"
		case token.AND:
			return c.alloc(x, pre)
		}
	case *ast.BinaryExpr:
		return c.binary(x, pre)
	case *ast.SelectorExpr:
		sel := t.info.Selections[x]
		if sel == nil || sel.Kind() != types.FieldVal || len(sel.Index()) != 1 {
			t.fail(e, "selector %s", x.Sel.Name)
		}
		c.ty(sel.Type(), e)
		if c.isRecv(x.X) {
			return fmt.Sprintf("(%s_%s %s)", c.rec.name, x.Sel.Name, c.name(c.recv))
		}
		p, hs := c.base(x.X, pre)
		v := c.fresh("v")
		*pre = append(*pre, fmt.Sprintf("do %s <- h_get (%s_%s h') %s;;", v, hs.name, x.Sel.Name, p))
		return v
	case *ast.CallExpr:
		return c.call(x, pre)
	}
	t.fail(e, "expression %s", nodeDesc(e))
	return ""
}

// base: for X in X.f — the pointer term of the object that holds f and its struct.  X is a pointer to a heap struct, or
// Y.g with g an inline field (then the object is Y's)
func (c *fc13) base(x ast.Expr, pre *[]string) (string, *hstruct13) {
	t := c.t
	if p, ok := x.(*ast.ParenExpr); ok {
		return c.base(p.X, pre)
	}
	xt := t.info.Types[x].Type
	if hs := t.isPtr(xt); hs != nil {
		return c.expr(x, pre), hs
	}
	if hs := t.inline(xt); hs != nil {
		if sx, ok := x.(*ast.SelectorExpr); ok {
			if sel := t.info.Selections[sx]; sel != nil && sel.Kind() == types.FieldVal && len(sel.Index()) == 1 {
				b, _ := c.base(sx.X, pre)
				return b, hs
			}
		}
	}
	t.fail(x, "field of a %s", xt)
	return "", nil
}

func (c *fc13) ty(ty types.Type, at ast.Node) string { s, _ := c.t.ty(ty, at); return s }

func (c *fc13) alloc(x *ast.UnaryExpr, pre *[]string) string {
	t := c.t
	if sx, ok := x.X.(*ast.SelectorExpr); ok && t.inline(t.info.Types[sx].Type) != nil { // &x.root: the id of x (nil check like Go)
		b, _ := c.base(sx, pre)
		v := c.fresh("v")
		*pre = append(*pre, fmt.Sprintf("do %s <- h_addr %s;;", v, b))
		return v
	}
	cl, ok := x.X.(*ast.CompositeLit)
	if !ok {
		t.fail(x, "address of %s", nodeDesc(x.X))
	}
	hs := t.isPtr(t.info.Types[x].Type)
	if hs == nil {
		t.fail(x, "allocation of a %s", t.info.Types[x].Type)
	}
	vals := make([]string, len(hs.fields))
	for i := range hs.fields {
		if t.inline(hs.ftypes[i]) != nil {
			t.fail(x, "allocation of a struct with an inline struct field")
		}
		_, vals[i] = t.ty(hs.ftypes[i], x)
	}
	var es []ast.Expr
	for _, el := range cl.Elts {
		kv, ok := el.(*ast.KeyValueExpr)
		if !ok {
			t.fail(el, "unkeyed composite literal")
		}
		es = append(es, kv.Value)
	}
	c.orderCheck(es)
	for _, el := range cl.Elts {
		kv := el.(*ast.KeyValueExpr)
		k := kv.Key.(*ast.Ident).Name
		found := false
		for i, f := range hs.fields {
			if f == k {
				vals[i] = c.expr(kv.Value, pre)
				found = true
			}
		}
		if !found {
			t.fail(kv, "field %s", k)
		}
	}
	p := c.fresh("p")
	*pre = append(*pre, fmt.Sprintf("let '(h', %s) := new_%s h' %s in", p, hs.name, strings.Join(vals, " ")))
	return p
}

func (c *fc13) binary(x *ast.BinaryExpr, pre *[]string) string {
	t := c.t
	lt := t.info.Types[x.X].Type
	if x.Op == token.LAND || x.Op == token.LOR {
		a := c.expr(x.X, pre)
		var bp []string
		b := c.expr(x.Y, &bp)
		if len(bp) == 0 {
			if x.Op == token.LAND {
				return fmt.Sprintf("(andb %s %s)", a, b)
			}
			return fmt.Sprintf("(orb %s %s)", a, b)
		}
		// short circuit: the right operand is evaluated (may panic, may change the state) only when needed
		v := c.fresh("v")
		inner := strings.Join(bp, "\n") + "\n" + fmt.Sprintf("Ret (%s, %s)", c.st(), b)
		if x.Op == token.LAND {
			*pre = append(*pre, fmt.Sprintf("do '(%s, %s) <- (if %s then (\n%s\n) else Ret (%s, false));;", c.st(), v, a, ind13(inner), c.st()))
		} else {
			*pre = append(*pre, fmt.Sprintf("do '(%s, %s) <- (if %s then Ret (%s, true) else (\n%s\n));;", c.st(), v, a, c.st(), ind13(inner)))
		}
		return v
	}
	c.orderCheck([]ast.Expr{x.X, x.Y})
	a := c.expr(x.X, pre)
	b := c.expr(x.Y, pre)
	isP := func(ty types.Type) bool {
		if bt, ok := ty.(*types.Basic); ok && bt.Kind() == types.UntypedNil {
			return true
		}
		return t.isPtr(ty) != nil
	}
	if isP(lt) || isP(t.info.Types[x.Y].Type) {
		switch x.Op {
		case token.EQL:
			return fmt.Sprintf("(ptr_eqb %s %s)", a, b)
		case token.NEQ:
			return fmt.Sprintf("(negb (ptr_eqb %s %s))", a, b)
		}
		t.fail(x, "operator %s on pointers", x.Op)
	}
	if ct := c.ty(lt, x); ct != "Z" {
		t.fail(x, "operator %s on %s", x.Op, lt)
	}
	switch x.Op {
	case token.ADD:
		return fmt.Sprintf("(%s + %s)", a, b)
	case token.SUB:
		return fmt.Sprintf("(%s - %s)", a, b)
	case token.MUL:
		return fmt.Sprintf("(%s * %s)", a, b)
	case token.EQL:
		return fmt.Sprintf("(%s =? %s)", a, b)
	case token.NEQ:
		return fmt.Sprintf("(negb (%s =? %s))", a, b)
	case token.LSS:
		return fmt.Sprintf("(%s <? %s)", a, b)
	case token.LEQ:
		return fmt.Sprintf("(%s <=? %s)", a, b)
	case token.GTR:
		return fmt.Sprintf("(%s <? %s)", b, a)
	case token.GEQ:
		return fmt.Sprintf("(%s <=? %s)", b, a)
	}
	t.fail(x, "operator %s", x.Op)
	return ""
}

func (c *fc13) call(x *ast.CallExpr, pre *[]string) string {
	t := c.t
	cf := t.calleeOf(x)
	if cf == nil {
		t.fail(x, "call of something that is not a function of the package")
	}
	fun := x.Fun
	if ix, ok := fun.(*ast.IndexExpr); ok {
		fun = ix.X
	}
	var args []string
	var es []ast.Expr
	recCall := false
	if s, ok := fun.(*ast.SelectorExpr); ok {
		if c.isRecv(s.X) {
			if t.isRecPtr(cf.obj.Type().(*types.Signature).Recv().Type()) != c.rec {
				t.fail(x, "method of another receiver type")
			}
			recCall = true
		} else if t.isPtr(t.info.Types[s.X].Type) != nil {
			es = append(es, s.X)
		} else {
			t.fail(x, "method call on a %s", t.info.Types[s.X].Type)
		}
	}
	es = append(es, x.Args...)
	c.orderCheck(es)
	for _, a := range es {
		args = append(args, c.expr(a, pre))
	}
	fuel := ""
	if cf.loops {
		fuel = " fuel"
	}
	v := c.fresh("v")
	if recCall {
		r := c.name(c.recv)
		*pre = append(*pre, strings.TrimSpace(fmt.Sprintf("do '(h', (%s, %s)) <- %s%s h' %s %s", r, v, coqFuncName13(cf.key), fuel, r, strings.Join(args, " ")))+";;")
	} else {
		*pre = append(*pre, strings.TrimSpace(fmt.Sprintf("do '(h', %s) <- %s%s h' %s", v, coqFuncName13(cf.key), fuel, strings.Join(args, " ")))+";;")
	}
	return v
}

// ---- statements ----------------------------------------------------------------------------------------------------

func terminates13(list []ast.Stmt) bool {
	if len(list) == 0 {
		return false
	}
	switch s := list[len(list)-1].(type) {
	case *ast.ReturnStmt:
		return true
	case *ast.BlockStmt:
		return terminates13(s.List)
	case *ast.IfStmt:
		if s.Else == nil {
			return false
		}
		var el []ast.Stmt
		switch e := s.Else.(type) {
		case *ast.BlockStmt:
			el = e.List
		default:
			el = []ast.Stmt{e}
		}
		return terminates13(s.Body.List) && terminates13(el)
	case *ast.SwitchStmt:
		hasDefault := false
		for _, cl := range s.Body.List {
			cc := cl.(*ast.CaseClause)
			if cc.List == nil {
				hasDefault = true
			}
			if !terminates13(cc.Body) {
				return false
			}
		}
		return hasDefault
	}
	return false
}

// seq translates list; tail() is what control does when it falls off the end of the list
func (c *fc13) seq(list []ast.Stmt, tail func() string) string {
	if len(list) == 0 {
		return tail()
	}
	s, rest := list[0], list[1:]
	t := c.t
	var pre []string
	out := func(body string) string {
		if len(pre) == 0 {
			return body
		}
		return strings.Join(pre, "\n") + "\n" + body
	}
	switch x := s.(type) {
	case *ast.EmptyStmt:
		return c.seq(rest, tail)
	case *ast.ReturnStmt:
		if c.inLoop {
			t.fail(s, "return inside a loop")
		}
		c.orderCheck(x.Results)
		var rs []string
		for _, r := range x.Results {
			rs = append(rs, c.expr(r, &pre))
		}
		r := "tt"
		if len(rs) == 1 {
			r = rs[0]
		} else if len(rs) > 1 {
			r = "(" + strings.Join(rs, ", ") + ")"
		}
		return out(c.retOf(r))
	case *ast.ExprStmt:
		call, ok := x.X.(*ast.CallExpr)
		if !ok {
			t.fail(s, "expression statement")
		}
		c.call(call, &pre)
		return out(c.seq(rest, tail))
	case *ast.DeclStmt:
		gd, ok := x.Decl.(*ast.GenDecl)
		if !ok || gd.Tok != token.VAR {
			t.fail(s, "declaration")
		}
		for _, sp := range gd.Specs {
			vs := sp.(*ast.ValueSpec)
			if len(vs.Values) != 0 && len(vs.Values) != len(vs.Names) {
				t.fail(s, "var with a multi-valued initialiser")
			}
			c.orderCheck(vs.Values)
			var vals []string
			for i, n := range vs.Names {
				o := t.info.Defs[n]
				_, z := t.ty(o.Type(), vs)
				if len(vs.Values) != 0 {
					z = c.expr(vs.Values[i], &pre)
				}
				vals = append(vals, z)
			}
			for i, n := range vs.Names {
				if n.Name != "_" {
					pre = append(pre, fmt.Sprintf("let %s := %s in", c.name(t.info.Defs[n]), vals[i]))
				}
			}
		}
		return out(c.seq(rest, tail))
	case *ast.AssignStmt:
		c.assign(x, &pre)
		return out(c.seq(rest, tail))
	case *ast.IncDecStmt:
		one := "1"
		op := "+"
		if x.Tok == token.DEC {
			op = "-"
		}
		cur := c.expr(x.X, &pre)
		c.store(x.X, fmt.Sprintf("(%s %s %s)", cur, op, one), &pre)
		return out(c.seq(rest, tail))
	case *ast.IfStmt:
		if x.Init != nil {
			as, ok := x.Init.(*ast.AssignStmt)
			if !ok {
				t.fail(s, "if with an init statement that is not an assignment")
			}
			c.assign(as, &pre) // names are unique per object, so the narrower scope needs no block
		}
		cond := c.expr(x.Cond, &pre)
		var el []ast.Stmt
		switch e := x.Else.(type) {
		case *ast.BlockStmt:
			el = e.List
		case nil:
		default:
			el = []ast.Stmt{e}
		}
		return out(c.branch(cond, x.Body.List, el, []ast.Node{x.Body, x.Else}, rest, tail))
	case *ast.SwitchStmt:
		if x.Init != nil || x.Tag == nil {
			t.fail(s, "switch without a tag / with an init statement")
		}
		if c.readsState13(x.Tag) || changesState13(x.Tag) || hasSelector13(x.Tag) {
			t.fail(s, "switch tag that reads the state")
		}
		if c.ty(t.info.Types[x.Tag].Type, x.Tag) != "Z" {
			t.fail(s, "switch on a %s", t.info.Types[x.Tag].Type)
		}
		var cases []*ast.CaseClause
		var def *ast.CaseClause
		for _, cl := range x.Body.List {
			cc := cl.(*ast.CaseClause)
			for _, b := range cc.Body {
				if br, ok := b.(*ast.BranchStmt); ok {
					t.fail(br, "%s inside a switch", br.Tok)
				}
			}
			if cc.List == nil {
				def = cc
			} else {
				cases = append(cases, cc)
			}
		}
		if len(cases) == 0 {
			if def == nil {
				return c.seq(rest, tail)
			}
			return c.seq(append(append([]ast.Stmt{}, def.Body...), rest...), tail)
		}
		tag := c.expr(x.Tag, &pre)
		var cs []string
		for _, e := range cases[0].List {
			if c.readsState13(e) || changesState13(e) || hasSelector13(e) {
				t.fail(e, "case expression that reads the state")
			}
			cs = append(cs, fmt.Sprintf("(%s =? %s)", tag, c.expr(e, &pre)))
		}
		cond := cs[0]
		for _, o := range cs[1:] {
			cond = fmt.Sprintf("(orb %s %s)", cond, o)
		}
		var remaining []ast.Stmt
		for _, cc := range cases[1:] {
			remaining = append(remaining, cc)
		}
		if def != nil {
			remaining = append(remaining, def)
		}
		var el []ast.Stmt
		if len(remaining) > 0 {
			el = []ast.Stmt{&ast.SwitchStmt{Switch: x.Switch, Tag: x.Tag, Body: &ast.BlockStmt{Lbrace: x.Body.Lbrace, List: remaining, Rbrace: x.Body.Rbrace}}}
		}
		return out(c.branch(cond, cases[0].Body, el, []ast.Node{x.Body}, rest, tail))
	case *ast.ForStmt:
		return c.loop(x, rest, tail)
	}
	t.fail(s, "statement %s", nodeDesc(s))
	return ""
}

func (c *fc13) noTail() string {
	c.t.fail(c.hf.fd, "control falls out of a block that should end in return")
	return ""
}

// branch: if cond { th } else { el }; rest
func (c *fc13) branch(cond string, th, el []ast.Stmt, scope []ast.Node, rest []ast.Stmt, tail func() string) string {
	tt, et := terminates13(th), terminates13(el)
	ite := func(a, b string) string {
		return fmt.Sprintf("if %s then (\n%s\n) else (\n%s\n)", cond, ind13(a), ind13(b))
	}
	switch {
	case tt && et:
		return ite(c.seq(th, c.noTail), c.seq(el, c.noTail))
	case tt:
		return ite(c.seq(th, c.noTail), c.seq(append(append([]ast.Stmt{}, el...), rest...), tail))
	case et:
		return ite(c.seq(append(append([]ast.Stmt{}, th...), rest...), tail), c.seq(el, c.noTail))
	case len(rest) == 0:
		return ite(c.seq(th, tail), c.seq(el, tail))
	}
	// both branches fall through and code follows: a join point over what the branches assign
	heap, rec := c.effects(scope...)
	vars := c.assigned(scope...)
	var ps, as []string
	if heap {
		ps = append(ps, "(h' : Heap)")
		as = append(as, "h'")
	}
	if rec {
		ps = append(ps, fmt.Sprintf("(%s : %s)", c.name(c.recv), c.rec.name))
		as = append(as, c.name(c.recv))
	}
	for _, o := range vars {
		ps = append(ps, fmt.Sprintf("(%s : %s)", c.name(o), c.ty(o.Type(), nil)))
		as = append(as, c.name(o))
	}
	k := c.fresh("k")
	if len(ps) == 0 {
		ps = append(ps, "(_ : unit)")
		as = append(as, "tt")
	}
	body := c.seq(rest, tail)
	callK := func() string { return k + " " + strings.Join(as, " ") }
	return fmt.Sprintf("let %s := fun %s => (\n%s\n) in\n%s", k, strings.Join(ps, " "), ind13(body), ite(c.seq(th, callK), c.seq(el, callK)))
}

// store: lhs = val
func (c *fc13) store(lhs ast.Expr, val string, pre *[]string) {
	t := c.t
	switch l := lhs.(type) {
	case *ast.Ident:
		if l.Name == "_" {
			return
		}
		o := t.info.Defs[l]
		if o == nil {
			o = t.info.Uses[l]
		}
		if v, ok := o.(*types.Var); !ok || v.IsField() || o == c.recv || v.Parent() == v.Pkg().Scope() {
			t.fail(lhs, "assignment to %s", l.Name)
		}
		c.ty(o.Type(), lhs)
		*pre = append(*pre, fmt.Sprintf("let %s := %s in", c.name(o), val))
		return
	case *ast.SelectorExpr:
		sel := t.info.Selections[l]
		if sel == nil || sel.Kind() != types.FieldVal || len(sel.Index()) != 1 {
			t.fail(lhs, "assignment to selector %s", l.Sel.Name)
		}
		if c.isRecv(l.X) {
			r := c.name(c.recv)
			*pre = append(*pre, fmt.Sprintf("let %s := set_%s_%s %s %s in", r, c.rec.name, l.Sel.Name, r, val))
			return
		}
		if changesState13(l.X) {
			t.fail(lhs, "a left-hand side operand that changes the state")
		}
		p, hs := c.base(l.X, pre)
		s := c.fresh("s")
		*pre = append(*pre, fmt.Sprintf("do %s <- h_set (%s_%s h') %s %s;;", s, hs.name, l.Sel.Name, p, val))
		*pre = append(*pre, fmt.Sprintf("let h' := set_%s_%s h' %s in", hs.name, l.Sel.Name, s))
		return
	}
	t.fail(lhs, "assignment to %s", nodeDesc(lhs))
}

func (c *fc13) assign(x *ast.AssignStmt, pre *[]string) {
	t := c.t
	switch x.Tok {
	case token.ADD_ASSIGN, token.SUB_ASSIGN:
		if len(x.Lhs) != 1 {
			t.fail(x, "assignment")
		}
		c.orderCheck([]ast.Expr{x.Lhs[0], x.Rhs[0]})
		cur := c.expr(x.Lhs[0], pre)
		r := c.expr(x.Rhs[0], pre)
		op := "+"
		if x.Tok == token.SUB_ASSIGN {
			op = "-"
		}
		c.store(x.Lhs[0], fmt.Sprintf("(%s %s %s)", cur, op, r), pre)
		return
	case token.ASSIGN, token.DEFINE:
	default:
		t.fail(x, "assignment operator %s", x.Tok)
	}
	if len(x.Lhs) != len(x.Rhs) {
		t.fail(x, "multi-valued assignment")
	}
	c.orderCheck(x.Rhs)
	var vals []string
	for _, r := range x.Rhs {
		v := c.expr(r, pre)
		if len(x.Rhs) > 1 { // parallel assignment: every right-hand side is evaluated before the first write
			tmp := c.fresh("t")
			*pre = append(*pre, fmt.Sprintf("let %s := %s in", tmp, v))
			v = tmp
		}
		vals = append(vals, v)
	}
	for i, l := range x.Lhs {
		if len(x.Lhs) > 1 {
			if s, ok := l.(*ast.SelectorExpr); ok && !c.isRecv(s.X) {
				if _, ok := s.X.(*ast.Ident); !ok {
					t.fail(l, "parallel assignment through a pointer expression")
				}
			}
		}
		c.store(l, vals[i], pre)
	}
}

// loop: for init; cond; post { body }; rest
func (c *fc13) loop(x *ast.ForStmt, rest []ast.Stmt, tail func() string) string {
	t := c.t
	if c.inLoop {
		t.fail(x, "nested loop")
	}
	var pre []string
	if x.Init != nil {
		switch i := x.Init.(type) {
		case *ast.AssignStmt:
			c.assign(i, &pre)
		default:
			t.fail(x.Init, "loop init %s", nodeDesc(x.Init))
		}
	}
	ast.Inspect(x.Body, func(n ast.Node) bool {
		if b, ok := n.(*ast.BranchStmt); ok {
			t.fail(b, "%s inside a loop", b.Tok)
		}
		return true
	})
	var scope []ast.Node
	scope = append(scope, x.Body)
	if x.Post != nil {
		scope = append(scope, x.Post)
	}
	condHeap, condRec := false, false
	if x.Cond != nil {
		condHeap, condRec = c.effects(x.Cond)
	}
	heap, rec := c.effects(scope...)
	heap, rec = heap || condHeap, rec || condRec
	vars := c.assigned(scope...)
	var names []string
	if heap {
		names = append(names, "h'")
	}
	if rec {
		names = append(names, c.name(c.recv))
	}
	for _, o := range vars {
		names = append(names, c.name(o))
	}
	if len(names) == 0 {
		t.fail(x, "a loop that assigns nothing")
	}
	pat := "(" + strings.Join(names, ", ") + ")"
	fn := "fun '" + pat + " =>"
	if len(names) == 1 {
		fn = "fun " + names[0] + " =>"
		pat = names[0]
	}
	c.inLoop = true
	var cp []string
	cond := "true"
	if x.Cond != nil {
		cond = c.expr(x.Cond, &cp)
	}
	condText := strings.Join(append(cp, "Ret "+cond), "\n")
	bodyText := c.seq(x.Body.List, func() string { return "Ret (Next " + pat + ")" })
	var pp []string
	if x.Post != nil {
		switch p := x.Post.(type) {
		case *ast.AssignStmt:
			c.assign(p, &pp)
		case *ast.IncDecStmt:
			pp = strings.Split(c.seq([]ast.Stmt{p}, func() string { return "" }), "\n")
			pp = pp[:len(pp)-1]
		default:
			t.fail(x.Post, "loop post %s", nodeDesc(x.Post))
		}
	}
	postText := strings.Join(append(pp, "Ret "+pat), "\n")
	c.inLoop = false
	lr := c.fresh("lr")
	rv := c.fresh("v")
	after := c.seq(rest, tail)
	text := fmt.Sprintf("do %s <- while fuel\n  (%s\n%s)\n  (%s\n%s)\n  (%s\n%s)\n  %s;;\nmatch %s with\n| inl %s =>\n%s\n| inr %s => Ret %s\nend",
		lr, fn, ind13(ind13(condText)), fn, ind13(ind13(bodyText)), fn, ind13(ind13(postText)), pat, lr, pat, ind13(after), rv, rv)
	if len(pre) > 0 {
		return strings.Join(pre, "\n") + "\n" + text
	}
	return text
}
