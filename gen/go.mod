module verifgen

go 1.23
