// Self-test of the [ext:T15] extension (gen/trans_ext15.go): the functions of internal/sample/ext15.go are run natively and
// their translations are evaluated by coqc (vm_compute) on the same arguments — values, errors (kind and carried operand),
// the slices written through parameters, and panics must agree.
package main

import (
	"encoding/hex"
	"fmt"
	"os"
	"os/exec"
	"path/filepath"
	"strings"
	"testing"

	"verifgen/internal/sample"
)

var sampleKinds15 = []ErrKind{
	{Name: "Negative", Code: 1, Substr: "negative"},
	{Name: "BadDigit", Code: 2, Substr: "bad digit", Arg: 2},
	{Name: "TooLong", Code: 15, Substr: "too long"},
	{Name: "ErrLength", Code: 7, Foreign: "hex.ErrLength"},
}

func errTerm15(err error, payload int) string {
	switch {
	case err == nil:
		return "0"
	case err == hex.ErrLength:
		return "errk_ErrLength"
	case strings.Contains(err.Error(), "negative"):
		return "errk_Negative"
	case strings.Contains(err.Error(), "bad digit"):
		return fmt.Sprintf("(errk_BadDigit %d)", payload)
	case strings.Contains(err.Error(), "too long"):
		return "errk_TooLong"
	}
	return "?"
}

func TestExt15AgainstNativeGo(t *testing.T) {
	if _, err := exec.LookPath("coqc"); err != nil {
		t.Skip("coqc not found")
	}
	body, err := Translate(".", TransSpec{Dir: "internal/sample", WrapSigned: true,
		Funcs: []string{"CountByte", "TailOf", "Kind", "KindUser", "Pairs", "Lens", "TagSum", "TagBool", "TagCall", "Redecl", "Fill", "FillTwice", "UseFill", "HexTo"},
		T15:   T15Spec{ByteSeq: true, Imports: []string{"internal/samplecons"}, ErrKinds: sampleKinds15, OutParams: true, StdHexLen: true}})
	if err != nil {
		t.Fatal(err)
	}
	var ex []string
	add := func(call string, f func() string) {
		ex = append(ex, fmt.Sprintf("Example ex%d : %s = %s.\nProof. vm_compute. reflexivity. Qed.", len(ex), call, native(f)))
	}
	strs := []string{"", "a", "ab", "abc", "hello, world", "\xff\x00\xc3\xa9a", "0123456789"}
	for _, s := range strs {
		s := s
		for _, b := range []int{0, 97, 108, 255} {
			b := b
			add(fmt.Sprintf("g_CountByte 99 %s %d", bl([]byte(s)), b), func() string { return zs(sample.CountByte(s, byte(b))) })
			add(fmt.Sprintf("g_CountByte 99 %s %d", bl([]byte(s)), b), func() string { return zs(sample.CountByte([]byte(s), byte(b))) })
		}
		for _, k := range []int{-1, 0, 1, 2, 3, 5, 12, 13} {
			k := k
			add(fmt.Sprintf("g_TailOf 99 %s %s", bl([]byte(s)), zs(k)), func() string { return zs(sample.TailOf(s, k)) })
			add(fmt.Sprintf("g_TailOf 99 %s %s", bl([]byte(s)), zs(k)), func() string { return zs(sample.TailOf([]byte(s), k)) })
			add(fmt.Sprintf("g_Kind %s %s", bl([]byte(s)), zs(k)), func() string {
				v, err := sample.Kind(s, k)
				p := 0
				if k >= 0 && k < len(s) {
					p = int(s[k])
				}
				return "(" + zs(v) + ", " + errTerm15(err, p) + ")"
			})
			add(fmt.Sprintf("g_KindUser %s %s", bl([]byte(s)), zs(k)), func() string { return zs(sample.KindUser(s, k)) })
		}
		add("g_Pairs "+bl([]byte(s)), func() string { n, err := sample.Pairs(s); return "(" + zs(n) + ", " + errTerm15(err, 0) + ")" })
		for _, n := range []int{0, 1, 2 * len(s), 2*len(s) + 3} {
			n := n
			add(fmt.Sprintf("g_HexTo 99 %s %s", bl(make([]byte, n)), bl([]byte(s))), func() string {
				d := make([]byte, n)
				j := sample.HexTo(d, s)
				return "(" + bl(d) + ", " + zs(j) + ")"
			})
		}
	}
	for _, n := range []int{0, 1, 2, 7, 8, 1000001} {
		n := n
		add(fmt.Sprintf("g_Lens %d", n), func() string { a, b := sample.Lens(n); return "(" + zs(a) + ", " + zs(b) + ")" })
	}
	slices := [][]int{nil, {5}, {3, -1, 4}, {1, 2, 0, 9, 10, 11, 12, 13, 14}, {-3, 7, 7, 2, 0, 5, 1}, {9, 8, 7, 6, 5, 4, 3, 2, 1, 0}}
	for _, s := range slices {
		s := s
		add("g_TagSum 99 "+ls(s), func() string { return zs(sample.TagSum(s)) })
		add("g_TagCall "+ls(s), func() string {
			d := append([]int(nil), s...)
			n := sample.TagCall(d)
			return "(" + ls(d) + ", " + zs(n) + ")"
		})
		for _, u := range slices {
			u := u
			add("g_Redecl "+ls(s)+" "+ls(u), func() string { return zs(sample.Redecl(s, u)) })
			for _, v := range []int{-4, 0, 3} {
				v := v
				add(fmt.Sprintf("g_FillTwice 99 %s %s %s", ls(s), ls(u), zs(v)), func() string {
					d := append([]int(nil), s...)
					n := sample.FillTwice(d, u, v)
					return "(" + ls(d) + ", " + zs(n) + ")"
				})
			}
		}
		for _, v := range []int{-4, 0, 3} {
			v := v
			add(fmt.Sprintf("g_Fill 99 %s %s", ls(s), zs(v)), func() string {
				d := append([]int(nil), s...)
				n := sample.Fill(d, v)
				return "(" + ls(d) + ", " + zs(n) + ")"
			})
		}
	}
	for _, n := range []int{-1, 0, 1, 2, 3, 6} {
		for _, v := range []int{-2, 0, 1, 5} {
			n, v := n, v
			add(fmt.Sprintf("g_UseFill 99 %s %s", zs(n), zs(v)), func() string { d, k := sample.UseFill(n, v); return "(" + ls(d) + ", " + zs(k) + ")" })
		}
		for _, b := range []bool{false, true} {
			n, b := n, b
			add(fmt.Sprintf("g_TagBool %s %s", bs(b), zs(n)), func() string { return zs(sample.TagBool(b, n)) })
		}
	}
	ex = append(ex, "Example kinds_apart : forall a b : Z, (errk_BadDigit a =? 0) = false /\\ (errk_BadDigit a =? errk_TooLong) = false /\\ (errk_BadDigit a =? errk_ErrLength) = false /\\ (errk_BadDigit a = errk_BadDigit b -> a = b).\nProof. intros a b. unfold errk_BadDigit, errk_TooLong, errk_ErrLength. repeat split; try (apply Z.eqb_neq); lia. Qed.")

	dir := t.TempDir()
	os.MkdirAll(filepath.Join(dir, "Lib"), 0755)
	os.MkdirAll(filepath.Join(dir, "Gen"), 0755)
	sem, err := os.ReadFile("../coq/Lib/GoSem.v")
	if err != nil {
		t.Fatal(err)
	}
	os.WriteFile(filepath.Join(dir, "Lib", "GoSem.v"), sem, 0644)
	text := "From Coq Require Import List ZArith Bool Lia.\nImport ListNotations.\nFrom V Require Import Lib.GoSem.\nImport GoNotations.\nLocal Open Scope Z_scope.\n" +
		body + "\n" + strings.Join(ex, "\n") + "\n"
	os.WriteFile(filepath.Join(dir, "Gen", "SampleExt15.v"), []byte(text), 0644)
	if keep := os.Getenv("GO2V_KEEP15"); keep != "" {
		os.WriteFile(keep, []byte(text), 0644)
	}
	for _, f := range []string{"Lib/GoSem.v", "Gen/SampleExt15.v"} {
		cmd := exec.Command("timeout", "600", "coqc", "-Q", ".", "V", f)
		cmd.Dir = dir
		if out, err := cmd.CombinedOutput(); err != nil {
			t.Fatalf("coqc %s: %v\n%s", f, err, out)
		}
	}
	t.Logf("%d examples agree", len(ex))
}

// outside the extended subset: refused with a position
func TestExt15FailsClosed(t *testing.T) {
	kinds := []ErrKind{{Name: "One", Code: 1, Substr: "kind one"}}
	for _, fn := range []string{"TagString", "ErrUnknown", "ErrDynamic", "ErrEq", "OutAlias", "OutShared", "OutReassign", "OutNotVar"} {
		_, err := Translate(".", TransSpec{Dir: "internal/refused", Structs: []string{"Box"}, Funcs: []string{fn},
			T15: T15Spec{ByteSeq: true, ErrKinds: kinds, OutParams: true}})
		if err == nil || !strings.Contains(err.Error(), "unsupported") || !strings.Contains(err.Error(), "ext15.go:") {
			t.Errorf("%s: expected `unsupported: ... at file:line`, got %v", fn, err)
		} else {
			t.Logf("%s: %v", fn, err)
		}
	}
	// without the extension: a tag switch, a written slice parameter and a T over string | []byte stay outside the subset
	for _, fn := range []string{"TagBool", "Fill", "Kind"} {
		if _, err := Translate(".", TransSpec{Dir: "internal/sample", Funcs: []string{fn}, WrapSigned: true}); err == nil || !strings.Contains(err.Error(), "unsupported") {
			t.Errorf("%s without T15: expected a refusal, got %v", fn, err)
		}
	}
	// the shape gate: another number of loops, an unknown table
	if _, err := Translate(".", TransSpec{Dir: "internal/sample", Funcs: []string{"Fill"}, T15: T15Spec{OutParams: true, Loops: map[string]int{"Fill": 2}}}); err == nil || !strings.Contains(err.Error(), "has 1 loops") {
		t.Errorf("loop gate: expected a refusal, got %v", err)
	}
	if _, err := Translate(".", TransSpec{Dir: "internal/sample", Funcs: []string{"HexTo"}, T15: T15Spec{OutParams: true, Consts: []string{}}}); err == nil || !strings.Contains(err.Error(), "hexDigits") {
		t.Errorf("table gate: expected a refusal, got %v", err)
	}
	if _, err := Translate(".", TransSpec{Dir: "internal/sample", Funcs: []string{"HexTo", "Fill"}, T15: T15Spec{OutParams: true, Consts: []string{"hexDigits"}, Loops: map[string]int{"Fill": 1, "HexTo": 1}}}); err != nil {
		t.Errorf("shape gate on the expected shape: %v", err)
	}
	// invalid kind tables
	for _, ks := range [][]ErrKind{{{Name: "A", Code: 0, Substr: "a"}}, {{Name: "A", Code: 16, Substr: "a"}}, {{Name: "A", Code: 1, Substr: "a"}, {Name: "B", Code: 1, Substr: "b"}}, {{Name: "A", Code: 1}}} {
		if _, err := Translate(".", TransSpec{Dir: "internal/sample", Funcs: []string{"Lens"}, T15: T15Spec{ErrKinds: ks, StdHexLen: true}}); err == nil {
			t.Errorf("kind table %v: expected a refusal", ks)
		}
	}
}
