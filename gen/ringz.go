// Area Ringz (C10): the numeric constants of ringz/ring.go and ringz/sync.go the Coq models depend on.
//   Ring:     the "empty" sentinel written by Init (head and tail), the sentinel IsEmpty compares with,
//             the growth factor of PushWithExpand.
//   SyncRing: the special-cased request (`case 1 == cap`) and the capacity it gets (minimum capacity),
//             the constants of roundupPowOfTwo's loop (`i != 0`, `i >>= 1`, `1 << pos`).
// Fails closed when a function no longer has the expected shape.
package main

import (
	"fmt"
	"go/ast"
	"go/token"
	"math/big"
)

func init() { Register(Area{Name: "Ringz", Gen: genRingz}) }

// selName returns "r.head" for the selector expression r.head
func selName(e ast.Expr) string {
	if s, ok := e.(*ast.SelectorExpr); ok {
		if id, ok := s.X.(*ast.Ident); ok {
			return id.Name + "." + s.Sel.Name
		}
	}
	if id, ok := e.(*ast.Ident); ok {
		return id.Name
	}
	return ""
}

func genRingz(repo string) (string, error) {
	p, err := Load(repo, "ringz")
	if err != nil {
		return "", err
	}
	ev := func(e ast.Expr) (*big.Int, error) { return Eval(e, p.Env, 0) }
	out := ""

	// ---- Ring.Init: r.head = -1 ; r.tail = -1
	fd := p.Func("Ring.Init")
	if fd == nil {
		return "", fmt.Errorf("Ring.Init not found")
	}
	var headS, tailS *big.Int
	for _, st := range fd.Body.List {
		as, ok := st.(*ast.AssignStmt)
		if !ok || as.Tok != token.ASSIGN || len(as.Lhs) != 1 || len(as.Rhs) != 1 {
			continue
		}
		switch selName(as.Lhs[0]) {
		case recvName(fd) + ".head":
			if headS, err = ev(as.Rhs[0]); err != nil {
				return "", fmt.Errorf("Ring.Init: r.head: %v", err)
			}
		case recvName(fd) + ".tail":
			if tailS, err = ev(as.Rhs[0]); err != nil {
				return "", fmt.Errorf("Ring.Init: r.tail: %v", err)
			}
		}
	}
	if headS == nil || tailS == nil {
		return "", fmt.Errorf("Ring.Init: assignments to r.head / r.tail not found")
	}
	out += CoqZ("ring_init_head", headS) + CoqZ("ring_init_tail", tailS)

	// ---- Ring.IsEmpty: return r.head == -1
	fd = p.Func("Ring.IsEmpty")
	if fd == nil || len(fd.Body.List) != 1 {
		return "", fmt.Errorf("Ring.IsEmpty: unexpected shape")
	}
	ret, ok := fd.Body.List[0].(*ast.ReturnStmt)
	if !ok || len(ret.Results) != 1 {
		return "", fmt.Errorf("Ring.IsEmpty: unexpected shape")
	}
	be, ok := ret.Results[0].(*ast.BinaryExpr)
	if !ok || be.Op != token.EQL || selName(be.X) != recvName(fd)+".head" {
		return "", fmt.Errorf("Ring.IsEmpty: expected `r.head == <const>`")
	}
	emptyS, err := ev(be.Y)
	if err != nil {
		return "", fmt.Errorf("Ring.IsEmpty: %v", err)
	}
	out += CoqZ("ring_empty", emptyS)

	// ---- Ring.PushWithExpand: r.Recap(r.cap * 2)
	fd = p.Func("Ring.PushWithExpand")
	if fd == nil {
		return "", fmt.Errorf("Ring.PushWithExpand not found")
	}
	var factor *big.Int
	ast.Inspect(fd.Body, func(n ast.Node) bool {
		c, ok := n.(*ast.CallExpr)
		if !ok || selName(c.Fun) != recvName(fd)+".Recap" || len(c.Args) != 1 {
			return true
		}
		if m, ok := c.Args[0].(*ast.BinaryExpr); ok && m.Op == token.MUL {
			if selName(m.X) == recvName(fd)+".cap" {
				factor, _ = ev(m.Y)
			} else if selName(m.Y) == recvName(fd)+".cap" {
				factor, _ = ev(m.X)
			}
		}
		return true
	})
	if factor == nil {
		return "", fmt.Errorf("Ring.PushWithExpand: expected r.Recap(r.cap * <const>)")
	}
	out += CoqZ("ring_expand_factor", factor)

	// ---- constants assigned to r.head / r.tail in Push, Pop and Recap (source order)
	constAssigns := func(fn, field string) ([]*big.Int, error) {
		fd := p.Func(fn)
		if fd == nil {
			return nil, fmt.Errorf("%s not found", fn)
		}
		var vs []*big.Int
		ast.Inspect(fd.Body, func(n ast.Node) bool {
			as, ok := n.(*ast.AssignStmt)
			if ok && as.Tok == token.ASSIGN && len(as.Lhs) == 1 && len(as.Rhs) == 1 && selName(as.Lhs[0]) == recvName(fd)+field {
				if v, e := ev(as.Rhs[0]); e == nil {
					vs = append(vs, v)
				}
			}
			return true
		})
		return vs, nil
	}
	for _, w := range []struct {
		fn, field string
		names     []string
	}{
		{"Ring.Push", ".head", []string{"ring_push_first_head"}},
		{"Ring.Pop", ".head", []string{"ring_pop_last_head"}},
		{"Ring.Pop", ".tail", []string{"ring_pop_last_tail"}},
		{"Ring.Recap", ".head", []string{"ring_recap_empty_head", "ring_recap_head"}},
		{"Ring.Recap", ".tail", []string{"ring_recap_empty_tail"}},
	} {
		vs, err := constAssigns(w.fn, w.field)
		if err != nil {
			return "", err
		}
		if len(vs) != len(w.names) {
			return "", fmt.Errorf("%s: expected %d constant assignment(s) to %s, found %d", w.fn, len(w.names), w.field, len(vs))
		}
		for i, n := range w.names {
			out += CoqZ(n, vs[i])
		}
	}

	// ---- SyncRing.Init: switch { case cap <= 0: panic; case 1 == cap: c = 2; default: ... }
	fd = p.Func("SyncRing.Init")
	if fd == nil {
		return "", fmt.Errorf("SyncRing.Init not found")
	}
	var one, minCap, nonPos *big.Int
	ast.Inspect(fd.Body, func(n ast.Node) bool {
		cc, ok := n.(*ast.CaseClause)
		if !ok || len(cc.List) != 1 {
			return true
		}
		b, ok := cc.List[0].(*ast.BinaryExpr)
		if !ok {
			return true
		}
		switch {
		case b.Op == token.EQL && (selName(b.X) == "cap" || selName(b.Y) == "cap"):
			k := b.X
			if selName(b.X) == "cap" {
				k = b.Y
			}
			v, e := ev(k)
			if e != nil || len(cc.Body) != 1 {
				return true
			}
			as, ok := cc.Body[0].(*ast.AssignStmt)
			if !ok || len(as.Lhs) != 1 || selName(as.Lhs[0]) != "c" || len(as.Rhs) != 1 {
				return true
			}
			m, e := ev(as.Rhs[0])
			if e != nil {
				return true
			}
			one, minCap = v, m
		case b.Op == token.LEQ && selName(b.X) == "cap":
			if v, e := ev(b.Y); e == nil {
				nonPos = v
			}
		}
		return true
	})
	if one == nil || minCap == nil {
		return "", fmt.Errorf("SyncRing.Init: `case <k> == cap: c = <m>` not found")
	}
	if nonPos == nil {
		return "", fmt.Errorf("SyncRing.Init: `case cap <= <k>: panic` not found")
	}
	out += CoqZ("sync_small_request", one) + CoqZ("sync_min_cap", minCap) + CoqZ("sync_panic_bound", nonPos)

	// ---- roundupPowOfTwo: for i := x; i != 0; pos++ { i >>= 1 }; return 1 << pos
	fd = p.Func("roundupPowOfTwo")
	if fd == nil {
		return "", fmt.Errorf("roundupPowOfTwo not found")
	}
	var stop, shift, base *big.Int
	iName, posName := "i", "pos" // the loop variable and the counter, whatever they are called
	ast.Inspect(fd.Body, func(n ast.Node) bool {
		if x, ok := n.(*ast.ForStmt); ok {
			if as, ok := x.Init.(*ast.AssignStmt); ok && as.Tok == token.DEFINE && len(as.Lhs) == 1 {
				iName = selName(as.Lhs[0])
			}
			if inc, ok := x.Post.(*ast.IncDecStmt); ok {
				posName = selName(inc.X)
			}
		}
		return true
	})
	ast.Inspect(fd.Body, func(n ast.Node) bool {
		switch x := n.(type) {
		case *ast.ForStmt:
			if c, ok := x.Cond.(*ast.BinaryExpr); ok && c.Op == token.NEQ && selName(c.X) == iName {
				stop, _ = ev(c.Y)
			}
			if inc, ok := x.Post.(*ast.IncDecStmt); !ok || inc.Tok != token.INC || selName(inc.X) != posName {
				stop = nil
			}
		case *ast.AssignStmt:
			if x.Tok == token.SHR_ASSIGN && len(x.Lhs) == 1 && selName(x.Lhs[0]) == iName {
				shift, _ = ev(x.Rhs[0])
			}
		case *ast.ReturnStmt:
			if len(x.Results) == 1 {
				if b, ok := x.Results[0].(*ast.BinaryExpr); ok && b.Op == token.SHL && selName(b.Y) == posName {
					base, _ = ev(b.X)
				}
			}
		}
		return true
	})
	if stop == nil || shift == nil || base == nil {
		return "", fmt.Errorf("roundupPowOfTwo: expected `for i := x; i != <k>; pos++ { i >>= <s> }; return <b> << pos`")
	}
	out += CoqZ("roundup_stop", stop) + CoqZ("roundup_shift", shift) + CoqZ("roundup_base", base)
	return out, nil
}
