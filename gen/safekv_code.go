package main

// Area SafeKVCode (C12): WHAT the non-callback methods of mapz.SafeKV do to the guarded map.  The body of each of
// Get, Has, Contains, Set, SetNx, SetX, Delete, Len, Clear, Keys, Values (mapz/safekv.go) is dumped, statement by statement, into the
// small map-statement language of coq/Lib/MapLang.v (semantics: coq/Model/SafeKVCode.v); coq/Proofs/SafeKVCode.v proves
// every dumped body equal to the hand model's `sem` (c12_code_is_model).  The lock calls are skipped here: where they
// stand is the business of the SafeKVSkel area (gen/safekv.go).
//
// Translated: `v, ok := s.entries[k]` (also `=`, blanks, one-value form), `s.entries[k] = e`, `delete(s.entries, k)`,
// `x := len(s.entries)`, `s.entries = make(<map type>[, pure size hint])`, `clear(s.entries)`, `var x T`, `x := e` / `x = e`,
// `if [init;] cond {..} [else ..]`, `for _, x := range <variadic parameter>`, `return e, ...`; for Keys / Values also `x := make([]T, 0[, hint])`,
// `x = append(x, e)`, `for k[, v] := range s.entries` (body must not write the map), `return x`; expressions: locals,
// parameters, true/false, !e, parentheses.  Go's scoping is applied (a `:=` in an if-header declares a NEW variable that
// shadows an outer one of the same name).  Everything else makes the area fail; gen/main.go then installs the validated
// default (gen/defaults/SafeKVCode.v) and the tie counts as degraded.

import (
	"fmt"
	"go/ast"
	"go/token"
	"strings"
)

// one area per method (Gen/SafeKVCode<Method>.v, each with its own validated default): a method that leaves the translated
// fragment degrades alone; the area SafeKVCode itself only re-exports them
func init() {
	Register(Area{Name: "SafeKVCode", Gen: func(string) (string, error) {
		var sb strings.Builder
		sb.WriteString("(* the regenerated method bodies of mapz.SafeKV, one file per method (see gen/safekv_code.go) *)\nFrom V Require Export")
		for _, m := range skcMethods {
			sb.WriteString(" Gen.SafeKVCode" + m.name)
		}
		sb.WriteString(".\n")
		return sb.String(), nil
	}})
	for i := range skcMethods {
		i := i
		Register(Area{Name: "SafeKVCode" + skcMethods[i].name, Gen: func(repo string) (string, error) { return genSafeKVCode(repo, i) }})
	}
}

// the methods the hand model's `call` type knows without callbacks, with the signature the theorem is stated for
var skcMethods = []struct {
	name     string
	nargs    int
	variadic bool
	nres     int
	cb       bool // has a function-typed parameter (for All: the parameter of the returned closure)
}{
	{"Clear", 0, false, 0, false}, {"Contains", 1, false, 1, false}, {"Delete", 0, true, 0, false}, {"Get", 1, false, 2, false}, {"Has", 1, false, 1, false},
	{"Len", 0, false, 1, false}, {"Set", 2, false, 0, false}, {"SetNx", 2, false, 1, false}, {"SetX", 2, false, 1, false},
	{"Keys", 0, false, 1, false}, {"Values", 0, false, 1, false},
	{"GetWithLock", 1, false, 0, true}, {"Map", 0, false, 0, true}, {"Range", 0, false, 0, true}, {"All", 0, false, 1, true},
}

type skc struct {
	recv, entries, mu string
	args              map[string]int // non-variadic parameter -> position
	vararg            string         // name of the variadic parameter ("" if none)
	fn                string         // name of the function-typed parameter ("" if none)
	loops             int            // loop nesting depth
	scopes            []map[string]int
	nvars             int
	slices            map[int]bool // locals that hold a slice (own name space in the target language)
	inRange           int          // > 0 inside `for .. := range s.entries`: the body must not write the map
	err               error
}

func (c *skc) fail(format string, a ...any) {
	if c.err == nil {
		c.err = fmt.Errorf(format, a...)
	}
}
func (c *skc) push() { c.scopes = append(c.scopes, map[string]int{}) }
func (c *skc) pop()  { c.scopes = c.scopes[:len(c.scopes)-1] }
func (c *skc) lookup(name string) (int, bool) {
	for i := len(c.scopes) - 1; i >= 0; i-- {
		if v, ok := c.scopes[i][name]; ok {
			return v, true
		}
	}
	return 0, false
}
func (c *skc) declare(name string) int {
	v := c.nvars
	c.nvars++
	c.scopes[len(c.scopes)-1][name] = v
	return v
}

// target of `:=` (define) or `=`: the variable number; "_" gives -1
func (c *skc) target(e ast.Expr, define bool) int {
	id, ok := e.(*ast.Ident)
	if !ok {
		c.fail("assignment target %T not understood", e)
		return -1
	}
	if id.Name == "_" {
		return -1
	}
	if define {
		if v, ok := c.scopes[len(c.scopes)-1][id.Name]; ok {
			return v // already declared in this very scope: `:=` assigns
		}
		return c.declare(id.Name)
	}
	if v, ok := c.lookup(id.Name); ok {
		return v
	}
	c.fail("assignment to %s, which is not a local variable", id.Name)
	return -1
}

func (c *skc) isSel(e ast.Expr, field string) bool {
	for {
		p, ok := e.(*ast.ParenExpr)
		if !ok {
			break
		}
		e = p.X
	}
	s, ok := e.(*ast.SelectorExpr)
	if !ok || s.Sel.Name != field {
		return false
	}
	id, ok := s.X.(*ast.Ident)
	if !ok || id.Name != c.recv {
		return false
	}
	_, shadowed := c.lookup(c.recv)
	return !shadowed
}
func (c *skc) isEntries(e ast.Expr) bool { return c.isSel(e, c.entries) }

func (c *skc) isBuiltin(e ast.Expr, name string) bool {
	id, ok := e.(*ast.Ident)
	if !ok || id.Name != name {
		return false
	}
	if _, sh := c.lookup(name); sh {
		return false
	}
	if _, sh := c.args[name]; sh {
		return false
	}
	if name == c.fn {
		return true // the function-typed parameter itself (not shadowed: checked above)
	}
	return name != c.vararg && name != c.recv
}

func (c *skc) exp(e ast.Expr) string {
	switch n := e.(type) {
	case *ast.ParenExpr:
		return c.exp(n.X)
	case *ast.Ident:
		if v, ok := c.lookup(n.Name); ok {
			if c.slices[v] {
				c.fail("slice variable %s used as a value", n.Name)
			}
			return fmt.Sprintf("EVar %d", v)
		}
		if i, ok := c.args[n.Name]; ok {
			return fmt.Sprintf("EArg %d", i)
		}
		if n.Name == "true" && c.isBuiltin(n, "true") {
			return "EBool true"
		}
		if n.Name == "false" && c.isBuiltin(n, "false") {
			return "EBool false"
		}
		c.fail("identifier %s not understood", n.Name)
	case *ast.UnaryExpr:
		if n.Op == token.NOT {
			return "ENot (" + c.exp(n.X) + ")"
		}
		c.fail("operator %s not understood", n.Op)
	default:
		c.fail("expression %T not understood", e)
	}
	return "EZero"
}

// cbCall recognises fn(args...) on the function-typed parameter; returns the statement with result target xres
func (c *skc) cbCall(e ast.Expr, xres int) (string, bool) {
	call, ok := e.(*ast.CallExpr)
	if !ok || c.fn == "" || !c.isBuiltin(call.Fun, c.fn) || call.Ellipsis != token.NoPos {
		return "", false
	}
	if len(call.Args) == 1 && c.isEntries(call.Args[0]) {
		if xres >= 0 {
			c.fail("result of the map callback used")
		}
		c.noWrite()
		return "SCallMap", true
	}
	var es []string
	for _, a := range call.Args {
		es = append(es, c.exp(a))
	}
	return fmt.Sprintf("SCall [%s] %s", strings.Join(es, "; "), optVar(xres)), true
}

func (c *skc) noWrite() {
	if c.inRange > 0 {
		c.fail("write to the map inside a range over it not understood")
	}
}

func optVar(v int) string {
	if v < 0 {
		return "None"
	}
	return fmt.Sprintf("(Some %d)", v)
}

// a size hint of make: must be free of effects
func (c *skc) pureHint(e ast.Expr) bool {
	switch n := e.(type) {
	case *ast.BasicLit:
		return n.Kind == token.INT
	case *ast.Ident:
		_, l := c.lookup(n.Name)
		_, a := c.args[n.Name]
		return l || a
	case *ast.CallExpr:
		return c.isBuiltin(n.Fun, "len") && len(n.Args) == 1 && c.isEntries(n.Args[0])
	case *ast.ParenExpr:
		return c.pureHint(n.X)
	}
	return false
}

func (c *skc) lockCall(call *ast.CallExpr) bool {
	se, ok := call.Fun.(*ast.SelectorExpr)
	if !ok || len(call.Args) != 0 || !c.isSel(se.X, c.mu) {
		return false
	}
	switch se.Sel.Name {
	case "Lock", "RLock", "Unlock", "RUnlock":
		return true
	}
	return false
}

func seq(parts []string) string {
	out := "SSkip"
	for i := len(parts) - 1; i >= 0; i-- {
		out = "SSeq (" + parts[i] + ") (" + out + ")"
	}
	return out
}

func (c *skc) block(b *ast.BlockStmt) string {
	c.push()
	defer c.pop()
	var parts []string
	for _, st := range b.List {
		if s := c.stmt(st); s != "" {
			parts = append(parts, s)
		}
		if c.err != nil {
			break
		}
	}
	return seq(parts)
}

// stmt translates one statement; "" = nothing to emit (a lock call)
func (c *skc) stmt(st ast.Stmt) string {
	if c.err != nil {
		return ""
	}
	if c.inRange > 0 {
		// the proofs know one shape of a loop over the map: a body of appends and plain assignments
		switch st.(type) {
		case *ast.AssignStmt, *ast.ExprStmt, *ast.IfStmt, *ast.BranchStmt:
		default:
			c.fail("statement %T inside a range over the map not understood", st)
			return ""
		}
	}
	switch n := st.(type) {
	case *ast.EmptyStmt:
		return ""
	case *ast.ExprStmt:
		call, ok := n.X.(*ast.CallExpr)
		if !ok {
			c.fail("expression statement %T not understood", n.X)
			return ""
		}
		if c.lockCall(call) {
			return ""
		}
		if s, ok := c.cbCall(call, -1); ok {
			return s
		}
		if c.isBuiltin(call.Fun, "delete") && len(call.Args) == 2 && c.isEntries(call.Args[0]) {
			c.noWrite()
			return "SDelete (" + c.exp(call.Args[1]) + ")"
		}
		if c.isBuiltin(call.Fun, "clear") && len(call.Args) == 1 && c.isEntries(call.Args[0]) {
			c.noWrite()
			return "SClear"
		}
		c.fail("call statement not understood")
	case *ast.DeferStmt:
		if c.lockCall(n.Call) {
			return ""
		}
		c.fail("defer not understood")
	case *ast.DeclStmt:
		gd, ok := n.Decl.(*ast.GenDecl)
		if !ok || gd.Tok != token.VAR {
			c.fail("declaration not understood")
			return ""
		}
		var parts []string
		for _, sp := range gd.Specs {
			vs := sp.(*ast.ValueSpec)
			if len(vs.Values) != 0 && len(vs.Values) != len(vs.Names) {
				c.fail("var declaration with a multi-value initialiser not understood")
				return ""
			}
			if len(vs.Values) == 0 {
				if id, ok := vs.Type.(*ast.Ident); !ok || id == nil {
					c.fail("var declaration of type %T not understood", vs.Type)
					return ""
				}
			}
			var inits []string
			for _, v := range vs.Values {
				inits = append(inits, c.exp(v)) // evaluated before the names come into scope
			}
			for i, nm := range vs.Names {
				if nm.Name == "_" {
					continue
				}
				x := c.declare(nm.Name)
				if len(inits) > 0 {
					parts = append(parts, fmt.Sprintf("SAssign %d (%s)", x, inits[i]))
				} else {
					parts = append(parts, fmt.Sprintf("SAssign %d EZero", x))
				}
			}
		}
		return seq(parts)
	case *ast.AssignStmt:
		if n.Tok != token.DEFINE && n.Tok != token.ASSIGN {
			c.fail("assignment operator %s not understood", n.Tok)
			return ""
		}
		def := n.Tok == token.DEFINE
		if len(n.Rhs) != 1 {
			c.fail("parallel assignment not understood")
			return ""
		}
		rhs := n.Rhs[0]
		for {
			p, ok := rhs.(*ast.ParenExpr)
			if !ok {
				break
			}
			rhs = p.X
		}
		// s.entries[k] = e / s.entries = make(..)
		if len(n.Lhs) == 1 && !def {
			if ix, ok := n.Lhs[0].(*ast.IndexExpr); ok && c.isEntries(ix.X) {
				c.noWrite()
				k := c.exp(ix.Index)
				return "SStore (" + k + ") (" + c.exp(rhs) + ")"
			}
			if c.isEntries(n.Lhs[0]) {
				c.noWrite()
				if call, ok := rhs.(*ast.CallExpr); ok && c.isBuiltin(call.Fun, "make") && (len(call.Args) == 1 || (len(call.Args) == 2 && c.pureHint(call.Args[1]))) {
					switch call.Args[0].(type) {
					case *ast.MapType, *ast.IndexListExpr, *ast.IndexExpr, *ast.Ident:
						return "SClear" // a fresh value of a type assignable to the field: an empty map
					}
				}
				c.fail("assignment to s.%s other than a fresh make(...) not understood", c.entries)
				return ""
			}
		}
		// [v,] [ok] :=/= s.entries[k]
		if ix, ok := rhs.(*ast.IndexExpr); ok && c.isEntries(ix.X) && (len(n.Lhs) == 1 || len(n.Lhs) == 2) {
			if c.inRange > 0 {
				c.fail("index of the map inside a range over it not understood")
				return ""
			}
			k := c.exp(ix.Index) // the key is evaluated before the targets are declared
			xv, xok := c.target(n.Lhs[0], def), -1
			if len(n.Lhs) == 2 {
				xok = c.target(n.Lhs[1], def)
			}
			return fmt.Sprintf("SLookup %s %s (%s)", optVar(xv), optVar(xok), k)
		}
		if len(n.Lhs) != 1 {
			c.fail("multi-value assignment not understood")
			return ""
		}
		// x := make([]T, 0[, pure hint])
		if call, ok := rhs.(*ast.CallExpr); ok && c.isBuiltin(call.Fun, "make") && (len(call.Args) == 2 || (len(call.Args) == 3 && c.pureHint(call.Args[2]))) {
			at, ok := call.Args[0].(*ast.ArrayType)
			lit, ok2 := call.Args[1].(*ast.BasicLit)
			if ok && at.Len == nil && ok2 && lit.Kind == token.INT && lit.Value == "0" {
				x := c.target(n.Lhs[0], def)
				if x < 0 {
					return ""
				}
				if !def && !c.slices[x] {
					c.fail("make assigned to a non-slice variable")
				}
				c.slices[x] = true
				return fmt.Sprintf("SMakeSlice %d", x)
			}
			c.fail("make form not understood")
			return ""
		}
		// x = append(x, e)
		if call, ok := rhs.(*ast.CallExpr); ok && c.isBuiltin(call.Fun, "append") {
			id, ok := n.Lhs[0].(*ast.Ident)
			a0, ok2 := (ast.Expr)(nil), false
			if len(call.Args) == 2 && call.Ellipsis == token.NoPos {
				a0, ok2 = call.Args[0], true
			}
			if ok && ok2 && !def {
				if id0, ok := a0.(*ast.Ident); ok && id0.Name == id.Name {
					if x, ok := c.lookup(id.Name); ok && c.slices[x] {
						return fmt.Sprintf("SAppend %d (%s)", x, c.exp(call.Args[1]))
					}
				}
			}
			c.fail("append form not understood (expected `x = append(x, e)` on a slice made here)")
			return ""
		}
		// x := len(s.entries)
		if call, ok := rhs.(*ast.CallExpr); ok && c.isBuiltin(call.Fun, "len") && len(call.Args) == 1 && c.isEntries(call.Args[0]) {
			x := c.target(n.Lhs[0], def)
			if x < 0 {
				return ""
			}
			return fmt.Sprintf("SLen %d", x)
		}
		e := c.exp(rhs)
		x := c.target(n.Lhs[0], def)
		if x < 0 {
			return ""
		}
		return fmt.Sprintf("SAssign %d (%s)", x, e)
	case *ast.IfStmt:
		c.push() // the scope of the header
		defer c.pop()
		var parts []string
		if n.Init != nil {
			if s := c.stmt(n.Init); s != "" {
				parts = append(parts, s)
			}
		}
		// if fn(..) / if !fn(..): the call first, into a fresh local
		cexp, neg := n.Cond, false
		for {
			if p, ok := cexp.(*ast.ParenExpr); ok {
				cexp = p.X
			} else if u, ok := cexp.(*ast.UnaryExpr); ok && u.Op == token.NOT {
				cexp, neg = u.X, !neg
			} else {
				break
			}
		}
		cond := ""
		if _, isCall := cexp.(*ast.CallExpr); isCall {
			tmp := c.declare(" cbres")
			s, ok := c.cbCall(cexp, tmp)
			if !ok {
				c.fail("condition with a call other than the callback not understood")
				return ""
			}
			parts = append(parts, s)
			cond = fmt.Sprintf("EVar %d", tmp)
			if neg {
				cond = "ENot (" + cond + ")"
			}
		} else {
			if c.inRange > 0 {
				c.fail("if inside a range over the map (other than on the callback's answer) not understood")
				return ""
			}
			cond = c.exp(n.Cond)
		}
		th := c.block(n.Body)
		el := "SSkip"
		switch e := n.Else.(type) {
		case nil:
		case *ast.BlockStmt:
			el = c.block(e)
		case *ast.IfStmt:
			el = c.stmt(e)
		default:
			c.fail("else branch %T not understood", n.Else)
		}
		parts = append(parts, "SIf ("+cond+") ("+th+") ("+el+")")
		if len(parts) == 1 {
			return parts[0]
		}
		return seq(parts)
	case *ast.BlockStmt:
		return c.block(n)
	case *ast.RangeStmt:
		if c.isEntries(n.X) {
			if n.Tok != token.DEFINE || n.Key == nil {
				c.fail("range form over s.%s not understood", c.entries)
				return ""
			}
			c.push()
			defer c.pop()
			kx := c.target(n.Key, true)
			vx := -1
			if n.Value != nil {
				vx = c.target(n.Value, true)
			}
			c.inRange++
			c.loops++
			b := c.block(n.Body)
			c.loops--
			c.inRange--
			return fmt.Sprintf("SRangeMap %s %s (%s)", optVar(kx), optVar(vx), b)
		}
		id, ok := n.X.(*ast.Ident)
		_, shadowed := c.lookup(c.vararg)
		if !ok || c.vararg == "" || id.Name != c.vararg || shadowed {
			c.fail("range over anything but the variadic parameter not understood")
			return ""
		}
		if n.Tok != token.DEFINE || n.Value == nil {
			c.fail("range form not understood (expected `for _, x := range %s`)", c.vararg)
			return ""
		}
		if k, ok := n.Key.(*ast.Ident); !ok || k.Name != "_" {
			c.fail("range with an index variable not understood")
			return ""
		}
		c.push()
		defer c.pop()
		x := c.target(n.Value, true)
		if x < 0 {
			x = c.declare("_unused")
		}
		c.loops++
		fb := c.block(n.Body)
		c.loops--
		return fmt.Sprintf("SForArgs %d (%s)", x, fb)
	case *ast.BranchStmt:
		if n.Tok == token.BREAK && n.Label == nil && c.loops > 0 {
			return "SBreak"
		}
		c.fail("branch statement %s not understood", n.Tok)
	case *ast.ReturnStmt:
		if len(n.Results) == 1 {
			if id, ok := n.Results[0].(*ast.Ident); ok {
				if x, ok := c.lookup(id.Name); ok && c.slices[x] {
					return fmt.Sprintf("SReturnSlice %d", x)
				}
			}
		}
		var es []string
		for _, r := range n.Results {
			es = append(es, c.exp(r))
		}
		return "SReturn [" + strings.Join(es, "; ") + "]"
	default:
		c.fail("statement %T not understood", st)
	}
	return ""
}

func genSafeKVCode(repo string, which int) (string, error) {
	p, err := Load(repo, "mapz")
	if err != nil {
		return "", err
	}
	// the struct: field names of the map and the mutex (the SafeKVSkel area checks the struct thoroughly; here they are only
	// needed to recognise s.<map> and s.<mutex>)
	entries, mu := "", ""
	for _, f := range p.Files {
		for _, d := range f.Decls {
			gd, ok := d.(*ast.GenDecl)
			if !ok || gd.Tok != token.TYPE {
				continue
			}
			for _, sp := range gd.Specs {
				ts := sp.(*ast.TypeSpec)
				st, ok := ts.Type.(*ast.StructType)
				if ts.Name.Name != "SafeKV" || !ok {
					continue
				}
				for _, fl := range st.Fields.List {
					if len(fl.Names) != 1 {
						return "", fmt.Errorf("SafeKV: embedded or multi-name field not understood")
					}
					if se, ok := fl.Type.(*ast.SelectorExpr); ok && se.Sel.Name == "RWMutex" {
						if mu != "" {
							return "", fmt.Errorf("SafeKV: two mutexes")
						}
						mu = fl.Names[0].Name
					} else {
						if entries != "" {
							return "", fmt.Errorf("SafeKV: more than one non-mutex field")
						}
						entries = fl.Names[0].Name
					}
				}
			}
		}
	}
	if entries == "" || mu == "" {
		return "", fmt.Errorf("SafeKV struct with one map and one sync.RWMutex not found")
	}
	var sb strings.Builder
	sb.WriteString("(* what one mapz.SafeKV method does, statement by statement, in the language of Lib/MapLang.v (see gen/safekv_code.go) *)\n")
	sb.WriteString("From V Require Import Lib.MapLang.\n")
	for _, m := range skcMethods[which : which+1] {
		fd := p.Func("SafeKV." + m.name)
		if fd == nil || fd.Body == nil {
			return "", fmt.Errorf("method SafeKV.%s not found", m.name)
		}
		if _, ok := fd.Recv.List[0].Type.(*ast.StarExpr); !ok || len(fd.Recv.List[0].Names) != 1 {
			return "", fmt.Errorf("SafeKV.%s: receiver not understood", m.name)
		}
		c := &skc{recv: fd.Recv.List[0].Names[0].Name, entries: entries, mu: mu, args: map[string]int{}, slices: map[int]bool{}}
		for _, fl := range fd.Type.Params.List {
			if len(fl.Names) == 0 {
				return "", fmt.Errorf("SafeKV.%s: unnamed parameter", m.name)
			}
			switch t := fl.Type.(type) {
			case *ast.Ident:
				for _, nm := range fl.Names {
					c.args[nm.Name] = len(c.args)
				}
			case *ast.Ellipsis:
				if _, ok := t.Elt.(*ast.Ident); !ok || c.vararg != "" || len(fl.Names) != 1 {
					return "", fmt.Errorf("SafeKV.%s: variadic parameter not understood", m.name)
				}
				c.vararg = fl.Names[0].Name
			case *ast.FuncType:
				if !m.cb || c.fn != "" || len(fl.Names) != 1 {
					return "", fmt.Errorf("SafeKV.%s: function parameter not understood", m.name)
				}
				c.fn = fl.Names[0].Name
			default:
				return "", fmt.Errorf("SafeKV.%s: parameter of type %T not understood", m.name, fl.Type)
			}
		}
		if len(c.args) != m.nargs || (c.vararg != "") != m.variadic {
			return "", fmt.Errorf("SafeKV.%s: signature differs from the one the model is stated for", m.name)
		}
		nres := 0
		if fd.Type.Results != nil {
			for _, fl := range fd.Type.Results.List {
				if len(fl.Names) != 0 {
					return "", fmt.Errorf("SafeKV.%s: named results not understood", m.name)
				}
				nres++
			}
		}
		if nres != m.nres {
			return "", fmt.Errorf("SafeKV.%s: number of results differs from the one the model is stated for", m.name)
		}
		fbody := fd.Body
		if m.name == "All" {
			// an iterator: `return func(yield func(K, V) bool) { ... }`; the effect is that of the closure when it is ranged over
			var fl *ast.FuncLit
			if len(fbody.List) == 1 {
				if rs, ok := fbody.List[0].(*ast.ReturnStmt); ok && len(rs.Results) == 1 {
					fl, _ = rs.Results[0].(*ast.FuncLit)
				}
			}
			if fl == nil || len(fl.Type.Params.List) != 1 || len(fl.Type.Params.List[0].Names) != 1 || fl.Type.Results != nil {
				return "", fmt.Errorf("SafeKV.All: not a single returned closure of one parameter")
			}
			if _, ok := fl.Type.Params.List[0].Type.(*ast.FuncType); !ok {
				return "", fmt.Errorf("SafeKV.All: the closure's parameter is not a function")
			}
			c.fn = fl.Type.Params.List[0].Names[0].Name
			fbody = fl.Body
		}
		if m.cb && c.fn == "" {
			return "", fmt.Errorf("SafeKV.%s: no function parameter", m.name)
		}
		body := c.block(fbody)
		if c.err != nil {
			return "", fmt.Errorf("SafeKV.%s: %v", m.name, c.err)
		}
		fmt.Fprintf(&sb, "Definition code_%s : method := {| n_args := %d; variadic := %v; m_body :=\n  %s |}.\n", m.name, m.nargs, m.variadic, body)
	}
	return sb.String(), nil
}
