// Self-test of the Go -> Gallina translator: the functions of internal/sample are run natively and their translations are
// evaluated by coqc (vm_compute) on the same arguments; every result must agree, panics included.
// Run: cd gen && go test .      (needs coqc; about 5 s)
package main

import (
	"fmt"
	"os"
	"os/exec"
	"path/filepath"
	"strings"
	"testing"

	"verifgen/internal/sample"
)

func zs(v int) string {
	if v < 0 {
		return fmt.Sprintf("(%d)", v)
	}
	return fmt.Sprint(v)
}
func bs(b bool) string {
	if b {
		return "true"
	}
	return "false"
}
func ls(s []int) string {
	p := make([]string, len(s))
	for i, v := range s {
		p[i] = zs(v)
	}
	return "[" + strings.Join(p, "; ") + "]"
}

// run f, turning a Go panic into the Coq value Panic
func native(f func() string) (r string) {
	defer func() {
		if recover() != nil {
			r = "Panic"
		}
	}()
	return "Ret " + f()
}

func TestTranslatorAgainstNativeGo(t *testing.T) {
	if _, err := exec.LookPath("coqc"); err != nil {
		t.Skip("coqc not found")
	}
	body, err := Translate(".", TransSpec{Dir: "internal/sample", Structs: []string{"Stack"}, Funcs: []string{
		"DivMod", "Shifts", "Bits", "U8", "U32", "MinMax", "Cmp", "AndDiv", "OrDiv", "Bools", "Safe", "Classify", "Early", "MustPos",
		"SumTo", "Collatz", "FindFirst", "SumPositiveUntilZero", "CountRange", "Nested", "Forever", "Reverse", "Window", "Build",
		"CopyInto", "Swap", "MakeNeg", "Script"}})
	if err != nil {
		t.Fatal(err)
	}
	// [BitsCode] uint64 words, math/bits.OnesCountN, struct literals, named results: a third specification (struct Words)
	body3, err := Translate(".", TransSpec{Dir: "internal/sample", Structs: []string{"Words"}, Funcs: []string{
		"WordIdx", "Pop64", "WordsScript", "Locate", "NamedSum"}})
	if err != nil {
		t.Fatal(err)
	}
	// function-typed parameters / fields and in-out slice parameters (trans_func.go): a second specification, with InOut
	body2, err := Translate(".", TransSpec{Dir: "internal/sample", Structs: []string{"Sorter"}, InOut: true, Funcs: []string{
		"Exch", "NoExch", "ExchIf", "Bubble", "DryRun", "Pass", "FirstLast", "Sorter.Sort", "Sorter.Min"}})
	if err != nil {
		t.Fatal(err)
	}
	body += body2 + body3
	var ex []string
	add := func(call string, f func() string) {
		ex = append(ex, fmt.Sprintf("Example ex%d : %s = %s.\nProof. vm_compute. reflexivity. Qed.", len(ex), call, native(f)))
	}
	ints := []int{-7, -2, -1, 0, 1, 2, 3, 5, 8, 64, 100}
	for _, a := range ints {
		for _, b := range ints {
			a, b := a, b
			add(fmt.Sprintf("g_DivMod %s %s", zs(a), zs(b)), func() string { q, r := sample.DivMod(a, b); return "(" + zs(q) + ", " + zs(r) + ")" })
			add(fmt.Sprintf("g_Bits %s %s", zs(a), zs(b)), func() string { return zs(sample.Bits(a, b)) })
			add(fmt.Sprintf("g_Cmp %s %s", zs(a), zs(b)), func() string { return zs(sample.Cmp(a, b)) })
			add(fmt.Sprintf("g_AndDiv %s %s", zs(a), zs(b)), func() string { return bs(sample.AndDiv(a, b)) })
			add(fmt.Sprintf("g_OrDiv %s %s", zs(a), zs(b)), func() string { return bs(sample.OrDiv(a, b)) })
			add(fmt.Sprintf("g_MinMax %s %s 4", zs(a), zs(b)), func() string { return zs(sample.MinMax(a, b, 4)) })
			if b < 40 && a > -100 && a <= 100 {
				add(fmt.Sprintf("g_Shifts %s %s", zs(a), zs(b)), func() string { x, y := sample.Shifts(a, b); return "(" + zs(x) + ", " + zs(y) + ")" })
			}
		}
		a := a
		add(fmt.Sprintf("g_Classify %s", zs(a)), func() string { return zs(sample.Classify(a)) })
		add(fmt.Sprintf("g_Early %s", zs(a)), func() string { x, ok := sample.Early(a); return "(" + zs(x) + ", " + bs(ok) + ")" })
		add(fmt.Sprintf("g_MustPos %s", zs(a)), func() string { return zs(sample.MustPos(a)) })
		add(fmt.Sprintf("g_SumTo 200 %s", zs(a)), func() string { return zs(sample.SumTo(a)) })
		add(fmt.Sprintf("g_Collatz 200 %s", zs(a)), func() string { return zs(sample.Collatz(a)) })
		add(fmt.Sprintf("g_Nested 200 %s", zs(a)), func() string { return zs(sample.Nested(a)) })
		add(fmt.Sprintf("g_Forever 200 %s", zs(a)), func() string { return zs(sample.Forever(a)) })
		add(fmt.Sprintf("g_MakeNeg %s", zs(a)), func() string { return zs(sample.MakeNeg(a)) })
		if a < 30 {
			add(fmt.Sprintf("g_Build 200 %s", zs(a)), func() string { return ls(sample.Build(a)) })
		}
	}
	for _, a := range []int{0, 1, 77, 128, 200, 255} {
		for _, b := range []int{0, 3, 100, 255} {
			a, b := a, b
			add(fmt.Sprintf("g_U8 %d %d", a, b), func() string { return zs(int(sample.U8(uint8(a), uint8(b)))) })
		}
	}
	for _, x := range []uint32{0, 1, 999999, 1 << 31, 1<<32 - 1, 123456789} {
		for _, s := range []uint{0, 1, 5, 31, 32, 40} {
			x, s := x, s
			add(fmt.Sprintf("g_U32 %d %d", x, s), func() string { return fmt.Sprint(sample.U32(x, s)) })
		}
	}
	for _, p := range []bool{false, true} {
		for _, q := range []bool{false, true} {
			p, q := p, q
			add(fmt.Sprintf("g_Bools %s %s", bs(p), bs(q)), func() string { return bs(sample.Bools(p, q)) })
		}
	}
	slices := [][]int{nil, {5}, {3, -1, 4}, {1, 2, 0, 9}, {-3, 7, 7, 2, 0, 5, 1}, {9, 8, 7, 6, 5, 4, 3, 2, 1, 0}}
	for _, s := range slices {
		s := s
		add("g_Reverse 200 "+ls(s), func() string { return ls(sample.Reverse(append([]int(nil), s...))) })
		add("g_SumPositiveUntilZero 200 "+ls(s), func() string { return zs(sample.SumPositiveUntilZero(s)) })
		add("g_CountRange 200 "+ls(s), func() string { return zs(sample.CountRange(s)) })
		for _, i := range []int{-1, 0, 1, 2, 3, 6, 7, 10, 11} {
			i := i
			add(fmt.Sprintf("g_Safe %s %s", ls(s), zs(i)), func() string { return zs(sample.Safe(s, i)) })
			add(fmt.Sprintf("g_FindFirst 200 %s %s", ls(s), zs(i)), func() string { return zs(sample.FindFirst(s, i)) })
			add(fmt.Sprintf("g_CopyInto %s %s", zs(i), ls(s)), func() string {
				d, k, m := sample.CopyInto(i, s)
				return fmt.Sprintf("(%s, %s, %s)", ls(d), zs(k), zs(m))
			})
			add(fmt.Sprintf("g_Script 200 %s %s", zs(i), ls(s)), func() string {
				k, a, b, ok, n := sample.Script(i, s)
				return fmt.Sprintf("(%s, %s, %s, %s, %s)", zs(k), zs(a), zs(b), bs(ok), zs(n))
			})
			for _, j := range []int{-1, 0, 2, 3, 7, 10} {
				j := j
				// exact-capacity copy: the model has cap = len
				add(fmt.Sprintf("g_Window %s %s %s", ls(s), zs(i), zs(j)), func() string {
					a, b := sample.Window(append(make([]int, 0, len(s)), s...), i, j)
					return "(" + zs(a) + ", " + zs(b) + ")"
				})
				add(fmt.Sprintf("g_Swap %s %s %s", ls(s), zs(i), zs(j)), func() string { return ls(sample.Swap(s, i, j)) })
			}
		}
	}
	// trans_func.go: function values are given on the Coq side as lambdas / generated functions
	lt, gt := "(fun a b => a <? b)", "(fun a b => b <? a)"
	ltF, gtF := func(a, b int) bool { return a < b }, func(a, b int) bool { return a > b }
	for _, s := range slices {
		s := s
		cp := func() []int { return append([]int(nil), s...) }
		for _, o := range []struct {
			coq string
			f   func(int, int) bool
		}{{lt, ltF}, {gt, gtF}} {
			o := o
			add(fmt.Sprintf("g_Bubble 200 %s %s g_Exch", ls(s), o.coq), func() string {
				c := cp()
				n := sample.Bubble(c, o.f, sample.Exch[int])
				return "(" + ls(c) + ", " + zs(n) + ")"
			})
			add(fmt.Sprintf("g_DryRun 200 %s %s", ls(s), o.coq), func() string {
				c := cp()
				n := sample.DryRun(c, o.f)
				return "(" + ls(c) + ", " + zs(n) + ")"
			})
			add(fmt.Sprintf("g_Sorter_Sort 200 (mkSorter %s %s 5)", ls(s), o.coq), func() string {
				c := cp()
				n := sample.SortWith(c, o.f, 5)
				return fmt.Sprintf("(mkSorter %s %s %s, %s)", ls(c), o.coq, zs(n), zs(n))
			})
			add(fmt.Sprintf("g_Sorter_Min 200 (mkSorter %s %s 0)", ls(s), o.coq), func() string {
				m, ok := sample.MinWith(cp(), o.f)
				return "(" + zs(m) + ", " + bs(ok) + ")"
			})
			for _, a := range []int{-1, 4} {
				a := a
				add(fmt.Sprintf("g_FirstLast %s %s %s 3", ls(s), o.coq, zs(a)), func() string { return bs(sample.FirstLast(s, o.f, a, 3)) })
			}
		}
		add("g_Pass 200 "+ls(s)+" g_ExchIf", func() string {
			c := cp()
			n := sample.Pass(c, sample.ExchIf)
			return "(" + ls(c) + ", " + zs(n) + ")"
		})
		for _, i := range []int{-1, 0, 2, 6, 10} {
			for _, j := range []int{0, 1, 7} {
				i, j := i, j
				add(fmt.Sprintf("g_Exch %s %s %s", ls(s), zs(i), zs(j)), func() string { c := cp(); sample.Exch(c, i, j); return ls(c) })
				add(fmt.Sprintf("g_ExchIf %s %s %s", ls(s), zs(i), zs(j)), func() string {
					c := cp()
					b := sample.ExchIf(c, i, j)
					return "(" + ls(c) + ", " + bs(b) + ")"
				})
			}
		}
	}
	ex = append(ex, "Example fuel4 : g_Bubble 3 [3; 2; 1] (fun a b => a <? b) g_Exch = NoFuel.\nProof. vm_compute. reflexivity. Qed.")
	// [BitsCode] uint64 words: int(u >> c), math/bits.OnesCountN, struct literals
	words := []uint64{0, 1, 63, 64, 65, 4095, 1 << 31, 1<<32 - 1, 1 << 32, 0x5555555555555555, 1 << 63, 1<<64 - 1, 1<<64 - 64}
	for _, a := range words {
		a := a
		add(fmt.Sprintf("g_WordIdx %d", a), func() string {
			p, q, r, h := sample.WordIdx(uint(a))
			return fmt.Sprintf("(%d, %d, %d, %d)", p, q, r, h)
		})
		for _, b := range words {
			b := b
			add(fmt.Sprintf("g_Pop64 %d %d", a, uint32(b)), func() string { return zs(sample.Pop64(a, uint32(b))) })
			for _, k := range []uint{0, 5, 63, 64, 127, 128, 300} {
				k := k
				add(fmt.Sprintf("g_WordsScript 200 %d %d %d", a, b, k), func() string {
					n, l, last, wl := sample.WordsScript(a, b, k)
					return fmt.Sprintf("(%d, %d, %d, %d)", n, l, last, wl)
				})
			}
		}
	}
	// [BitsCode] named results
	for _, a := range words {
		a := a
		add(fmt.Sprintf("g_Locate %d", a), func() string { i, m := sample.Locate(uint(a)); return fmt.Sprintf("(%d, %d)", i, m) })
	}
	for _, sl := range slices {
		sl := sl
		for _, lim := range []int{-5, 0, 3, 10, 100} {
			lim := lim
			add(fmt.Sprintf("g_NamedSum 200 %s %s", ls(sl), zs(lim)), func() string { t, c := sample.NamedSum(sl, lim); return "(" + zs(t) + ", " + bs(c) + ")" })
		}
	}
	// out of fuel is its own value
	ex = append(ex, "Example fuel1 : g_SumTo 5 10 = NoFuel.\nProof. vm_compute. reflexivity. Qed.")
	ex = append(ex, "Example fuel2 : g_SumTo 11 10 = Ret 55.\nProof. vm_compute. reflexivity. Qed.")
	ex = append(ex, "Example fuel3 : g_Script 2 10 [1; 2; 3] = NoFuel.\nProof. vm_compute. reflexivity. Qed.")

	dir := t.TempDir()
	os.MkdirAll(filepath.Join(dir, "Lib"), 0755)
	os.MkdirAll(filepath.Join(dir, "Gen"), 0755)
	sem, err := os.ReadFile("../coq/Lib/GoSem.v")
	if err != nil {
		t.Fatal(err)
	}
	os.WriteFile(filepath.Join(dir, "Lib", "GoSem.v"), sem, 0644)
	text := "From Coq Require Import List ZArith Bool.\nImport ListNotations.\nFrom V Require Import Lib.GoSem.\nImport GoNotations.\nLocal Open Scope Z_scope.\n" +
		body + "\n" + strings.Join(ex, "\n") + "\n"
	os.WriteFile(filepath.Join(dir, "Gen", "Sample.v"), []byte(text), 0644)
	if keep := os.Getenv("GO2V_KEEP"); keep != "" {
		os.WriteFile(keep, []byte(text), 0644)
	}
	for _, f := range []string{"Lib/GoSem.v", "Gen/Sample.v"} {
		cmd := exec.Command("timeout", "600", "coqc", "-Q", ".", "V", f)
		cmd.Dir = dir
		if out, err := cmd.CombinedOutput(); err != nil {
			t.Fatalf("coqc %s: %v\n%s", f, err, out)
		}
	}
	t.Logf("%d examples agree", len(ex))
}

// everything outside the subset must be refused with a position
func TestTranslatorFailsClosed(t *testing.T) {
	for _, fn := range []string{"Alias", "Closure", "Recursive", "Goroutine", "MapUse", "WriteParam", "Labelled", "PtrArith", "Defer", "Box.OrderDep", "LitAlias", "BigConv"} {
		_, err := Translate(".", TransSpec{Dir: "internal/refused", Structs: []string{"Box", "Pack"}, Funcs: []string{fn}})
		if err == nil || !strings.Contains(err.Error(), "unsupported") || !strings.Contains(err.Error(), "refused.go:") {
			t.Errorf("%s: expected `unsupported: ... at file:line`, got %v", fn, err)
		} else {
			t.Logf("%s: %v", fn, err)
		}
	}
	// with in-out slice parameters switched on (trans_func.go)
	for _, fn := range []string{"EscWrite", "TwiceSame", "UsePure", "Getter", "NilFunc", "both3", "Alias"} {
		_, err := Translate(".", TransSpec{Dir: "internal/refused", Structs: []string{"Box"}, Funcs: []string{fn}, InOut: true})
		if err == nil || !strings.Contains(err.Error(), "unsupported") || !strings.Contains(err.Error(), "refused.go:") {
			t.Errorf("%s (InOut): expected `unsupported: ... at file:line`, got %v", fn, err)
		} else {
			t.Logf("%s (InOut): %v", fn, err)
		}
	}
	// ... and WriteParam, refused without it, is translated with it: the parameter comes back
	if out, err := Translate(".", TransSpec{Dir: "internal/refused", Funcs: []string{"WriteParam"}, InOut: true}); err != nil ||
		!strings.Contains(out, "Definition g_WriteParam (s : list Z) : M (list Z)") {
		t.Errorf("WriteParam (InOut): %v\n%s", err, out)
	}
}
