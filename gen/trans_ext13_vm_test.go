// Kernel-evaluated sample for [ext13]: operation sequences are run natively on a copy of listz/singly_list.go (a scratch
// module built by `go run`) and through the GENERATED functions by coqc (vm_compute); lengths, the value sequence read by
// walking head/next, and every observed result (Get / Remove / RemoveFront -> the node's value or -1 for nil) must agree.
package main

import (
	"os"
	"os/exec"
	"path/filepath"
	"strings"
	"testing"
)

const driver13 = `package main

import (
	"fmt"
	"strings"
)

type op struct {
	k    int
	a, b int
}

func obs(n *SNode[int]) int {
	if n == nil {
		return -1
	}
	return n.Value
}
func z(v int) string {
	if v < 0 {
		return fmt.Sprintf("(%d)", v)
	}
	return fmt.Sprint(v)
}
func zl(vs []int) string {
	if len(vs) == 0 {
		return "(@nil Z)"
	}
	s := make([]string, len(vs))
	for i, v := range vs {
		s[i] = z(v)
	}
	return "[" + strings.Join(s, "; ") + "]"
}

func main() {
	seed := uint32(12345)
	rnd := func(n int) int { seed = seed*1664525 + 1013904223; return int(seed>>16) % n }
	for c := 0; c < 60; c++ {
		l := NewSingly[int]()
		var coq []string
		var seen []int
		nobs := 0
		n := 3 + rnd(10)
		for s := 0; s < n; s++ {
			k, a, b, v := rnd(8), rnd(7)-1, rnd(7)-1, rnd(100)
			o := func(call string, r *SNode[int]) {
				nobs++
				coq = append(coq, fmt.Sprintf("do '(h, (l, p)) <- %s;; do o%d <- obs h p;;", call, nobs))
				seen = append(seen, obs(r))
			}
			u := func(call string) { coq = append(coq, fmt.Sprintf("do '(h, (l, _)) <- %s;;", call)) }
			switch k {
			case 0:
				l.PushBack(v)
				u(fmt.Sprintf("g_SList_PushBack h l %d", v))
			case 1:
				l.PushFront(v)
				u(fmt.Sprintf("g_SList_PushFront h l %d", v))
			case 2:
				l.InsertAt(a, v)
				u(fmt.Sprintf("g_SList_InsertAt 40 h l %s %d", z(a), v))
			case 3:
				o(fmt.Sprintf("g_SList_Remove 40 h l %s", z(a)), l.Remove(a))
			case 4:
				o("g_SList_RemoveFront h l", l.RemoveFront())
			case 5:
				l.Swap(a, b)
				u(fmt.Sprintf("g_SList_Swap 40 h l %s %s", z(a), z(b)))
			case 6:
				o(fmt.Sprintf("g_SList_Get 40 h l %s", z(a)), l.Get(a))
			case 7:
				o("g_SList_Back h l", l.Back())
			}
		}
		var vals []int
		for e := l.Front(); e != nil; e = e.Next() {
			vals = append(vals, e.Value)
		}
		os := make([]string, nobs)
		for i := range os {
			os[i] = fmt.Sprintf("o%d", i+1)
		}
		ol := "(@nil Z)"
		if nobs > 0 {
			ol = "[" + strings.Join(os, "; ") + "]"
		}
		fmt.Printf("Example ex%d : (let h := h0 in let l := zero_SList in\n  %s\n  Ret (SList_len l, vals 40 h (SList_head l), %s)) = Ret (%d, %s, %s).\nProof. vm_compute. reflexivity. Qed.\n",
			c, strings.Join(coq, "\n  "), ol, l.Len(), zl(vals), zl(seen))
	}
}
`

func TestExt13AgainstNativeGo(t *testing.T) {
	if _, err := exec.LookPath("coqc"); err != nil {
		t.Skip("coqc not found")
	}
	src, err := os.ReadFile("/repo/listz/singly_list.go")
	if err != nil {
		t.Skip("no /repo")
	}
	body, err := genSListCode("/repo")
	if err != nil {
		t.Fatal(err)
	}
	dir := t.TempDir()
	mod := filepath.Join(dir, "drv")
	os.MkdirAll(mod, 0755)
	os.WriteFile(filepath.Join(mod, "go.mod"), []byte("module drv13\n\ngo 1.21\n"), 0644)
	os.WriteFile(filepath.Join(mod, "singly_list.go"), []byte(strings.Replace(string(src), "package listz", "package main", 1)), 0644)
	os.WriteFile(filepath.Join(mod, "main.go"), []byte(driver13), 0644)
	cmd := exec.Command("go", "run", ".")
	cmd.Dir = mod
	cmd.Env = append(os.Environ(), "GOFLAGS=-mod=mod", "GOPROXY=off", "GOSUMDB=off", "GOTOOLCHAIN=local")
	ex, err := cmd.Output()
	if err != nil {
		t.Fatalf("native driver: %v", err)
	}
	for _, d := range []string{"Lib", "Gen"} {
		os.MkdirAll(filepath.Join(dir, d), 0755)
	}
	libs := []string{"Lib/GoSem.v", "Lib/GoSemHeap.v"}
	for _, l := range libs {
		b, err := os.ReadFile("../coq/" + l)
		if err != nil {
			t.Fatal(err)
		}
		os.WriteFile(filepath.Join(dir, l), b, 0644)
	}
	text := "From Coq Require Import List ZArith.\nImport ListNotations.\n" + body + `
Definition h0 : Heap := mkHeap (fun _ => 0) (fun _ => None) 2.
Definition obs (h : Heap) (p : ptr) : M Z := match p with None => Ret (-1) | Some x => Ret (SNode_Value h x) end.
Fixpoint vals (fuel : nat) (h : Heap) (p : ptr) : list Z :=
  match fuel, p with S f, Some x => SNode_Value h x :: vals f h (SNode_next h x) | _, _ => [] end.
` + string(ex)
	os.WriteFile(filepath.Join(dir, "Gen", "SampleExt13.v"), []byte(text), 0644)
	if keep := os.Getenv("GO2V_KEEP13"); keep != "" {
		os.WriteFile(keep, []byte(text), 0644)
	}
	for _, f := range append(libs, "Gen/SampleExt13.v") {
		c := exec.Command("timeout", "600", "coqc", "-Q", ".", "V", f)
		c.Dir = dir
		if out, err := c.CombinedOutput(); err != nil {
			t.Fatalf("coqc %s: %v\n%s", f, err, out)
		}
	}
	t.Logf("%d operation sequences agree", strings.Count(string(ex), "Example "))
}
