// Area Slicez (C14): the numeric constants and comparison shape of FlexSlice.shrink and FlexSlice.Prepend
// (slicez/flex.go) -> coq/Gen/Slicez.v.  Model/Flex.v is written over these names; a changed constant re-checks
// every FlexSlice proof.  Anything but the expected statement shape fails closed.
package main

import (
	"fmt"
	"go/ast"
	"go/token"
	"strings"
)

// opsOf lists the binary / assignment / inc-dec operators of a function body in source order.
func opsOf(fd *ast.FuncDecl) []string {
	var out []string
	ast.Inspect(fd.Body, func(n ast.Node) bool {
		switch x := n.(type) {
		case *ast.BinaryExpr:
			out = append(out, x.Op.String())
		}
		return true
	})
	return out
}

func init() {
	Register(Area{Name: "Slicez", Gen: func(repo string) (string, error) {
		p, err := Load(repo, "slicez")
		if err != nil {
			return "", err
		}
		var sb strings.Builder
		// ---- shrink:  if cap <= K { return }; if len <= cap/D { newCap := len*M; if newCap < K { newCap = K }; make(len, newCap); copy }
		sh := p.Func("FlexSlice.shrink")
		if sh == nil {
			return "", fmt.Errorf("FlexSlice.shrink not found")
		}
		lits := p.IntLits(sh)
		ops := strings.Join(opsOf(sh), " ")
		if len(lits) != 5 || lits[0].Cmp(lits[3]) != 0 || lits[0].Cmp(lits[4]) != 0 {
			return "", fmt.Errorf("FlexSlice.shrink: expected literals K D M K K, found %v", lits)
		}
		if ops != "<= <= / * <" {
			return "", fmt.Errorf("FlexSlice.shrink: expected operators `<= <= / * <`, found `%s`", ops)
		}
		if lits[1].Sign() <= 0 {
			return "", fmt.Errorf("FlexSlice.shrink: divisor %v", lits[1])
		}
		// the copy must take everything: copy(newValues, f.Values)
		copies := 0
		bad := ""
		ast.Inspect(sh.Body, func(n ast.Node) bool {
			if c, ok := n.(*ast.CallExpr); ok {
				if id, ok := c.Fun.(*ast.Ident); ok && id.Name == "copy" {
					copies++
					if len(c.Args) != 2 {
						bad = "copy arity"
					} else if _, ok := c.Args[1].(*ast.SelectorExpr); !ok {
						bad = "copy source is not f.Values"
					}
				}
			}
			return true
		})
		if copies != 1 || bad != "" {
			return "", fmt.Errorf("FlexSlice.shrink: expected one copy(newValues, f.Values) (%d copies; %s)", copies, bad)
		}
		sb.WriteString("(* slicez/flex.go shrink: if cap <= flex_min_cap return; if len <= cap / flex_shrink_div then newCap = max (len * flex_shrink_mul) flex_min_cap *)\n")
		sb.WriteString(CoqZ("flex_min_cap", lits[0]))
		sb.WriteString(CoqZ("flex_shrink_div", lits[1]))
		sb.WriteString(CoqZ("flex_shrink_mul", lits[2]))
		// ---- Prepend: nc := n1 + n2; if c >= nc {in place}; if G*c >= nc { c = G*c } else { c = nc }
		pr := p.Func("FlexSlice.Prepend")
		if pr == nil {
			return "", fmt.Errorf("FlexSlice.Prepend not found")
		}
		pl := p.IntLits(pr)
		pops := strings.Join(opsOf(pr), " ")
		if len(pl) != 2 || pl[0].Cmp(pl[1]) != 0 {
			return "", fmt.Errorf("FlexSlice.Prepend: expected literals G G, found %v", pl)
		}
		if pops != "+ >= >= * *" {
			return "", fmt.Errorf("FlexSlice.Prepend: expected operators `+ >= >= * *`, found `%s`", pops)
		}
		sb.WriteString("(* Prepend: beyond capacity the new capacity is flex_prepend_mul * cap when that is enough, else exactly the new length *)\n")
		sb.WriteString(CoqZ("flex_prepend_mul", pl[0]))
		_ = token.ADD
		return sb.String(), nil
	}})
}
