// Self-test of the stable Record field names (gen/trans_stable.go).
package main

import (
	"fmt"
	"os"
	"os/exec"
	"path/filepath"
	"reflect"
	"strings"
	"testing"

	"verifgen/internal/sample"
)

func TestStableFieldsMapping(t *testing.T) {
	exp := []ExpectField{{"values", "[]item[T]"}, {"cap", "uint32"}, {"mask", "uint32"}, {"head", "uint32"}, {"tail", "uint32"}}
	// renamed values->slots, cap->size and reordered: unchanged names are matched by name, the rest by type
	order, names, ok := stableFields([]string{"tail", "head", "size", "mask", "slots"},
		[]string{"uint32", "uint32", "uint32", "uint32", "[]item[T]"}, exp)
	if !ok || !reflect.DeepEqual(order, []int{4, 2, 3, 1, 0}) || !reflect.DeepEqual(names, []string{"values", "cap", "mask", "head", "tail"}) {
		t.Errorf("rename + reorder: %v %v %v", order, names, ok)
	}
	// all names changed: occurrence index among the fields of the same type
	order, _, ok = stableFields([]string{"a", "b", "c", "d", "e"}, []string{"[]item[T]", "uint32", "uint32", "uint32", "uint32"}, exp)
	if !ok || !reflect.DeepEqual(order, []int{0, 1, 2, 3, 4}) {
		t.Errorf("all renamed: %v %v", order, ok)
	}
	// a retyped or added field: the current names are kept
	if _, _, ok = stableFields([]string{"values", "cap", "mask", "head", "tail"}, []string{"[]item[T]", "uint64", "uint32", "uint32", "uint32"}, exp); ok {
		t.Errorf("retyped field must not be mapped")
	}
	if _, _, ok = stableFields([]string{"values", "cap", "mask", "head", "tail", "extra"}, []string{"[]item[T]", "uint32", "uint32", "uint32", "uint32", "int"}, exp); ok {
		t.Errorf("added field must not be mapped")
	}
}

func TestStableNamesAgainstNativeGo(t *testing.T) {
	if _, err := exec.LookPath("coqc"); err != nil {
		t.Skip("coqc not found")
	}
	spec := TransSpec{Dir: "internal/sample", Structs: []string{"Acct"}, Funcs: []string{"Acct.Open", "Acct.Put", "Acct.Sum", "AcctScript"},
		Expect: map[string][]ExpectField{"Acct": {{"items", "[]T"}, {"n", "int"}, {"cap", "int"}, {"label", "T"}}}}
	body, err := Translate(".", spec)
	if err != nil {
		t.Fatal(err)
	}
	want := "Record Acct : Type := mkAcct { Acct_items : list Z; Acct_n : Z; Acct_cap : Z; Acct_label : Z }."
	if !strings.Contains(body, want) {
		t.Fatalf("expected names / order not emitted; want %q in\n%s", want, body[:600])
	}
	// a type multiset that does not match: the current names, as before
	spec.Expect = map[string][]ExpectField{"Acct": {{"items", "[]T"}, {"n", "int"}, {"cap", "uint32"}, {"label", "T"}}}
	if b2, err := Translate(".", spec); err != nil || !strings.Contains(b2, "Record Acct : Type := mkAcct { Acct_tag : Z; Acct_limit : Z; Acct_slots : list Z; Acct_used : Z }.") {
		t.Fatalf("fallback to the current names failed: %v", err)
	}
	var ex []string
	for _, limit := range []int{-1, 0, 1, 2, 5} {
		for _, xs := range [][]int{nil, {4}, {4, 5, 6}, {1, 2, 3, 4, 5, 6, 7}} {
			limit, xs := limit, xs
			ex = append(ex, fmt.Sprintf("Example st%d : g_AcctScript 100 %s %s = %s.\nProof. vm_compute. reflexivity. Qed.", len(ex), zs(limit), ls(xs),
				native(func() string {
					k, s, l, tg := sample.AcctScript(limit, xs)
					return fmt.Sprintf("(%s, %s, %s, %s)", zs(k), zs(s), zs(l), zs(tg))
				})))
		}
	}
	// the state after Open, by the EXPECTED names: limit is the first int (n), used the second (cap)
	ex = append(ex, "Example stf : mmap (fun a => (Acct_n a, Acct_cap a, Acct_label a, Acct_items a)) (g_Acct_Open zero_Acct 9 2) = Ret (2, 0, 9, [0; 0]).\nProof. vm_compute. reflexivity. Qed.")
	dir := t.TempDir()
	os.MkdirAll(filepath.Join(dir, "Lib"), 0755)
	os.MkdirAll(filepath.Join(dir, "Gen"), 0755)
	src, err := os.ReadFile("../coq/Lib/GoSem.v")
	if err != nil {
		t.Fatal(err)
	}
	os.WriteFile(filepath.Join(dir, "Lib", "GoSem.v"), src, 0644)
	text := "From Coq Require Import List ZArith Bool.\nImport ListNotations.\nFrom V Require Import Lib.GoSem.\nImport GoNotations.\nLocal Open Scope Z_scope.\n" +
		body + "\n" + strings.Join(ex, "\n") + "\n"
	os.WriteFile(filepath.Join(dir, "Gen", "StableSample.v"), []byte(text), 0644)
	for _, f := range []string{"Lib/GoSem.v", "Gen/StableSample.v"} {
		cmd := exec.Command("timeout", "600", "coqc", "-Q", ".", "V", f)
		cmd.Dir = dir
		if out, err := cmd.CombinedOutput(); err != nil {
			t.Fatalf("coqc %s: %v\n%s", f, err, out)
		}
	}
	t.Logf("%d examples agree", len(ex))
}
