// Self-test of the [ext:T03] extension (gen/trans_ext03.go): the functions of internal/sample/ext03.go are run natively and
// their translations are evaluated by coqc (vm_compute) on the same arguments and states.
package main

import (
	"fmt"
	"os"
	"os/exec"
	"path/filepath"
	"strings"
	"testing"

	"verifgen/internal/sample"
)

func u64l(s []uint64) string {
	p := make([]string, len(s))
	for i, v := range s {
		p[i] = fmt.Sprint(v)
	}
	return "[" + strings.Join(p, "; ") + "]"
}
func u16l(s []uint16) string {
	p := make([]string, len(s))
	for i, v := range s {
		p[i] = fmt.Sprint(v)
	}
	return "[" + strings.Join(p, "; ") + "]"
}

func TestExt03AgainstNativeGo(t *testing.T) {
	if _, err := exec.LookPath("coqc"); err != nil {
		t.Skip("coqc not found")
	}
	body, err := Translate(".", TransSpec{Dir: "internal/sample", Ext03: true,
		Structs: []string{"Inner", "Outer", "Named", "View", "Arr", "Sorted"},
		Ifaces:  map[string][]string{"Shape": {"Arr", "Twin"}},
		Heads:   []string{"Opaque2.Split"},
		Funcs: []string{"Inner.Put", "Inner.Has", "Outer.Put", "Outer.Promoted", "Outer.Clear", "Outer.Drop", "Outer.Mark", "Twin.Put", "Twin.Has",
			"Twin.Count", "Named.Set", "View.Step", "View.Cur", "View.Has", "Arr.Has", "Arr.Put", "Arr.Promote", "Arr.Delete", "Mid", "FillBuf",
			"Sorted.Insert"}})
	if err != nil {
		t.Fatal(err)
	}
	var ex []string
	add := func(call string, f func() string) {
		ex = append(ex, fmt.Sprintf("Example ex%d : %s = %s.\nProof. vm_compute. reflexivity. Qed.", len(ex), call, native(f)))
	}
	// the accessors of the sample package are unexported: states are built through the exported methods and printed here
	type outerS struct {
		n   int
		set []uint64
	}
	mkOuter := func(s outerS) *sample.Outer {
		o := &sample.Outer{}
		for i, v := range s.set {
			o.Put(i, v)
		}
		o.Put(0, 0)
		if len(s.set) > 0 {
			o.Put(0, s.set[0])
		}
		sample.SetN(o, s.n)
		return o
	}
	pOuter := func(o *sample.Outer) string {
		n, set := sample.OuterState(o)
		return fmt.Sprintf("(mkOuter %s (mkInner %s))", zs(n), u64l(set))
	}
	outers := []outerS{{0, nil}, {1, []uint64{5}}, {3, []uint64{0, 7, 0}}, {-2, []uint64{1, 2, 3, 4, 5}}, {9, []uint64{1 << 63, 0, 1<<64 - 1}}}
	for _, s := range outers {
		s := s
		for _, i := range []int{-1, 0, 1, 2, 4, 5, 7} {
			for _, v := range []uint64{0, 5, 7, 1 << 40} {
				i, v := i, v
				add(fmt.Sprintf("g_Outer_Put %s %s %d", pOuter(mkOuter(s)), zs(i), v), func() string {
					o := mkOuter(s)
					ok := o.Put(i, v)
					return "(" + pOuter(o) + ", " + bs(ok) + ")"
				})
				add(fmt.Sprintf("g_Twin_Put %s %s %d", pOuter(mkOuter(s)), zs(i), v), func() string {
					o := mkOuter(s)
					sh, ok := (*sample.Twin)(o).Put(i, v)
					return "(" + pOuter(o) + ", (Shape_Twin " + pOuter((*sample.Outer)(sh.(*sample.Twin))) + ", " + bs(ok) + "))"
				})
				add(fmt.Sprintf("g_Named_Set (mkNamed (mkInner %s) %s) %s %d", u64l(s.set), zs(s.n), zs(i), v), func() string {
					nm := sample.MkNamed(append([]uint64(nil), s.set...), s.n)
					ok := nm.Set(i, v)
					set, k := sample.NamedState(nm)
					return fmt.Sprintf("(mkNamed (mkInner %s) %s, %s)", u64l(set), zs(k), bs(ok))
				})
			}
			i := i
			add(fmt.Sprintf("g_Outer_Promoted %s %s", pOuter(mkOuter(s)), zs(i)), func() string { return fmt.Sprint(mkOuter(s).Promoted(i)) })
			add(fmt.Sprintf("g_Twin_Has %s %s", pOuter(mkOuter(s)), zs(i)), func() string { return bs((*sample.Twin)(mkOuter(s)).Has(i)) })
			add(fmt.Sprintf("g_View_Step (mkView %s %s)", pOuter(mkOuter(s)), zs(i)), func() string {
				o := mkOuter(s)
				v := sample.MkView(o, i)
				ok := v.Step()
				return fmt.Sprintf("(mkView %s %s, %s)", pOuter(o), zs(sample.ViewPos(v)), bs(ok))
			})
			add(fmt.Sprintf("g_View_Cur (mkView %s %s)", pOuter(mkOuter(s)), zs(i)), func() string { return fmt.Sprint(sample.MkView(mkOuter(s), i).Cur()) })
			add(fmt.Sprintf("g_View_Has (mkView %s %s)", pOuter(mkOuter(s)), zs(i)), func() string { return bs(sample.MkView(mkOuter(s), i).Has()) })
		}
		add(fmt.Sprintf("g_Outer_Clear 99 %s", pOuter(mkOuter(s))), func() string { o := mkOuter(s); o.Clear(); return pOuter(o) })
		add(fmt.Sprintf("g_Outer_Drop %s", pOuter(mkOuter(s))), func() string { o := mkOuter(s); o.Drop(); return pOuter(o) })
		add(fmt.Sprintf("g_Twin_Count %s", pOuter(mkOuter(s))), func() string { return zs((*sample.Twin)(mkOuter(s)).Count()) })
		for _, n := range []uint{0, 1, 63, 64, 130, 200, 319, 320, 4000} {
			n := n
			add(fmt.Sprintf("g_Outer_Mark %s %d", pOuter(mkOuter(s)), n), func() string { o := mkOuter(s); o.Mark(n); return pOuter(o) })
		}
	}
	arrs := [][]uint16{nil, {7}, {1, 2, 3}, {9, 8, 7, 6, 5, 4, 3, 2}, {100, 200, 300, 400, 500, 600, 700, 800, 65535, 1}}
	for _, a := range arrs {
		a := a
		for _, i := range []int{-1, 0, 1, 3, 8, 9, 10, 11} {
			i := i
			add(fmt.Sprintf("g_Arr_Put (mkArr %s) %s 70000", u16l(a), zs(i)), func() string {
				ar := sample.MkArr(append([]uint16(nil), a...))
				sh, ok := ar.Put(i, 70000)
				return fmt.Sprintf("(mkArr %s, (Shape_Arr (mkArr %s), %s))", u16l(sample.ArrVals(ar)), u16l(sample.ArrVals(sh.(*sample.Arr))), bs(ok))
			})
			add(fmt.Sprintf("g_Arr_Delete (mkArr %s) %s", u16l(a), zs(i)), func() string {
				ar := sample.MkArr(append([]uint16(nil), a...))
				ar.Delete(i)
				return fmt.Sprintf("(mkArr %s)", u16l(sample.ArrVals(ar)))
			})
			add(fmt.Sprintf("g_Arr_Has (mkArr %s) %s", u16l(a), zs(i)), func() string { return bs(sample.MkArr(a).Has(i)) })
		}
		for _, bl := range []int{0, 3, 8, 12} {
			bl := bl
			mem := "[0; 0]"
			if len(a) >= 8 {
				r := sample.Reinterp(a)
				mem = u64l(r[:])
			}
			add(fmt.Sprintf("g_Arr_Promote 99 (mkArr %s) 77 %s %s", u16l(a), u16l(make([]uint16, bl)), mem), func() string {
				ar := sample.MkArr(append([]uint16(nil), a...))
				buf := make([]uint16, bl)
				sh, ok := ar.Promote(77, buf)
				st := ""
				switch x := sh.(type) {
				case *sample.Arr:
					st = "Shape_Arr (mkArr " + u16l(sample.ArrVals(x)) + ")"
				case *sample.Twin:
					st = "Shape_Twin " + pOuter((*sample.Outer)(x))
				}
				return fmt.Sprintf("(%s, (%s, %s))", u16l(buf), st, bs(ok)) // Promote does not write its receiver
			})
		}
	}
	for _, lo := range []int{0, 1, 5, 1000, 1 << 40, 1<<62 - 1} {
		for _, hi := range []int{0, 3, 4096, 1 << 62} {
			lo, hi := lo, hi
			add(fmt.Sprintf("g_Mid %s %s", zs(lo), zs(hi)), func() string {
				a, b, c := sample.Mid(lo, hi)
				return fmt.Sprintf("(%s, %s, %s)", zs(a), zs(b), zs(c))
			})
		}
	}
	// the head of Split: the declared variables that are used afterwards, in declaration order: (high, low, n)
	for _, num := range []uint32{0, 1, 65535, 65536, 0xdeadbeef, 0xffffffff} {
		num := num
		add(fmt.Sprintf("g_Opaque2_Split_head %d [4; 5]", num), func() string {
			return fmt.Sprintf("(%d, %d, 3)", uint16(num>>16), uint16(num))
		})
	}
	for _, bl := range []int{0, 1, 2, 3, 6} {
		for _, n := range []int{-1, 0, 2, 5, 9} {
			bl, n := bl, n
			add(fmt.Sprintf("g_FillBuf 99 %s %s", ls(make([]int, bl)), zs(n)), func() string {
				buf := make([]int, bl)
				k := sample.FillBuf(buf, n)
				return "(" + ls(buf) + ", " + zs(k) + ")"
			})
		}
	}
	for _, s := range [][]int{nil, {5}, {1, 3, 5, 7}, {2, 2, 2}, {-5, 0, 5, 10, 15, 20, 25}} {
		for _, x := range []int{-9, 0, 2, 3, 6, 30} {
			s, x := s, x
			add(fmt.Sprintf("g_Sorted_Insert 99 (mkSorted %s) %s", ls(s), zs(x)), func() string {
				so := sample.MkSorted(append([]int(nil), s...))
				p := so.Insert(x)
				return fmt.Sprintf("(mkSorted %s, %s)", ls(sample.SortedVals(so)), zs(p))
			})
		}
	}

	dir := t.TempDir()
	os.MkdirAll(filepath.Join(dir, "Lib"), 0755)
	os.MkdirAll(filepath.Join(dir, "Gen"), 0755)
	sem, err := os.ReadFile("../coq/Lib/GoSem.v")
	if err != nil {
		t.Fatal(err)
	}
	os.WriteFile(filepath.Join(dir, "Lib", "GoSem.v"), sem, 0644)
	text := "From Coq Require Import List ZArith Bool.\nImport ListNotations.\nFrom V Require Import Lib.GoSem.\nImport GoNotations.\nLocal Open Scope Z_scope.\n" +
		body + "\n" + strings.Join(ex, "\n") + "\n"
	os.WriteFile(filepath.Join(dir, "Gen", "SampleExt03.v"), []byte(text), 0644)
	if keep := os.Getenv("GO2V_KEEP03"); keep != "" {
		os.WriteFile(keep, []byte(text), 0644)
	}
	for _, f := range []string{"Lib/GoSem.v", "Gen/SampleExt03.v"} {
		cmd := exec.Command("timeout", "600", "coqc", "-Q", ".", "V", f)
		cmd.Dir = dir
		if out, err := cmd.CombinedOutput(); err != nil {
			t.Fatalf("coqc %s: %v\n%s", f, err, out)
		}
	}
	t.Logf("%d examples agree", len(ex))
}

// outside the extended subset: refused with a position
func TestExt03FailsClosed(t *testing.T) {
	spec := func(fn string) TransSpec {
		return TransSpec{Dir: "internal/refused", Ext03: true, Structs: []string{"In", "Out", "Peek"}, Ifaces: map[string][]string{"Thing": {"Out"}}, Funcs: []string{fn}}
	}
	for _, fn := range []string{"Peek.Poke", "Peek.PokeCall", "NilView", "IfaceVar", "Out.CallIface", "CallFill", "LitShares", "BigConv03"} {
		_, err := Translate(".", spec(fn))
		if err == nil || !strings.Contains(err.Error(), "unsupported") || !strings.Contains(err.Error(), "ext03.go:") {
			t.Errorf("%s: expected `unsupported: ... at file:line`, got %v", fn, err)
		} else {
			t.Logf("%s: %v", fn, err)
		}
	}
	// without Ext03 the nested struct is refused as before
	if _, err := Translate(".", TransSpec{Dir: "internal/refused", Structs: []string{"In", "Out"}, Funcs: []string{"Out.Size"}}); err == nil || !strings.Contains(err.Error(), "unsupported") {
		t.Errorf("nested struct without Ext03: expected a refusal, got %v", err)
	}
}
