// go2v: environments and expressions.
package main

import (
	"fmt"
	"go/ast"
	"go/constant"
	"go/token"
	"go/types"
	"strings"
)

type varInfo struct {
	obj   types.Object
	name  string
	ty    gtype
	place *placeInfo // [seq] ty.k == kPlace
	path  *spath     // [ext:T03] a receiver that is a path (trans_ext03.go), not a variable
}

// env: the variables in scope (declaration order) and the slice variables that may share their backing array with
// another one (in-place writes to those are refused: aliasing is not modelled).
type env struct {
	vars   []varInfo
	shared map[string]bool
}

func (e *env) lookup(o types.Object) *varInfo {
	for i := len(e.vars) - 1; i >= 0; i-- {
		if e.vars[i].obj == o {
			return &e.vars[i]
		}
	}
	return nil
}
func (e *env) with(v varInfo) *env {
	n := &env{vars: append(append([]varInfo{}, e.vars...), v), shared: e.shared}
	return n
}
func (e *env) share(keys ...string) *env {
	m := map[string]bool{}
	for k := range e.shared {
		m[k] = true
	}
	for _, k := range keys {
		if k != "" {
			m[k] = true
		}
	}
	return &env{vars: e.vars, shared: m}
}
func (e *env) unshare(key string) *env {
	if !e.shared[key] {
		return e
	}
	m := map[string]bool{}
	for k := range e.shared {
		if k != key {
			m[k] = true
		}
	}
	return &env{vars: e.vars, shared: m}
}

// fctx: per-function translation state.
type fctx struct {
	t         *Translator
	fi        *funcInfo
	used      map[string]bool
	ntemp     int
	tailParam string              // [seq] the parameter standing for a timed tail
	nilErr    map[*ast.Ident]bool // [ext:T20] occurrences of nil that stand for the nil error
	x07       *fstate07           // [ext:T07] parents, views (trans_ext07.go)
	extra03   []string            // [ext:T03] extra parameters (memory read through unsafe.Pointer)
	notes03   []string            // [ext:T03] comment lines for the generated definition
	inRet     int                 // [BitsCode] > 0 while the operands of a `return` are translated (struct literals may then hold named slices)
}

func (c *fctx) fresh(prefix string) string {
	c.ntemp++
	return fmt.Sprintf("%s'%d", prefix, c.ntemp)
}

// declare gives a Go variable its Gallina name (unique per declared object inside one function).
func (c *fctx) declare(e *env, o types.Object, ty gtype) (*env, string) {
	base := o.Name()
	if base == "_" || base == "" {
		base = "x'"
	}
	name := base
	for i := 1; c.used[name] || c.t.global[name]; i++ {
		name = fmt.Sprintf("%s_%d", base, i)
	}
	c.used[name] = true
	return e.with(varInfo{obj: o, name: name, ty: ty}), name
}

// ---- aliasing keys ------------------------------------------------------------------------------

// sliceKey names the storage of a slice-typed lvalue: "name" or "name.field" ("" when it is not a plain variable / field).
func (c *fctx) sliceKey(e ast.Expr, en *env) string {
	switch x := ast.Unparen(e).(type) {
	case *ast.Ident:
		if o := c.t.info.Uses[x]; o != nil {
			if v := en.lookup(o); v != nil {
				return v.name
			}
		}
		if o := c.t.info.Defs[x]; o != nil {
			if v := en.lookup(o); v != nil {
				return v.name
			}
		}
	case *ast.SelectorExpr:
		if k := c.key03(x, en); k != "" { // [ext:T03] nested / promoted fields
			return k
		}
		if id, ok := ast.Unparen(x.X).(*ast.Ident); ok {
			if o := c.t.info.Uses[id]; o != nil {
				if v := en.lookup(o); v != nil && v.ty.k == kStruct {
					return v.name + "." + x.Sel.Name
				}
			}
		}
	}
	return ""
}

// aliasSource: the storage whose backing array the value of e shares ("" = a fresh or unknown-free value).
func (c *fctx) aliasSource(e ast.Expr, en *env) (string, bool) {
	switch x := ast.Unparen(e).(type) {
	case *ast.Ident, *ast.SelectorExpr:
		if k := c.sliceKey(e, en); k != "" {
			return k, true
		}
	case *ast.SliceExpr:
		return c.aliasSource(x.X, en)
	case *ast.IndexExpr: // [ext:T08] an element of a [][]byte shares with the table
		if tv, ok := c.t.info.Types[x.X]; ok && tv.Type != nil {
			if g, ok := c.t.type08(tv.Type, x); ok && g.nest {
				return c.aliasSource(x.X, en)
			}
		}
	case *ast.CallExpr:
		if c.freshConv17(x) { // [ext:T17] []rune(s) allocates a new array
			return "", false
		}
		if id, ok := ast.Unparen(x.Fun).(*ast.Ident); ok {
			if b, ok := c.t.info.Uses[id].(*types.Builtin); ok {
				switch b.Name() {
				case "append":
					return c.aliasSource(x.Args[0], en)
				case "make":
					return "", false
				}
			}
		}
		if a := c.t.identArg09(x); a != nil { // [ext:T09] an identity call shares with its argument
			return c.aliasSource(a, en)
		}
		return "?call", true // a slice returned by a call may share with anything the callee saw
	}
	return "", false
}

func (c *fctx) checkWritable(key string, en *env, at ast.Node) {
	c.viewCheck07(key, en, at) // [ext:T07] results of append-style calls that may be views of this variable must be dead
	if key == "" {
		c.t.fail(at, "in-place write to a slice that is not a variable or a field")
	}
	if en.shared[key] {
		c.t.fail(at, "in-place write to slice %s, which may share its array with another variable (aliasing is not modelled)", key)
	}
}

// ---- constants ----------------------------------------------------------------------------------

func zlit(s string) string {
	if strings.HasPrefix(s, "-") {
		return "(" + s + ")"
	}
	return s
}

func (c *fctx) constTerm(e ast.Expr) (string, bool) {
	tv, ok := c.t.info.Types[e]
	if !ok || tv.Value == nil {
		return "", false
	}
	switch tv.Value.Kind() {
	case constant.Int:
		return zlit(tv.Value.ExactString()), true
	case constant.Bool:
		if constant.BoolVal(tv.Value) {
			return "true", true
		}
		return "false", true
	case constant.String: // [ext:T20]
		return c.strConst20(e, constant.StringVal(tv.Value))
	}
	return "", false
}

func (c *fctx) constInt(e ast.Expr) (constant.Value, bool) {
	tv, ok := c.t.info.Types[e]
	if ok && tv.Value != nil && tv.Value.Kind() == constant.Int {
		return tv.Value, true
	}
	return nil, false
}

func (c *fctx) builtin(call *ast.CallExpr) string {
	if id, ok := ast.Unparen(call.Fun).(*ast.Ident); ok {
		if b, ok := c.t.info.Uses[id].(*types.Builtin); ok {
			return b.Name()
		}
	}
	return ""
}

func (c *fctx) isConversion(call *ast.CallExpr) bool {
	tv, ok := c.t.info.Types[call.Fun]
	return ok && tv.IsType()
}

// shiftCountSafe: the count cannot be negative at run time (constant or unsigned type).
func (c *fctx) shiftCountSafe(e ast.Expr) bool {
	if v, ok := c.constInt(e); ok {
		return constant.Sign(v) >= 0
	}
	tv := c.t.info.Types[e]
	if b, ok := tv.Type.Underlying().(*types.Basic); ok {
		return b.Info()&types.IsUnsigned != 0
	}
	return false
}

// pure: evaluating e cannot panic, loop or assign (decides whether && / || need their short-circuit form).
func (c *fctx) pure(e ast.Expr) bool {
	if _, ok := c.constTerm(e); ok {
		return true
	}
	switch x := e.(type) {
	case *ast.Ident:
		return true
	case *ast.ParenExpr:
		return c.pure(x.X)
	case *ast.SelectorExpr:
		return c.pure(x.X)
	case *ast.UnaryExpr:
		return x.Op != token.AND && x.Op != token.ARROW && c.pure(x.X)
	case *ast.BinaryExpr:
		if !c.pure(x.X) || !c.pure(x.Y) {
			return false
		}
		switch x.Op {
		case token.QUO, token.REM:
			v, ok := c.constInt(x.Y)
			return ok && constant.Sign(v) != 0
		case token.SHL, token.SHR:
			return c.shiftCountSafe(x.Y)
		}
		return true
	case *ast.CallExpr:
		b := c.builtin(x)
		pureFn := false
		if c.t.funcValueCall(x) != nil { // a function value without slice parameters is a total pure function
			g := c.t.exprType(x.Fun)
			pureFn = g.k == kFunc && g.fn.pure && c.pure(x.Fun)
		}
		if b == "len" || b == "cap" || b == "min" || b == "max" || b == "append" || c.isConversion(x) || pureFn {
			for _, a := range x.Args {
				if !c.pure(a) {
					return false
				}
			}
			return true
		}
	}
	return false
}

// ---- expressions --------------------------------------------------------------------------------

func (c *fctx) wrapIf(g gtype, term string) string {
	if g.k == kUint {
		return fmt.Sprintf("(wrap %d %s)", g.bits, term)
	}
	if g.k == kInt && g.bits > 0 { // [ext:T20] intN under TransSpec.WrapSigned
		return fmt.Sprintf("(swrap %d %s)", g.bits, term)
	}
	return term
}

// structVar: e must be a variable of struct (or pointer-to-struct) type.
func (c *fctx) structVar(e ast.Expr, en *env) *varInfo {
	if id, ok := ast.Unparen(e).(*ast.Ident); ok {
		if o := c.t.info.Uses[id]; o != nil {
			if v := en.lookup(o); v != nil && v.ty.k == kStruct {
				return v
			}
		}
	}
	c.t.fail(e, "%s used as a struct value (only variables of a translated struct type are supported)", nodeDesc(e))
	return nil
}

// expr translates e; k receives a pure Gallina term for its value.
func (c *fctx) expr(e ast.Expr, en *env, k func(string) string) string {
	if s, ok := c.constTerm(e); ok {
		return k(s)
	}
	t := c.t
	switch x := e.(type) {
	case *ast.ParenExpr:
		return c.expr(x.X, en, k)
	case *ast.Ident:
		if x.Name == "nil" {
			if _, ok := t.info.Uses[x].(*types.Nil); ok {
				if c.nilErr[x] { // [ext:T20] the nil error (marked by its context: go/types leaves nil untyped)
					return k("0")
				}
				return k("[]")
			}
		}
		o := t.info.Uses[x]
		if o == nil {
			o = t.info.Defs[x]
		}
		if v := en.lookup(o); v != nil {
			if (v.ty.k == kStruct && v.ty.ptr) || v.ty.k == kPlace {
				t.fail(x, "pointer %s used as a value", x.Name)
			}
			return k(v.name)
		}
		if fn := t.funcValueRef(x); fn != nil { // a function of the package used as a value (trans_func.go)
			return k(c.funcValueTerm(fn, x))
		}
		if s, ok := c.sentinel20(x, o); ok { // [ext:T20] package-level `var ErrX = errors.New("...")`, never assigned
			c.sentinelClash15(x) // [ext:T15]
			return k(s)
		}
		if s, ok := c.table07(x, o); ok { // [ext:T07] package-level `var t = []byte{...}` that nothing writes
			return k(s)
		}
		t.fail(x, "identifier %s (not a local variable, parameter or constant)", x.Name)
	case *ast.SelectorExpr:
		sel := t.info.Selections[x]
		if s, ok := c.foreign15(x); ok { // [ext:T15] hex.ErrLength: a sentinel of an imported package
			return k(s)
		}
		if s, ok := c.selector09(x); ok { // [ext:T09] rand.Reader: a variable of a foreign package, a field of the Record
			return k(s)
		}
		if sel == nil || sel.Kind() != types.FieldVal {
			t.fail(x, "selector %s", x.Sel.Name)
		}
		if s, ok := c.seqSelector(x, en, k); ok { // [seq] h.f, s[i].f
			return s
		}
		if s, ok := c.selector03(x, en, k); ok { // [ext:T03] b.Bitmap.set, promoted fields, (*T)(p).f
			return s
		}
		v := c.structVar(x.X, en)
		t.exprType(x)
		return k(fmt.Sprintf("(%s_%s %s)", v.ty.st.name, v.ty.st.coqField(x.Sel.Name), v.name)) // [stable]
	case *ast.UnaryExpr:
		g := t.exprType(x)
		switch x.Op {
		case token.NOT:
			return c.expr(x.X, en, func(a string) string { return k("(negb " + a + ")") })
		case token.SUB:
			return c.expr(x.X, en, func(a string) string { return k(c.wrapIf(g, "(- "+a+")")) })
		case token.ADD:
			return c.expr(x.X, en, k)
		case token.XOR:
			return c.expr(x.X, en, func(a string) string { return k(c.wrapIf(g, "(Z.lnot "+a+")")) })
		}
		t.fail(x, "unary operator %s", x.Op)
	case *ast.BinaryExpr:
		return c.binary(x, en, k)
	case *ast.IndexExpr:
		if id, ok := ast.Unparen(x.X).(*ast.Ident); ok { // f[T] used as a value (trans_func.go)
			if fn := t.funcValueRef(id); fn != nil {
				return k(c.funcValueTerm(fn, x))
			}
		}
		if g := t.exprType(x.X); g.k != kSlice || g.elem != nil { // [seq] a whole struct element is not a value
			t.fail(x, "index expression on a non-slice (or a struct element used as a value)")
		}
		t.exprType(x)
		return c.expr(x.X, en, func(a string) string {
			return c.expr(x.Index, en, func(i string) string {
				v := c.fresh("v")
				return fmt.Sprintf("do %s <- %s %s %s;;\n%s", v, getFn08(t.exprType(x.X)), a, i, k(v)) // [ext:T08] m_getA on [][]byte
			})
		})
	case *ast.SliceExpr:
		if x.Slice3 {
			t.fail(x, "3-index slice expression")
		}
		if g := t.exprType(x.X); g.k != kSlice || g.elem != nil || g.nest { // [ext:T08] nest
			t.fail(x, "slice expression on a non-slice (or on a slice of structs)")
		}
		return c.expr(x.X, en, func(a string) string {
			lo := func(k2 func(string) string) string {
				if x.Low == nil {
					return k2("0")
				}
				return c.expr(x.Low, en, k2)
			}
			hi := func(k2 func(string) string) string {
				if x.High == nil {
					return k2("(zlen " + a + ")")
				}
				return c.expr(x.High, en, k2)
			}
			return lo(func(l string) string {
				return hi(func(h string) string {
					v := c.fresh("v")
					return fmt.Sprintf("do %s <- m_slice %s %s %s;;\n%s", v, a, l, h, k(v))
				})
			})
		})
	case *ast.CompositeLit: // [ext:T08] []byte{a, b}; [BitsCode] S{f: e, …} of a translated struct; [ext:T03] the same under TransSpec.Ext03
		if tv, ok := t.info.Types[x]; ok && tv.Type != nil {
			if _, isStruct := tv.Type.Underlying().(*types.Struct); isStruct {
				if t.spec.Ext03 { // [ext:T03] nested Records, dead-source aliasing rule
					return c.compLit03(x, en, k)
				}
				return c.structLit(x, en, k)
			}
		}
		return c.complit08(x, en, k)
	case *ast.StarExpr: // [ext:T03] *(*[N]uintK)(unsafe.Pointer(&s[i]))
		return c.unsafe03(x, en, k)
	case *ast.CallExpr:
		return c.call(x, en, func(vs []string) string {
			if len(vs) != 1 {
				t.fail(x, "call with %d results used as a value", len(vs))
			}
			return k(vs[0])
		})
	}
	t.fail(e, "expression %s", nodeDesc(e))
	return ""
}

func (c *fctx) binary(x *ast.BinaryExpr, en *env, k func(string) string) string {
	t := c.t
	g := t.exprType(x)
	if x.Op == token.LAND || x.Op == token.LOR {
		return c.expr(x.X, en, func(a string) string {
			if c.pure(x.Y) {
				return c.expr(x.Y, en, func(b string) string {
					if x.Op == token.LAND {
						return k("(andb " + a + " " + b + ")")
					}
					return k("(orb " + a + " " + b + ")")
				})
			}
			// Go's short-circuit evaluation: the right operand may panic (or assign) and is not always evaluated
			rhs := c.expr(x.Y, en, func(b string) string { return "Ret " + b })
			v := c.fresh("b")
			if x.Op == token.LAND {
				return fmt.Sprintf("do %s <- (if %s then (\n%s\n) else Ret false);;\n%s", v, a, rhs, k(v))
			}
			return fmt.Sprintf("do %s <- (if %s then Ret true else (\n%s\n));;\n%s", v, a, rhs, k(v))
		})
	}
	c.markNil20(x.X, x.Y) // [ext:T20] err == nil
	c.errCmp15(x)         // [ext:T15] errors built by fmt.Errorf compare with nil / sentinels only
	c.markNil20(x.Y, x.X)
	return c.expr(x.X, en, func(a string) string {
		return c.expr(x.Y, en, func(b string) string {
			if r, ok := c.arith(x.Op, g, a, b, x.Y, k); ok {
				return r
			}
			bin := func(op string) string { return "(" + a + " " + op + " " + b + ")" }
			fn := func(f string) string { return "(" + f + " " + a + " " + b + ")" }
			og := t.exprType(x.X)
			if c.isNilErr20(x.X) { // [ext:T20]
				og = gtype{k: kErr}
			}
			if og.k == kBool {
				switch x.Op {
				case token.EQL:
					return k(fn("Bool.eqb"))
				case token.NEQ:
					return k(fn("xorb"))
				}
			} else if og.k == kErr && (x.Op == token.EQL || x.Op == token.NEQ) { // [ext:T20] err == nil, err != ErrX
				if x.Op == token.EQL {
					return k(bin("=?"))
				}
				return k("(negb " + bin("=?") + ")")
			} else if og.k == kInt || og.k == kUint || og.k == kElem {
				switch x.Op {
				case token.EQL:
					return k(bin("=?"))
				case token.NEQ:
					return k("(negb " + bin("=?") + ")")
				case token.LSS:
					return k(bin("<?"))
				case token.LEQ:
					return k(bin("<=?"))
				case token.GTR:
					return k("(" + b + " <? " + a + ")")
				case token.GEQ:
					return k("(" + b + " <=? " + a + ")")
				}
			}
			if r, ok := c.binary17(x, a, b, k); ok { // [ext:T17] + == != on strings
				return r
			}
			t.fail(x, "binary operator %s on %s", x.Op, t.info.Types[x.X].Type)
			return ""
		})
	})
}

// arith: a op b for the arithmetic / bit operators on integers of type g (y: the right operand's expression).
func (c *fctx) arith(op token.Token, g gtype, a, b string, y ast.Expr, k func(string) string) (string, bool) {
	bin := func(o string) string { return "(" + a + " " + o + " " + b + ")" }
	fn := func(f string) string { return "(" + f + " " + a + " " + b + ")" }
	if g.k != kInt && g.k != kUint {
		return "", false
	}
	switch op {
	case token.ADD:
		return k(c.wrapIf(g, bin("+"))), true
	case token.SUB:
		return k(c.wrapIf(g, bin("-"))), true
	case token.MUL:
		return k(c.wrapIf(g, bin("*"))), true
	case token.QUO, token.REM:
		pf, mf := "Z.quot", "m_quot"
		if op == token.REM {
			pf, mf = "Z.rem", "m_rem"
		}
		signedQuo := op == token.QUO && g.k == kInt && g.bits > 0 // [ext:T20] MinIntN / -1 wraps
		if v, ok := c.constInt(y); ok && constant.Sign(v) != 0 {
			if signedQuo && constant.Compare(v, token.EQL, constant.MakeInt64(-1)) {
				return k(c.wrapIf(g, fn(pf))), true
			}
			return k(fn(pf)), true
		}
		v := c.fresh("v")
		if signedQuo {
			return fmt.Sprintf("do %s <- %s %s %s;;\n%s", v, mf, a, b, k(c.wrapIf(g, v))), true
		}
		return fmt.Sprintf("do %s <- %s %s %s;;\n%s", v, mf, a, b, k(v)), true
	case token.AND:
		return k(fn("Z.land")), true
	case token.OR:
		return k(fn("Z.lor")), true
	case token.XOR:
		return k(fn("Z.lxor")), true
	case token.AND_NOT:
		return k(fn("Z.ldiff")), true
	case token.SHL, token.SHR:
		pf, mf := "Z.shiftl", "m_shl"
		if op == token.SHR {
			pf, mf = "Z.shiftr", "m_shr"
		}
		if c.shiftCountSafe(y) {
			if op == token.SHL {
				return k(c.wrapIf(g, fn(pf))), true
			}
			return k(fn(pf)), true
		}
		v := c.fresh("v")
		res := v
		if op == token.SHL {
			res = c.wrapIf(g, v)
		}
		return fmt.Sprintf("do %s <- %s %s %s;;\n%s", v, mf, a, b, k(res)), true
	}
	return "", false
}

// args evaluates expressions left to right.
func (c *fctx) args(es []ast.Expr, en *env, k func([]string) string) string {
	var vs []string
	var rec func(i int) string
	rec = func(i int) string {
		if i == len(es) {
			return k(vs)
		}
		return c.expr(es[i], en, func(v string) string {
			vs = append(vs[:i:i], v)
			return rec(i + 1)
		})
	}
	return rec(0)
}

// call translates a call; k receives the result terms (0, 1 or more).
func (c *fctx) call(x *ast.CallExpr, en *env, k func([]string) string) string {
	t := c.t
	if x.Ellipsis != token.NoPos && c.builtin(x) != "append" {
		t.fail(x, "call with ...")
	}
	if c.isConversion(x) {
		if len(x.Args) != 1 {
			t.fail(x, "conversion")
		}
		to, from := t.exprType(x), t.exprType(x.Args[0])
		if s, ok := c.conv17(x, en, k); ok { // [ext:T17] []rune(s), string(runes)
			return s
		}
		if to.str || from.str { // [ext:T20] string <-> []byte, string(byte)
			return c.strConv20(x, to, from, en, k)
		}
		if !((to.k == kInt || to.k == kUint) && (from.k == kInt || from.k == kUint)) && !(to.k == from.k && to.k != kStruct) {
			t.fail(x, "conversion from %s to %s", t.info.Types[x.Args[0]].Type, t.info.Types[x].Type)
		}
		if to.k == kInt && to.bits == 0 && from.k == kUint && from.bits == 64 && !c.below63(x.Args[0]) && !c.fitsInt03(x.Args[0]) { // [ext:T03] int(u >> c), int(u & c)
			t.fail(x, "conversion of a 64-bit unsigned value to a signed integer (overflow is not modelled)")
		}
		return c.expr(x.Args[0], en, func(a string) string {
			if to.k == kUint && !(from.k == kUint && from.bits <= to.bits) {
				return k([]string{c.wrapIf(to, a)})
			}
			if to.k == kInt && to.bits > 0 && signedConvWraps20(to, from) { // [ext:T20]
				return k([]string{c.wrapIf(to, a)})
			}
			return k([]string{a})
		})
	}
	c.refuseNested08(x, c.builtin(x)) // [ext:T08] append / copy / make on [][]byte
	switch b := c.builtin(x); b {
	case "len", "cap":
		if t.exprType(x.Args[0]).k != kSlice {
			t.fail(x, "%s of a non-slice", b)
		}
		if b == "cap" && c.sliceKey(x.Args[0], en) == "" {
			t.fail(x, "cap of something that is not a variable or a field (capacity is modelled as the length)")
		}
		lf := lenFn(t.exprType(x.Args[0])) // [seq] zlenA for slices of structs
		return c.expr(x.Args[0], en, func(a string) string { return k([]string{"(" + lf + " " + a + ")"}) })
	case "min", "max":
		if g := t.exprType(x); g.k != kInt && g.k != kUint {
			t.fail(x, "%s on non-integers", b)
		}
		return c.args(x.Args, en, func(vs []string) string {
			r := vs[0]
			for _, v := range vs[1:] {
				r = fmt.Sprintf("(Z.%s %s %s)", b, r, v)
			}
			return k([]string{r})
		})
	case "make":
		if t.exprType(x).k != kSlice || len(x.Args) < 2 {
			t.fail(x, "make of something that is not a slice with a length")
		}
		return c.args(x.Args[1:], en, func(vs []string) string {
			v := c.fresh("v")
			if g := t.exprType(x); g.elem != nil { // [seq] make([]S, n)
				if len(vs) != 1 {
					t.fail(x, "make of a slice of structs with a capacity")
				}
				return fmt.Sprintf("do %s <- m_makeA zero_%s %s;;\n%s", v, g.elem.name, vs[0], k([]string{v}))
			}
			if len(vs) == 2 {
				return fmt.Sprintf("do %s <- m_make_cap %s %s;;\n%s", v, vs[0], vs[1], k([]string{v}))
			}
			return fmt.Sprintf("do %s <- m_make %s;;\n%s", v, vs[0], k([]string{v}))
		})
	case "append":
		if g := t.exprType(x); g.k != kSlice || g.elem != nil {
			t.fail(x, "append on a non-slice (or on a slice of structs)")
		}
		return c.args(x.Args, en, func(vs []string) string {
			if x.Ellipsis != token.NoPos {
				if len(vs) != 2 {
					t.fail(x, "append with ...")
				}
				return k([]string{"(" + vs[0] + " ++ " + vs[1] + ")"})
			}
			if len(vs) == 1 {
				return k(vs)
			}
			return k([]string{"(" + vs[0] + " ++ [" + strings.Join(vs[1:], "; ") + "])"})
		})
	case "copy":
		return c.copyCall(x, en, k)
	case "panic":
		t.fail(x, "panic(...) used as an expression")
	case "":
	default:
		t.fail(x, "builtin %s", b)
	}
	if n := t.onesCountCall(x); n != 0 { // [BitsCode] math/bits.OnesCountN
		return c.args(x.Args, en, func(vs []string) string { return k([]string{fmt.Sprintf("(ones_count %d %s)", n, vs[0])}) })
	}
	if t.funcValueCall(x) != nil { // a function value (trans_func.go)
		return c.callFuncValue(x, en, k)
	}
	if s, ok := c.seqCall(x, en, k); ok { // [seq] sync/atomic, runtime.Gosched
		return s
	}
	if s, ok := c.call17(x, en, k); ok { // [ext:T17] strings.Repeat, strings.Builder methods
		return s
	}
	if s, ok := c.call07(x, en, k); ok { // [ext:T07] modelled standard-library functions, identity functions
		return s
	}
	if s, ok := c.call15(x, en, k); ok { // [ext:T15] fmt.Errorf / errors.New as an error kind; hex.EncodedLen / DecodedLen
		return s
	}
	if s, ok := c.call09(x, en, k); ok { // [ext:T09] identity functions of other packages, functions of the package taken as foreign
		return s
	}
	if s, ok := c.foreignCall08(x, en, k); ok { // [ext:T08] TransSpec.Foreign, errors.New / fmt.Errorf
		return s
	}
	fn, recv := t.calleeOf(x)
	if fn == nil {
		t.fail(x, "call of %s (only functions and methods of the translated package, builtins and conversions)", nodeDesc(ast.Unparen(x.Fun)))
	}
	fi := t.funcFor(fn, x)
	if t.seq.timedTail[fi.goName] { // [seq]
		t.fail(x, "call of %s, which is translated with a timed tail", fi.goName)
	}
	c.callable03(fi, x) // [ext:T03]
	fuel := ""
	if fi.loops {
		fuel = " fuel"
	}
	var rv *varInfo
	recvArg := false // [ext:T20] a value receiver of a named integer type is an ordinary first argument
	if fi.recv != nil {
		if recv == nil {
			t.fail(x, "method expression")
		}
		if fi.recvT.k != kStruct {
			recvArg = true
		} else {
			rv = c.recv03(x, recv, fi, en) // [ext:T03] structVar(recv, en), or a path
			if fi.writes {
				c.checkNoLivePlace(en, x, func(k string) bool { return strings.HasPrefix(k, recvKey03(rv)) }, "call of "+fi.goName) // [seq]
				for key := range en.shared {
					if strings.HasPrefix(key, recvKey03(rv)) { // [ext:T03]
						t.fail(x, "call of %s, which writes its receiver, while %s may share its array with another variable", fi.goName, key)
					}
				}
			}
		}
	} else if fi.ignoredRecv { // [ext:T20] the callee never mentions its receiver; its expression must be a plain variable
		if _, ok := ast.Unparen(recv).(*ast.Ident); !ok {
			t.fail(x, "call of %s through a receiver expression that is not a variable", fi.goName)
		}
	}
	var wb07 *writeBack07 // [ext:T07] slice arguments the callee writes in place come back and are stored
	emit := func(rterm string, vs []string) string {
		app := fi.name + fuel + c.callee08(fi, x) // [ext:T08] ext'
		if rv != nil {
			app += " " + rv.name
		}
		if rterm != "" {
			app += " " + rterm
		}
		for _, g := range t.ordered20(fi.greads) { // [ext:T20] package-level state is passed explicitly
			app += " " + c.globalName20(g, en, x)
		}
		for _, v := range vs {
			app += " " + v
		}
		if back := t.writtenArgs(x); len(back) > 0 { // in-out slice arguments come back after the receiver (trans_func.go)
			rn := ""
			if rv != nil && fi.writes {
				rn = rv.name
			}
			return c.bindCall(app, rn, back, len(fi.results), en, x, k)
		}
		var rs []string
		for range fi.results {
			rs = append(rs, c.fresh("v"))
		}
		var parts []string
		if rv != nil && fi.writes {
			parts = append(parts, c.recvPat03(rv)) // [ext:T03] rv.name, or a temporary for a path receiver
		}
		for _, g := range t.ordered20(fi.gwrites) {
			parts = append(parts, c.globalName20(g, en, x))
		}
		parts = append(parts, wb07.names()...)           // [ext:T07]
		parts = append(parts, c.outArgs15(fi, x, en)...) // [ext:T15] the slices written in place come back
		if len(rs) > 0 {
			parts = append(parts, tuple(rs))
		}
		pat := nestPair(parts)
		if len(parts) == 0 {
			pat = "_"
		}
		if strings.HasPrefix(pat, "(") {
			pat = "'" + pat
		}
		return fmt.Sprintf("do %s <- %s;;\n%s%s", pat, app, recvBack03(rv, fi), wb07.code(func() string { return k(rs) })) // [ext:T03] recvBack03: "" unless a path receiver was written; [ext:T07] wb07.code
	}
	if len(fi.outs07) > 0 && !recvArg { // [ext:T07]
		return c.argsOut07(fi, x, recv, en, &wb07, func(vs []string) string { return emit("", vs) })
	}
	if recvArg {
		return c.expr(recv, en, func(r string) string {
			return c.args(x.Args, en, func(vs []string) string { return emit(r, vs) })
		})
	}
	return c.args(x.Args, en, func(vs []string) string { return emit("", vs) })
}

// copyCall: copy(dst, src) / copy(dst[a:b], src) with dst a variable or a field; rebinding dst.
func (c *fctx) copyCall(x *ast.CallExpr, en *env, k func([]string) string) string {
	t := c.t
	if len(x.Args) != 2 || t.exprType(x.Args[0]).k != kSlice || t.exprType(x.Args[1]).k != kSlice ||
		t.exprType(x.Args[0]).elem != nil || t.exprType(x.Args[1]).elem != nil {
		t.fail(x, "copy on non-slices (or on slices of structs)")
	}
	dst := ast.Unparen(x.Args[0])
	var low, high ast.Expr
	sliced := false
	if se, ok := dst.(*ast.SliceExpr); ok {
		if se.Slice3 {
			t.fail(se, "3-index slice expression")
		}
		dst, low, high, sliced = ast.Unparen(se.X), se.Low, se.High, true
	}
	key := c.sliceKey(dst, en)
	c.checkWritable(key, en, x)
	if sk, ok := c.aliasSource(x.Args[1], en); ok && sk == key && !t.spec.Ext03 { // [ext:T03] copy is a memmove: the source VALUE is taken first, which is what the list model does
		t.fail(x, "copy between overlapping parts of the same slice")
	}
	n := c.fresh("n")
	return c.expr(dst, en, func(d string) string {
		lo := func(k2 func(string) string) string {
			if low == nil {
				return k2("0")
			}
			return c.expr(low, en, k2)
		}
		hi := func(k2 func(string) string) string {
			if high == nil {
				return k2("(zlen " + d + ")")
			}
			return c.expr(high, en, k2)
		}
		return lo(func(l string) string {
			return hi(func(h string) string {
				return c.expr(x.Args[1], en, func(s string) string {
					nd := c.fresh("d")
					var code string
					if sliced {
						code = fmt.Sprintf("do '(%s, %s) <- m_copy %s %s %s %s;;\n", nd, n, d, l, h, s)
					} else {
						code = fmt.Sprintf("let '(%s, %s) := copy_all %s %s in\n", nd, n, d, s)
					}
					return code + c.store(dst, nd, en, func() string { return k([]string{n}) })
				})
			})
		})
	})
}

// store writes a value to a variable or a field (not an indexed element).
func (c *fctx) store(lhs ast.Expr, val string, en *env, k func() string) string {
	t := c.t
	switch x := ast.Unparen(lhs).(type) {
	case *ast.Ident:
		if x.Name == "_" {
			return k()
		}
		o := t.info.Uses[x]
		if o == nil {
			o = t.info.Defs[x]
		}
		v := en.lookup(o)
		if v == nil {
			t.fail(x, "assignment to %s (not a local variable)", x.Name)
		}
		if v.ty.k == kStruct || v.ty.k == kPlace {
			t.fail(x, "assignment of a whole struct / pointer to %s", x.Name)
		}
		if v.name == val {
			return k()
		}
		return fmt.Sprintf("let %s := %s in\n%s", v.name, val, k())
	case *ast.SelectorExpr:
		sel := t.info.Selections[x]
		if sel == nil || sel.Kind() != types.FieldVal {
			t.fail(x, "assignment to selector %s", x.Sel.Name)
		}
		if s, ok := c.store03(x, val, en, k); ok { // [ext:T03]
			return s
		}
		v := c.structVar(x.X, en)
		return fmt.Sprintf("let %s := set_%s_%s %s %s in\n%s", v.name, v.ty.st.name, v.ty.st.coqField(x.Sel.Name), v.name, val, k()) // [stable]
	}
	t.fail(lhs, "assignment to %s", nodeDesc(lhs))
	return ""
}

// ---- [BitsCode] int(u) for a 64-bit unsigned u that is syntactically below 2^63 -----------------------------------
// below63 reports whether the unsigned 64-bit expression e is below 2^63 for every value of its variables in
// [0, 2^64): a constant, `u >> c` (constant c >= 1), `u & c` / `c & u` (constant 0 <= c < 2^63), `u % c` (constant
// 0 < c <= 2^63), `u / c` (constant c >= 2), a conversion from a narrower unsigned type.  Then int(e) is the identity.
func (c *fctx) below63(e ast.Expr) bool {
	t := c.t
	lim := constant.Shift(constant.MakeInt64(1), token.SHL, 63)
	cst := func(e ast.Expr) (constant.Value, bool) {
		tv, ok := t.info.Types[e]
		if !ok || tv.Value == nil || tv.Value.Kind() != constant.Int {
			return nil, false
		}
		return tv.Value, true
	}
	if v, ok := cst(e); ok {
		return constant.Compare(v, token.GEQ, constant.MakeInt64(0)) && constant.Compare(v, token.LSS, lim)
	}
	switch x := e.(type) {
	case *ast.ParenExpr:
		return c.below63(x.X)
	case *ast.BinaryExpr:
		l, lok := cst(x.X)
		r, rok := cst(x.Y)
		small := func(v constant.Value) bool {
			return constant.Compare(v, token.GEQ, constant.MakeInt64(0)) && constant.Compare(v, token.LSS, lim)
		}
		switch x.Op {
		case token.SHR:
			return rok && constant.Compare(r, token.GEQ, constant.MakeInt64(1))
		case token.AND:
			return (rok && small(r)) || (lok && small(l)) || c.below63(x.X) || c.below63(x.Y)
		case token.REM:
			return rok && constant.Compare(r, token.GTR, constant.MakeInt64(0)) && constant.Compare(r, token.LEQ, lim)
		case token.QUO:
			return rok && constant.Compare(r, token.GEQ, constant.MakeInt64(2))
		}
	case *ast.CallExpr:
		if c.isConversion(x) && len(x.Args) == 1 {
			if from := t.exprType(x.Args[0]); from.k == kUint && from.bits < 64 {
				return true
			}
			if from := t.exprType(x.Args[0]); from.k == kUint {
				return c.below63(x.Args[0])
			}
		}
	}
	return false
}

// ---- [BitsCode] S{f: e, …} for a translated struct S ----------------------------------------------------------------
// structLit: a composite literal of a translated struct type (a value, not &S{…}) becomes `mkS v1 … vn` (fields not
// named: their zero value; operands evaluated in source order).  A slice-typed field may be initialised from a
// variable / field / slice of one only in the operand of a `return` (the locals die there; aliasing across calls is the
// documented limit of the list model) — elsewhere only from a fresh value (make, nil, append to a fresh value).
func (c *fctx) structLit(x *ast.CompositeLit, en *env, k func(string) string) string {
	t := c.t
	g := t.exprType(x)
	if g.k != kStruct || g.ptr {
		t.fail(x, "composite literal of type %s (only translated struct types)", t.info.Types[x].Type)
	}
	si := g.st
	idx := make([]int, len(x.Elts))
	vals := make([]ast.Expr, len(x.Elts))
	for i, el := range x.Elts {
		if kv, ok := el.(*ast.KeyValueExpr); ok {
			id, ok := kv.Key.(*ast.Ident)
			idx[i] = -1
			for j, f := range si.fields {
				if ok && f == id.Name {
					idx[i] = j
				}
			}
			if idx[i] < 0 {
				t.fail(el, "field key in a literal of %s", si.name)
			}
			vals[i] = kv.Value
		} else {
			if len(x.Elts) != len(si.fields) {
				t.fail(x, "positional literal of %s with %d of %d fields", si.name, len(x.Elts), len(si.fields))
			}
			idx[i], vals[i] = i, el
		}
		if si.ftypes[idx[i]].k == kSlice && c.inRet == 0 {
			if src, shares := c.aliasSource(vals[i], en); shares {
				t.fail(el, "struct literal field %s.%s initialised from %s outside a return (aliasing is not modelled)", si.name, si.fields[idx[i]], src)
			}
		}
	}
	return c.args(vals, en, func(vs []string) string {
		term := "(mk" + si.name
		for j, ft := range si.ftypes {
			v := ft.zero()
			for i := range idx {
				if idx[i] == j {
					v = vs[i]
				}
			}
			term += " " + v
		}
		return k(term + ")")
	})
}
