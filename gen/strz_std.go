// gen/strz_std.go: constants of strz's re-implemented standard routines (C15) -> coq/Gen/StrzStd.v
//
//   strz/std_strconv.go   maxUint64; the accepted base range (`2 <= base && base <= 36`); the largest bit size
//                         (`bitSize < 0 || bitSize > 64`); the constant added to maxUint64/base in the three `cutoff = ...`
//                         assignments of ParseUint and in parseUint (0 when the `+ 1` is gone).
//   strz/std_hex.go       hextable.
// Fails closed when the source no longer has the expected shape.
package main

import (
	"fmt"
	"go/ast"
	"go/token"
	"math/big"
	"strings"
)

func init() { Register(Area{Name: "StrzStd", Gen: genStrzStd}) }

// c15CutoffAdds collects, for every assignment / definition of `cutoff` in fd, the constant added to `maxUint64 / ...`.
func c15CutoffAdds(p *Pkg, fd *ast.FuncDecl) ([]*big.Int, error) {
	var out []*big.Int
	var err error
	ast.Inspect(fd.Body, func(n ast.Node) bool {
		as, ok := n.(*ast.AssignStmt)
		if !ok || len(as.Lhs) != 1 || len(as.Rhs) != 1 {
			return true
		}
		id, ok := as.Lhs[0].(*ast.Ident)
		if !ok || id.Name != "cutoff" {
			return true
		}
		rhs := as.Rhs[0]
		add := big.NewInt(0)
		if be, ok := rhs.(*ast.BinaryExpr); ok && be.Op == token.ADD {
			v, e := Eval(be.Y, p.Env, 0)
			if e != nil {
				err = fmt.Errorf("%s: cutoff: cannot evaluate the added constant", fd.Name.Name)
				return false
			}
			add = v
			rhs = be.X
		}
		q, ok := rhs.(*ast.BinaryExpr)
		if !ok || q.Op != token.QUO {
			err = fmt.Errorf("%s: cutoff is not maxUint64 / base [+ c]", fd.Name.Name)
			return false
		}
		if m, ok := q.X.(*ast.Ident); !ok || m.Name != "maxUint64" {
			err = fmt.Errorf("%s: cutoff does not divide maxUint64", fd.Name.Name)
			return false
		}
		out = append(out, add)
		return true
	})
	return out, err
}

func genStrzStd(repo string) (string, error) {
	p, err := Load(repo, "strz")
	if err != nil {
		return "", err
	}
	var sb strings.Builder
	sb.WriteString("Local Open Scope Z_scope.\n")
	mx, err := p.Int("maxUint64")
	if err != nil {
		return "", err
	}
	sb.WriteString("(* strz/std_strconv.go: const maxUint64 *)\n")
	sb.WriteString(CoqZ("g_max_uint64", mx))

	pf := p.Func("ParseUint")
	if pf == nil {
		return "", fmt.Errorf("strz.ParseUint not found")
	}
	// base range and bit size bound: comparisons of the identifiers base / bitSize with literals
	var baseLo, baseHi, bitsMax, bitsMin *big.Int
	ast.Inspect(pf.Body, func(n ast.Node) bool {
		be, ok := n.(*ast.BinaryExpr)
		if !ok {
			return true
		}
		lit := func(e ast.Expr) *big.Int {
			if v, err := Eval(e, map[string]ast.Expr{}, 0); err == nil {
				return v
			}
			return nil
		}
		name := func(e ast.Expr) string {
			if id, ok := e.(*ast.Ident); ok {
				return id.Name
			}
			return ""
		}
		switch {
		case be.Op == token.LEQ && lit(be.X) != nil && name(be.Y) == "base" && baseLo == nil: // 2 <= base
			baseLo = lit(be.X)
		case be.Op == token.LEQ && name(be.X) == "base" && lit(be.Y) != nil && baseHi == nil: // base <= 36
			baseHi = lit(be.Y)
		case be.Op == token.GTR && name(be.X) == "bitSize" && lit(be.Y) != nil && bitsMax == nil: // bitSize > 64
			bitsMax = lit(be.Y)
		case be.Op == token.LSS && name(be.X) == "bitSize" && lit(be.Y) != nil && bitsMin == nil: // bitSize < 0
			bitsMin = lit(be.Y)
		}
		return true
	})
	if baseLo == nil || baseHi == nil || bitsMax == nil || bitsMin == nil {
		return "", fmt.Errorf("ParseUint: expected `2 <= base && base <= 36` and `bitSize < 0 || bitSize > 64`")
	}
	sb.WriteString("(* ParseUint: `lo <= base && base <= hi`; `bitSize < min || bitSize > max` *)\n")
	sb.WriteString(CoqZ("g_base_lo", baseLo))
	sb.WriteString(CoqZ("g_base_hi", baseHi))
	sb.WriteString(CoqZ("g_bits_min", bitsMin))
	sb.WriteString(CoqZ("g_bits_max", bitsMax))
	adds, err := c15CutoffAdds(p, pf)
	if err != nil {
		return "", err
	}
	if len(adds) != 3 {
		return "", fmt.Errorf("ParseUint: expected three `cutoff = maxUint64/b + c` assignments, found %d", len(adds))
	}
	for _, a := range adds[1:] {
		if a.Cmp(adds[0]) != 0 {
			// different constants per base: the model has one; report the default branch (last) and fail closed
			return "", fmt.Errorf("ParseUint: the cutoff assignments add different constants %v", adds)
		}
	}
	sb.WriteString("(* ParseUint: cutoff = maxUint64/base + c  (all three assignments) *)\n")
	sb.WriteString(CoqZ("g_cutoff_add", adds[0]))
	lf := p.Func("parseUint")
	if lf == nil {
		return "", fmt.Errorf("strz.parseUint not found")
	}
	ladds, err := c15CutoffAdds(p, lf)
	if err != nil {
		return "", err
	}
	if len(ladds) != 1 {
		return "", fmt.Errorf("parseUint: expected one cutoff definition")
	}
	sb.WriteString("(* parseUint (used by the escape codecs): cutoff := maxUint64/base + c *)\n")
	sb.WriteString(CoqZ("g_cutoff_add_inner", ladds[0]))

	ht, err := p.Str("hextable")
	if err != nil {
		return "", err
	}
	sb.WriteString("(* strz/std_hex.go: const hextable *)\n")
	sb.WriteString(CoqBytes("g_hextable", []byte(ht)))
	return sb.String(), nil
}
