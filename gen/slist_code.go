// Area SListCode (C13): the Go -> Gallina translation of listz/singly_list.go by the pointer extension [ext13]
// (gen/trans_ext13.go): SNode lives in a heap (a *SNode is a node id, nil = None, a nil dereference panics), SList is the
// receiver Record; every function is a state-passing function over (Heap, SList).  coq/Proofs/SListCode.v proves each
// generated function equal to the hand-written heap-level model coq/Model/SList.v on every run (c13_slist_code_is_model).
// Fails closed on anything outside the subset AND on source whose shape the proof scripts do not cover
// (-> gen/defaults/SListCode.v, tie degraded, DESIGN §0.9).
package main

func init() { Register(Area{Name: "SListCode", Gen: genSListCode}) }

var slistFuncs = []string{"SNode.Next", "SList.Len", "SList.Front", "SList.Back", "SList.withinRange", "SList.Get", "SList.Remove",
	"SList.RemoveFront", "SList.PushFrontNode", "SList.PushBackNode", "SList.InsertNodeAt", "SList.PushFront", "SList.PushBack",
	"SList.InsertAt", "SList.Swap"}

var slistShape = map[string]Shape13{
	"SNode.Next": {}, "SList.Len": {}, "SList.Front": {}, "SList.Back": {}, "SList.withinRange": {},
	"SList.Get":           {Loops: 1, Calls: []string{"SList.withinRange"}, Headers: []string{"index := 0; index ? i; index++"}},
	"SList.Remove":        {Loops: 1, Calls: []string{"SList.withinRange"}, Headers: []string{"index := 0; index ? i; index++"}},
	"SList.RemoveFront":   {},
	"SList.PushFrontNode": {}, "SList.PushBackNode": {},
	"SList.InsertNodeAt": {Loops: 1, Calls: []string{"SList.PushBackNode", "SList.PushFrontNode"}, Headers: []string{"index := 0; index ? i-#; index++"}},
	"SList.PushFront":    {Calls: []string{"SList.PushFrontNode"}},
	"SList.PushBack":     {Calls: []string{"SList.PushBackNode"}},
	"SList.InsertAt":     {Calls: []string{"SList.InsertNodeAt"}},
	"SList.Swap": {Loops: 1, Switches: 1, Calls: []string{"SList.withinRange"},
		Headers: []string{"index, ce := 0, l.head; e1 ? nil ? e2 ? nil; index, ce = index+1, ce.next"}},
}

func genSListCode(repo string) (string, error) {
	body, err := TranslateHeap(repo, HeapSpec{Dir: "listz", HeapStructs: []string{"SNode"}, Structs: []string{"SList"},
		Funcs: slistFuncs, Shape: slistShape,
		Fields: map[string][]string{"SNode": {"Value T", "next *SNode[T]"}, "SList": {"head *SNode[T]", "tail *SNode[T]", "len int"}}})
	if err != nil {
		return "", err
	}
	return "From Coq Require Import Bool.\nFrom V Require Import Lib.GoSem Lib.GoSemHeap.\nImport GoNotations.\nLocal Open Scope Z_scope.\n" + body, nil
}
