// [ext:T17] — rune-aware string code (first user: area StrsCode, C17, strz/strs.go).  Reached through one-line hooks marked
// `[ext:T17]` in the core files; everything is switched on by TransSpec.Str17, an area that leaves it false translates
// exactly as before.  Target: coq/Lib/GoSemStr.v (on top of Lib/GoSemStd.v and Lib/Utf8.v, the UTF-8 model the hand-written
// models use).
//
//	a + b (strings)                    (a ++ b)
//	a == b, a != b (strings)           (bytes_eqb a b), (negb (bytes_eqb a b))        (other comparisons: refused)
//	strings.Repeat(s, n)               do v <- std_strings_Repeat s n;;   (panics: n < 0, length overflow, allocation limit)
//	[]rune(s)                          (std_runes s)            = Utf8.runes s: what `for _, r := range s` yields
//	string(rs)  (rs a []rune)          (std_string_of_runes rs) = concat (map encode_rune rs) (invalid runes -> U+FFFD)
//	for i, v := range s (s a string)   the while combinator with a hidden BYTE offset i'k: the key is the offset, the value
//	                                   fst (str_rune_at s i'k), the post step adds snd (str_rune_at s i'k) (the width, >= 1
//	                                   inside the string; an invalid byte is U+FFFD of width 1).  The string is evaluated once.
//	var b strings.Builder              a byte list b plus the flag b'cap "capacity > 0" (the real capacity depends on the
//	                                   allocator's size classes; only whether it is zero is modelled):
//	  b.Len()                          (zlen b)
//	  b.Cap() ==/!=/> 0, 0 < b.Cap()   (negb b'cap) / b'cap              (any other use of Cap: refused)
//	  b.Grow(n)                        panics for n < 0; b'cap := b'cap || 0 < n
//	  b.WriteString(s) / Write(p)      b := b ++ s; b'cap := b'cap || 0 < len s      (results must be dropped)
//	  b.WriteByte(c) / WriteRune(r)    b := b ++ [c] / b ++ encode_rune r; b'cap := true
//	  b.String()                       b
//	                                   a Builder may only be a local `var b strings.Builder` used through these methods.
package main

import (
	"fmt"
	"go/ast"
	"go/parser"
	"go/token"
	"go/types"
	"strings"
)

const stubStrings17 = `package strings
func Repeat(s string, count int) string { return "" }
type Builder struct{ x int }
func (b *Builder) Len() int { return 0 }
func (b *Builder) Cap() int { return 0 }
func (b *Builder) Grow(n int) {}
func (b *Builder) String() string { return "" }
func (b *Builder) Write(p []byte) (int, error) { return 0, nil }
func (b *Builder) WriteString(s string) (int, error) { return 0, nil }
func (b *Builder) WriteByte(c byte) error { return nil }
func (b *Builder) WriteRune(r rune) (int, error) { return 0, nil }
`

var stubPkg17 *types.Package

// stubPackage17: package strings as far as the extension models it (signatures only).
func stubPackage17(path string) *types.Package {
	if path != "strings" {
		return nil
	}
	if stubPkg17 == nil {
		fset := token.NewFileSet()
		f, err := parser.ParseFile(fset, "strings.go", stubStrings17, 0)
		if err != nil {
			panic(err)
		}
		conf := types.Config{Error: func(error) {}}
		stubPkg17, _ = conf.Check("strings", fset, []*ast.File{f}, nil)
	}
	return stubPkg17
}

var globals17 = strings.Fields(`bytes_eqb str_rune_at std_runes std_string_of_runes std_strings_Repeat std_maxint std_alloc_limit`)

func (t *Translator) setup17(spec TransSpec) {
	if !spec.Str17 {
		return
	}
	for _, w := range globals17 {
		t.global[w] = true
	}
}

// binary17: + == != on strings (a, b: the operand terms).
func (c *fctx) binary17(x *ast.BinaryExpr, a, b string, k func(string) string) (string, bool) {
	t := c.t
	if !t.spec.Str17 {
		return "", false
	}
	tx, ty := t.info.Types[x.X].Type, t.info.Types[x.Y].Type
	if tx == nil || ty == nil || !isStringType(tx) || !isStringType(ty) {
		return "", false
	}
	switch x.Op {
	case token.ADD:
		return k("(" + a + " ++ " + b + ")"), true
	case token.EQL:
		return k("(bytes_eqb " + a + " " + b + ")"), true
	case token.NEQ:
		return k("(negb (bytes_eqb " + a + " " + b + "))"), true
	}
	return "", false
}

func isRuneSlice17(ty types.Type) bool {
	s, ok := ty.Underlying().(*types.Slice)
	if !ok {
		return false
	}
	b, ok := s.Elem().Underlying().(*types.Basic)
	return ok && b.Kind() == types.Int32
}

// conv17: []rune(s) and string(runes).
func (c *fctx) conv17(x *ast.CallExpr, en *env, k func([]string) string) (string, bool) {
	t := c.t
	if !t.spec.Str17 {
		return "", false
	}
	tt, ft := t.info.Types[x].Type, t.info.Types[x.Args[0]].Type
	if tt == nil || ft == nil {
		return "", false
	}
	switch {
	case isRuneSlice17(tt) && isStringType(ft):
		return c.expr(x.Args[0], en, func(a string) string { return k([]string{"(std_runes " + a + ")"}) }), true
	case isStringType(tt) && isRuneSlice17(ft):
		return c.expr(x.Args[0], en, func(a string) string { return k([]string{"(std_string_of_runes " + a + ")"}) }), true
	}
	return "", false
}

// pkgFunc17: the name F of a call strings.F(...).
func (t *Translator) pkgFunc17(x *ast.CallExpr) string {
	sel, ok := ast.Unparen(x.Fun).(*ast.SelectorExpr)
	if !ok {
		return ""
	}
	id, ok := ast.Unparen(sel.X).(*ast.Ident)
	if !ok {
		return ""
	}
	if pn, ok := t.info.Uses[id].(*types.PkgName); ok && pn.Imported().Path() == "strings" {
		return sel.Sel.Name
	}
	return ""
}

// call17: strings.Repeat; methods of a strings.Builder local.
func (c *fctx) call17(x *ast.CallExpr, en *env, k func([]string) string) (string, bool) {
	t := c.t
	if !t.spec.Str17 {
		return "", false
	}
	if t.pkgFunc17(x) == "Repeat" {
		return c.args(x.Args, en, func(vs []string) string {
			v := c.fresh("v")
			return fmt.Sprintf("do %s <- std_strings_Repeat %s %s;;\n%s", v, vs[0], vs[1], k([]string{v}))
		}), true
	}
	return c.builderCall17(x, en, k)
}

// rangeStr17: for i, v := range s over a string — decodes one rune per iteration; the hidden counter is the byte offset.
func (c *fctx) rangeStr17(x *ast.RangeStmt, en *env, lc *lctx, next kont) string {
	t := c.t
	c.checkOrder(x.X)
	return c.expr(x.X, en, func(xs string) string {
		rng, n, idx := c.fresh("rng"), c.fresh("n"), c.fresh("i")
		head := fmt.Sprintf("let %s := %s in\nlet %s := zlen %s in\n", rng, xs, n, rng)
		set := map[types.Object]bool{}
		t.assigned(x.Body, set)
		if x.Tok == token.ASSIGN {
			for _, e := range []ast.Expr{x.Key, x.Value} {
				if e != nil {
					if o, _ := t.rootObj(e); o != nil {
						set[o] = true
					}
				}
			}
		}
		names := []string{idx}
		for _, v := range en.vars {
			if set[v.obj] {
				names = append(names, v.name)
			}
		}
		tup := tuple(names)
		en1 := c.preTaint(x.Body, c.taintCalls(x.X, en))
		body := func(llc *lctx) string {
			en2 := en1
			bindVar := func(e ast.Expr, val string, cont func() string) string {
				id, ok := e.(*ast.Ident)
				if e == nil || (ok && id.Name == "_") {
					return cont()
				}
				if x.Tok == token.DEFINE {
					obj := t.info.Defs[id]
					var name string
					en2, name = c.declare(en2, obj, t.typeOf(obj.Type(), id))
					return fmt.Sprintf("let %s := %s in\n%s", name, val, cont())
				}
				return c.assignTo(e, val, en2, cont)
			}
			return bindVar(x.Key, idx, func() string {
				return bindVar(x.Value, fmt.Sprintf("(fst (str_rune_at %s %s))", rng, idx), func() string {
					return c.stmts(x.Body.List, en2, llc, kont{f: func(*env) string { return "Ret (Next " + tup + ")" }, cheap: true})
				})
			})
		}
		after := next.f(&env{vars: en.vars, shared: en1.shared})
		step := fmt.Sprintf("(%s + snd (str_rune_at %s %s))", idx, rng, idx)
		return head + fmt.Sprintf("let %s := 0 in\n", idx) +
			c.loop(names, fmt.Sprintf("Ret (%s <? %s)", idx, n), body, "Ret "+tuple(append([]string{step}, names[1:]...)), lc, after)
	})
}

// ---- strings.Builder -------------------------------------------------------------------------------------------------------

func (c *fctx) builderCall17(x *ast.CallExpr, en *env, k func([]string) string) (string, bool) {
	return "", false
}

// freshConv17: []rune(s) of a string — the result shares its array with nothing.
func (c *fctx) freshConv17(x *ast.CallExpr) bool {
	t := c.t
	if !t.spec.Str17 || len(x.Args) != 1 || !c.isConversion(x) {
		return false
	}
	tt, ft := t.info.Types[x].Type, t.info.Types[x.Args[0]].Type
	return tt != nil && ft != nil && isRuneSlice17(tt) && isStringType(ft)
}
