// go2v extension [ext:T03] (added for the RoaringCode area, C03; usable by any area).  Everything here is reached through
// one-line hooks in trans.go / trans_expr.go / trans_stmt.go that are marked `[ext:T03]`; an area that sets none of the new
// TransSpec fields (Ext03, Ifaces, Heads) translates exactly as before.
//
//	TransSpec.Ext03    a field of a translated struct may itself be a translated struct (listed EARLIER in Structs): a named
//	                   field, an embedded struct (field name = type name, promoted fields and methods resolve through it) or a
//	                   POINTER to a translated struct.  Reads, writes and method receivers are PATHS: a struct variable followed
//	                   by field hops: b.Bitmap.set -> (Bitmap_set (Bits_Bitmap b)); b.Bitmap.set = v ->
//	                   let b := (set_Bits_Bitmap b (set_Bitmap_set (Bits_Bitmap b) v)) in; b.Bitmap.Add(n) (writing) ->
//	                   do '(r'1, ok) <- g_Bitmap_Add (Bits_Bitmap b) n;; let b := (set_Bits_Bitmap b r'1) in.
//	                   A pointer field is a READ-ONLY VIEW of the pointee at the time of the call (the Record holds the
//	                   pointee's value; the pointer is assumed non-nil); a write or a writing method call through it is refused,
//	                   and so are composite literals / zero values of a struct that has one (no nil pointer can be built).
//	type B A           a defined type whose underlying struct type is identical to that of a translated struct A is the SAME
//	                   Record; the conversions (*A)(b), (*B)(a) are the identity on paths (receiver position only).
//	int(u)             for a 64-bit unsigned u of the form e >> c (c >= 1), e / c (c >= 2), e & c, e % c (c a constant < 2^63): identity.
//	S{f: e, ...}       composite literal of a translated struct with keyed fields (missing fields: zero value); a slice-typed
//	                   field value may share its array only with a local variable that is never mentioned again.
//	TransSpec.Ifaces   interface -> the pointer types *S (S translated) that implement it, as a sum type
//	                   `Inductive I := I_S (x : S) | ...`.  Only in RESULT position: `return p` / `return &local` (p a pointer
//	                   receiver or variable of type *S) builds `(I_S p)` from the FINAL state of the variable (the pointer's
//	                   identity is not modelled; the value is read after every other result has been evaluated).
//	unsafe             `*(*[N]uintK)(unsafe.Pointer(&s[i]))`: s[i] is bounds-checked, the value read from memory is an extra
//	                   PARAMETER mem'k : list Z of the generated function (theorems quantify over it; that the bytes behind the
//	                   pointer exist is not checked).  A function with such a parameter cannot be called from translated code.
//	TransSpec.Heads    of a function that cannot be translated as a whole: its leading simple declarations (`high := uint16(num >> 16)`:
//	                   operators, len/cap/min/max, integer conversions) as g_<Func>_head <free variables> : M <the declared
//	                   variables that are used afterwards, in declaration order> (the fragment machinery of [ext:T20]).
//	copy, calls        under Ext03 copy(s[a:], s[b:]) on the same slice is allowed (copy is a memmove; the list model takes the source
//	                   VALUE first), and a slice argument of a call whose callee only reads it (len(p), p[i], range p) does not mark
//	                   the argument's storage as shared.
//	slice out-params   a slice parameter that the body writes in place (p[i] = v, copy(p, ..), copy(p[a:b], ..)) and never
//	                   reassigns as a whole is returned (after the receiver and the package-level state, before the results), so
//	                   that the caller's view of the shared array is explicit.  Calls of such functions are refused for now.
package main

import (
	"fmt"
	"go/ast"
	"go/constant"
	"go/token"
	"go/types"
	"strings"
)

const kIface kind = 100 // [ext:T03] an interface listed in TransSpec.Ifaces: a sum of translated structs

type implInfo struct {
	goName string
	obj    *types.TypeName
	st     *structInfo
}

type ifaceInfo struct {
	name  string
	obj   *types.TypeName
	impls []implInfo
}

type ext03 struct {
	ifaces   map[*types.TypeName]*ifaceInfo
	outsMemo map[*funcInfo][]*types.Var
}

// ---- setup: aliases of translated structs, interface sums -------------------------------------------------------------

// setup03 runs after the Records have been registered; it returns the Inductive definitions of the interface sums.
func (t *Translator) setup03(tpkg *types.Package, spec TransSpec) string {
	t.ifaces, t.outsMemo = map[*types.TypeName]*ifaceInfo{}, map[*funcInfo][]*types.Var{}
	if !spec.Ext03 && len(spec.Ifaces) == 0 {
		return ""
	}
	// type B A: the same Record
	var regs []*types.TypeName
	for obj := range t.structs {
		regs = append(regs, obj)
	}
	for _, name := range tpkg.Scope().Names() {
		obj, _ := tpkg.Scope().Lookup(name).(*types.TypeName)
		if obj == nil || obj.IsAlias() || t.structs[obj] != nil {
			continue
		}
		st, ok := obj.Type().Underlying().(*types.Struct)
		if !ok {
			continue
		}
		var hit *structInfo
		for _, r := range regs {
			if types.Identical(st, r.Type().Underlying()) {
				if hit != nil && hit != t.structs[r] {
					hit = nil // ambiguous: two different Records have this shape; leave the type untranslated
					break
				}
				hit = t.structs[r]
			}
		}
		if hit != nil {
			t.structs[obj] = hit
		}
	}
	var b strings.Builder
	var names []string
	for n := range spec.Ifaces {
		names = append(names, n)
	}
	sortStrings(names)
	for _, n := range names {
		obj, _ := tpkg.Scope().Lookup(n).(*types.TypeName)
		if obj == nil {
			t.fail(nil, "interface type %s not found", n)
		}
		it, ok := obj.Type().Underlying().(*types.Interface)
		if !ok {
			t.fail(nil, "%s is not an interface type", n)
		}
		ii := &ifaceInfo{name: n, obj: obj}
		fmt.Fprintf(&b, "\n(* type %s interface: the sum of its translated implementations (pointer identity is not modelled) *)\nInductive %s : Type :=", n, n)
		for _, in := range spec.Ifaces[n] {
			io, _ := tpkg.Scope().Lookup(in).(*types.TypeName)
			if io == nil || t.structs[io] == nil {
				t.fail(nil, "implementation %s of %s is not a translated struct", in, n)
			}
			if !types.Implements(types.NewPointer(io.Type()), it) {
				t.fail(nil, "*%s does not implement %s", in, n)
			}
			ii.impls = append(ii.impls, implInfo{goName: in, obj: io, st: t.structs[io]})
			fmt.Fprintf(&b, "\n| %s_%s (x : %s)", n, in, t.structs[io].name)
			t.global[n+"_"+in] = true
		}
		b.WriteString(".\n")
		t.global[n] = true
		t.ifaces[obj] = ii
	}
	return b.String()
}

func sortStrings(s []string) {
	for i := 1; i < len(s); i++ {
		for j := i; j > 0 && s[j] < s[j-1]; j-- {
			s[j], s[j-1] = s[j-1], s[j]
		}
	}
}

// iface03: the gtype of a named interface listed in TransSpec.Ifaces.
func (t *Translator) iface03(x *types.Named) (gtype, bool) {
	if ii := t.ifaces[x.Origin().Obj()]; ii != nil {
		return gtype{k: kIface, ifc: ii}, true
	}
	return gtype{}, false
}

// ---- paths ------------------------------------------------------------------------------------------------------------

type phop struct {
	owner  *structInfo
	field  string // Record field name
	goName string
	ty     gtype
}

// spath: a struct-typed variable followed by field hops; the storage an lvalue / receiver expression denotes.
type spath struct {
	v    *varInfo
	hops []phop
	tmp  string // the name a written path receiver comes back under
}

func (p *spath) prefixTerm(n int) string {
	s := p.v.name
	for _, h := range p.hops[:n] {
		s = fmt.Sprintf("(%s_%s %s)", h.owner.name, h.field, s)
	}
	return s
}
func (p *spath) term() string { return p.prefixTerm(len(p.hops)) }
func (p *spath) typ() gtype {
	if len(p.hops) == 0 {
		return p.v.ty
	}
	return p.hops[len(p.hops)-1].ty
}
func (p *spath) key() string {
	s := p.v.name
	for _, h := range p.hops {
		s += "." + h.goName
	}
	return s
}

// ptrBefore: a pointer field is crossed before the last hop (the last hop itself may be a pointer field being read).
func (p *spath) ptrBefore(n int) bool {
	for _, h := range p.hops[:n] {
		if h.ty.k == kStruct && h.ty.ptr {
			return true
		}
	}
	return false
}

func (p *spath) setLet(val string) string {
	for i := len(p.hops) - 1; i >= 0; i-- {
		h := p.hops[i]
		val = fmt.Sprintf("(set_%s_%s %s %s)", h.owner.name, h.field, p.prefixTerm(i), val)
	}
	if val == p.v.name {
		return ""
	}
	return fmt.Sprintf("let %s := %s in\n", p.v.name, val)
}

func (t *Translator) structOfType(ty types.Type) (*structInfo, *types.Struct) {
	if p, ok := ty.(*types.Pointer); ok {
		ty = p.Elem()
	}
	nm, ok := ty.(*types.Named)
	if !ok {
		return nil, nil
	}
	si := t.structs[nm.Origin().Obj()]
	st, _ := nm.Underlying().(*types.Struct)
	if si == nil || st == nil {
		return nil, nil
	}
	return si, st
}

// hops03 walks field indices (of a go/types Selection) from a value of type ty.
func (t *Translator) hops03(ty types.Type, index []int, at ast.Node) []phop {
	var hops []phop
	for _, idx := range index {
		si, st := t.structOfType(ty)
		if si == nil {
			t.fail(at, "field of %s, which is not a translated struct", ty)
		}
		f := st.Field(idx)
		j := -1
		for k, g := range si.goNames {
			if g == f.Name() {
				j = k
			}
		}
		if j < 0 {
			t.fail(at, "field %s of %s", f.Name(), si.name)
		}
		hops = append(hops, phop{owner: si, field: si.fields[j], goName: f.Name(), ty: si.ftypes[j]})
		ty = f.Type()
	}
	return hops
}

// convArg03: the operand of a conversion T(e) / (*T)(e), nil when x is not a conversion.
func (t *Translator) convArg03(x *ast.CallExpr) ast.Expr {
	if tv, ok := t.info.Types[x.Fun]; ok && tv.IsType() && len(x.Args) == 1 {
		return x.Args[0]
	}
	return nil
}

// pathOf03: e as a path (nil when it is not one). plain reports "a variable, or a variable and ONE explicit field of it":
// what the core translates itself.
func (c *fctx) pathOf03(e ast.Expr, en *env) (p *spath, plain bool) {
	t := c.t
	switch x := ast.Unparen(e).(type) {
	case *ast.Ident:
		o := t.info.Uses[x]
		if o == nil {
			o = t.info.Defs[x]
		}
		if v := en.lookup(o); v != nil && v.ty.k == kStruct {
			return &spath{v: v}, true
		}
	case *ast.StarExpr:
		if p, _ := c.pathOf03(x.X, en); p != nil && p.typ().ptr {
			return p, false
		}
	case *ast.CallExpr:
		a := t.convArg03(x)
		if a == nil {
			return nil, false
		}
		p, _ := c.pathOf03(a, en)
		if p == nil {
			return nil, false
		}
		if to := t.exprType(x); to.k != kStruct || to.st != p.typ().st {
			t.fail(x, "conversion between different struct types")
		}
		return p, false
	case *ast.SelectorExpr:
		sel := t.info.Selections[x]
		if sel == nil || sel.Kind() != types.FieldVal {
			return nil, false
		}
		base, bplain := c.pathOf03(x.X, en)
		if base == nil {
			return nil, false
		}
		hops := t.hops03(sel.Recv(), sel.Index(), x)
		return &spath{v: base.v, hops: append(append([]phop{}, base.hops...), hops...)}, bplain && len(base.hops) == 0 && len(hops) == 1
	}
	return nil, false
}

// selector03: a field read through a path the core does not handle (nested, promoted, through a conversion).
func (c *fctx) selector03(x *ast.SelectorExpr, en *env, k func(string) string) (string, bool) {
	if !c.t.spec.Ext03 {
		return "", false
	}
	p, plain := c.pathOf03(x, en)
	if p == nil || plain {
		return "", false
	}
	if p.typ().k == kStruct {
		c.t.fail(x, "struct-typed field %s used as a value", x.Sel.Name)
	}
	c.t.exprType(x)
	return k(p.term()), true
}

// store03: assignment to a field through such a path.
func (c *fctx) store03(x *ast.SelectorExpr, val string, en *env, k func() string) (string, bool) {
	if !c.t.spec.Ext03 {
		return "", false
	}
	p, plain := c.pathOf03(x, en)
	if p == nil || plain {
		return "", false
	}
	if p.typ().k == kStruct {
		c.t.fail(x, "assignment of a whole struct to field %s", x.Sel.Name)
	}
	if p.ptrBefore(len(p.hops)) {
		c.t.fail(x, "write through a pointer field (pointer fields are read-only views)")
	}
	return p.setLet(val) + k(), true
}

// key03: the aliasing key of a slice-typed field reached through such a path ("" = not one).
func (c *fctx) key03(x *ast.SelectorExpr, en *env) string {
	if !c.t.spec.Ext03 {
		return ""
	}
	p, plain := c.pathOf03(x, en)
	if p == nil || plain {
		return ""
	}
	return p.key()
}

// recv03: the receiver of a method call: a plain struct variable (the core's structVar) or a path (explicit fields,
// embedded structs a promoted method is reached through, conversions between a struct type and its twin).
func (c *fctx) recv03(x *ast.CallExpr, recv ast.Expr, fi *funcInfo, en *env) *varInfo {
	t := c.t
	if !t.spec.Ext03 {
		return c.structVar(recv, en)
	}
	p, plain := c.pathOf03(recv, en)
	if p == nil {
		return c.structVar(recv, en)
	}
	var extra []phop
	if se, ok := ast.Unparen(x.Fun).(*ast.SelectorExpr); ok {
		if sel := t.info.Selections[se]; sel != nil && sel.Kind() == types.MethodVal && len(sel.Index()) > 1 {
			extra = t.hops03(sel.Recv(), sel.Index()[:len(sel.Index())-1], x)
		}
	}
	if plain && len(p.hops) == 0 && len(extra) == 0 {
		return c.structVar(recv, en)
	}
	p = &spath{v: p.v, hops: append(append([]phop{}, p.hops...), extra...)}
	if p.typ().k != kStruct || p.typ().st != fi.recvT.st {
		t.fail(x, "receiver of %s", fi.goName)
	}
	if fi.writes && p.ptrBefore(len(p.hops)) {
		t.fail(x, "call of %s, which writes its receiver, through a pointer field (pointer fields are read-only views)", fi.goName)
	}
	return &varInfo{obj: p.v.obj, name: p.term(), ty: p.typ(), path: p}
}

// recvKey03: the aliasing-key prefix of a receiver.
func recvKey03(rv *varInfo) string {
	if rv.path != nil {
		return rv.path.key() + "."
	}
	return rv.name + "."
}

// recvPat03: the name the written receiver comes back under.
func (c *fctx) recvPat03(rv *varInfo) string {
	if rv.path == nil {
		return rv.name
	}
	rv.path.tmp = c.fresh("r")
	return rv.path.tmp
}

// recvBack03: store a written path receiver back into the variable it lives in.
func recvBack03(rv *varInfo, fi *funcInfo) string {
	if rv == nil || rv.path == nil || !fi.writes || rv.path.tmp == "" {
		return ""
	}
	return rv.path.setLet(rv.path.tmp)
}

// ---- int(u) for a bounded 64-bit unsigned operand -----------------------------------------------------------------------

func (c *fctx) fitsInt03(e ast.Expr) bool {
	limit := constant.Shift(constant.MakeInt64(1), token.SHL, 63)
	if be, ok := ast.Unparen(e).(*ast.BinaryExpr); ok {
		switch be.Op {
		case token.SHR:
			if v, ok := c.constInt(be.Y); ok && constant.Compare(v, token.GEQ, constant.MakeInt64(1)) {
				return true
			}
		case token.AND:
			for _, o := range []ast.Expr{be.X, be.Y} {
				if v, ok := c.constInt(o); ok && constant.Sign(v) >= 0 && constant.Compare(v, token.LSS, limit) {
					return true
				}
			}
		case token.REM:
			if v, ok := c.constInt(be.Y); ok && constant.Sign(v) > 0 && constant.Compare(v, token.LEQ, limit) {
				return true
			}
		case token.QUO:
			if v, ok := c.constInt(be.Y); ok && constant.Compare(v, token.GEQ, constant.MakeInt64(2)) {
				return true
			}
		}
	}
	return false
}

// ---- composite literals ---------------------------------------------------------------------------------------------------

func hasPtrField(si *structInfo) bool {
	for _, ft := range si.ftypes {
		if ft.k == kStruct && (ft.ptr || hasPtrField(ft.st)) {
			return true
		}
	}
	return false
}

// zeroOK03: `var x S` for a struct with a pointer field would hold a nil pointer, which the read-only view cannot express.
func (c *fctx) zeroOK03(g gtype, at ast.Node) {
	if g.k == kStruct && !g.ptr && hasPtrField(g.st) {
		c.t.fail(at, "zero value of %s, which has a pointer field", g.st.name)
	}
	if g.k == kIface {
		c.t.fail(at, "variable of interface type %s", g.ifc.name)
	}
}

func (c *fctx) compLit03(x *ast.CompositeLit, en *env, k func(string) string) string {
	t := c.t
	g := t.exprType(x)
	if !t.spec.Ext03 || g.k != kStruct || g.ptr {
		t.fail(x, "expression CompositeLit")
	}
	si := g.st
	if hasPtrField(si) {
		t.fail(x, "composite literal of %s, which has a pointer field", si.name)
	}
	vals := make([]ast.Expr, len(si.fields))
	for _, el := range x.Elts {
		kv, ok := el.(*ast.KeyValueExpr)
		if !ok {
			t.fail(el, "composite literal without field names")
		}
		id, ok := kv.Key.(*ast.Ident)
		if !ok {
			t.fail(el, "composite literal key")
		}
		j := -1
		for i, gname := range si.goNames {
			if gname == id.Name {
				j = i
			}
		}
		if j < 0 || vals[j] != nil {
			t.fail(el, "composite literal field %s", id.Name)
		}
		vals[j] = kv.Value
	}
	terms := make([]string, len(si.fields))
	var rec func(i int) string
	rec = func(i int) string {
		if i == len(vals) {
			return k("(mk" + si.name + " " + strings.Join(terms, " ") + ")")
		}
		if vals[i] == nil {
			terms[i] = si.ftypes[i].zero()
			return rec(i + 1)
		}
		if si.ftypes[i].k == kSlice {
			if src, ok := c.aliasSource(vals[i], en); ok && !c.deadLocal03(src, vals[i], en) {
				t.fail(vals[i], "composite literal field that shares its array with %s (aliasing is not modelled)", src)
			}
		}
		return c.expr(vals[i], en, func(v string) string {
			terms[i] = v
			return rec(i + 1)
		})
	}
	// evaluation order: source order of the elements; keyed literals here are required to list the fields in declaration
	// order when more than one value can panic, which the recursion above realises only for declaration order
	last := -1
	for _, el := range x.Elts {
		id := el.(*ast.KeyValueExpr).Key.(*ast.Ident)
		for i, gname := range si.goNames {
			if gname == id.Name {
				if i < last {
					t.fail(el, "composite literal with fields out of declaration order")
				}
				last = i
			}
		}
	}
	return rec(0)
}

// deadLocal03: key names a local variable (not a parameter, not the receiver) whose only use in the function lies inside `at`.
func (c *fctx) deadLocal03(key string, at ast.Node, en *env) bool {
	var v *varInfo
	for i := range en.vars {
		if en.vars[i].name == key {
			v = &en.vars[i]
		}
	}
	if v == nil || v.obj == nil {
		return false
	}
	if c.fi.recv != nil && v.obj == types.Object(c.fi.recv) {
		return false
	}
	sig := c.fi.obj.Type().(*types.Signature)
	for i := 0; i < sig.Params().Len(); i++ {
		if types.Object(sig.Params().At(i)) == v.obj {
			return false
		}
	}
	ok := true
	ast.Inspect(c.fi.decl.Body, func(n ast.Node) bool {
		if id, isId := n.(*ast.Ident); isId && c.t.info.Uses[id] == v.obj {
			if id.Pos() < at.Pos() || id.End() > at.End() {
				ok = false
			}
		}
		return ok
	})
	return ok
}

// ---- interface results ----------------------------------------------------------------------------------------------------

func (c *fctx) hasIfaceResult03() bool {
	for _, g := range c.fi.results {
		if g.k == kIface {
			return true
		}
	}
	return false
}

// retForOrder03: the part of a return statement whose evaluation order matters (a pointer wrapped into an interface is not
// a read of the pointee).
func (c *fctx) retForOrder03(x *ast.ReturnStmt) ast.Node {
	if !c.hasIfaceResult03() || len(x.Results) != len(c.fi.results) {
		return x
	}
	var rest []ast.Expr
	for i, r := range x.Results {
		if c.fi.results[i].k != kIface {
			rest = append(rest, r)
		}
	}
	return &ast.ReturnStmt{Return: x.Return, Results: rest}
}

// retArgs03: the result expressions of a return; an interface result is built from the final state of the variable.
func (c *fctx) retArgs03(es []ast.Expr, en *env, k func([]string) string) string {
	if !c.hasIfaceResult03() {
		return c.args(es, en, k)
	}
	var plain []ast.Expr
	for i, e := range es {
		if c.fi.results[i].k != kIface {
			plain = append(plain, e)
		}
	}
	return c.args(plain, en, func(vs []string) string {
		out := make([]string, len(es))
		j := 0
		for i, e := range es {
			if c.fi.results[i].k == kIface {
				out[i] = c.ifaceWrap03(e, c.fi.results[i].ifc, en)
			} else {
				out[i] = vs[j]
				j++
			}
		}
		return k(out)
	})
}

func (c *fctx) ifaceWrap03(e ast.Expr, ii *ifaceInfo, en *env) string {
	t := c.t
	e = ast.Unparen(e)
	inner := e
	addr := false
	if u, ok := e.(*ast.UnaryExpr); ok && u.Op == token.AND {
		inner, addr = ast.Unparen(u.X), true
	}
	id, ok := inner.(*ast.Ident)
	if !ok {
		t.fail(e, "interface value built from %s (only a pointer variable or &local)", nodeDesc(e))
	}
	v := en.lookup(t.info.Uses[id])
	if v == nil || v.ty.k != kStruct || v.ty.ptr == addr {
		t.fail(e, "interface value built from %s (only a pointer variable or &local)", id.Name)
	}
	ty := t.info.Types[inner].Type
	if p, isPtr := ty.(*types.Pointer); isPtr {
		ty = p.Elem()
	}
	nm, _ := ty.(*types.Named)
	if nm == nil {
		t.fail(e, "interface value of an unnamed type")
	}
	for _, im := range ii.impls {
		if im.obj == nm.Origin().Obj() {
			return fmt.Sprintf("(%s_%s %s)", ii.name, im.goName, v.name)
		}
	}
	t.fail(e, "%s is not listed as an implementation of %s", nm.Obj().Name(), ii.name)
	return ""
}

// ---- unsafe ---------------------------------------------------------------------------------------------------------------

// unsafe03: *(*[N]uintK)(unsafe.Pointer(&s[i])) -> bounds check of s[i], then an extra parameter of the function.
func (c *fctx) unsafe03(x *ast.StarExpr, en *env, k func(string) string) string {
	t := c.t
	bad := func() string { t.fail(x, "expression StarExpr"); return "" }
	conv, ok := ast.Unparen(x.X).(*ast.CallExpr)
	if !ok || t.convArg03(conv) == nil {
		return bad()
	}
	pt, ok := t.info.Types[conv].Type.(*types.Pointer)
	if !ok {
		return bad()
	}
	if _, isArr := pt.Elem().Underlying().(*types.Array); !isArr {
		return bad()
	}
	g := t.typeOf(pt.Elem(), x)
	up, ok := ast.Unparen(conv.Args[0]).(*ast.CallExpr)
	if !ok || t.convArg03(up) == nil || t.info.Types[up].Type != types.Typ[types.UnsafePointer] {
		return bad()
	}
	addr, ok := ast.Unparen(up.Args[0]).(*ast.UnaryExpr)
	if !ok || addr.Op != token.AND {
		return bad()
	}
	ix, ok := ast.Unparen(addr.X).(*ast.IndexExpr)
	if !ok {
		return bad()
	}
	return c.expr(ix, en, func(string) string {
		name := c.fresh("mem")
		c.extra03 = append(c.extra03, fmt.Sprintf("(%s : list Z)", name))
		c.notes03 = append(c.notes03, fmt.Sprintf("%s : the %s read through unsafe.Pointer at %s — unspecified content", name, t.info.Types[x].Type, t.pos(x)))
		_ = g
		return k(name)
	})
}

// ---- slice parameters written in place ----------------------------------------------------------------------------------

// outs03: the slice parameters fi writes in place and never reassigns as a whole, in parameter order.
func (t *Translator) outs03(fi *funcInfo) []*types.Var {
	if !t.spec.Ext03 {
		return nil
	}
	if r, ok := t.outsMemo[fi]; ok {
		return r
	}
	sig := fi.obj.Type().(*types.Signature)
	written, whole := map[types.Object]bool{}, map[types.Object]bool{}
	direct := func(e ast.Expr) types.Object { // p[i] or p[a:b] or p, p an identifier
		e = ast.Unparen(e)
		switch x := e.(type) {
		case *ast.IndexExpr:
			e = ast.Unparen(x.X)
		case *ast.SliceExpr:
			e = ast.Unparen(x.X)
		}
		if id, ok := e.(*ast.Ident); ok {
			return t.info.Uses[id]
		}
		return nil
	}
	ast.Inspect(fi.decl.Body, func(n ast.Node) bool {
		switch x := n.(type) {
		case *ast.AssignStmt:
			for _, l := range x.Lhs {
				if id, ok := ast.Unparen(l).(*ast.Ident); ok {
					if o := t.info.Uses[id]; o != nil {
						whole[o] = true
					}
				} else if _, ok := ast.Unparen(l).(*ast.IndexExpr); ok {
					if o := direct(l); o != nil {
						written[o] = true
					}
				}
			}
		case *ast.IncDecStmt:
			if _, ok := ast.Unparen(x.X).(*ast.IndexExpr); ok {
				if o := direct(x.X); o != nil {
					written[o] = true
				}
			}
		case *ast.RangeStmt:
			for _, l := range []ast.Expr{x.Key, x.Value} {
				if l != nil && x.Tok == token.ASSIGN {
					if o := direct(l); o != nil {
						whole[o] = true
					}
				}
			}
		case *ast.CallExpr:
			if id, ok := ast.Unparen(x.Fun).(*ast.Ident); ok && len(x.Args) == 2 {
				if b, ok := t.info.Uses[id].(*types.Builtin); ok && b.Name() == "copy" {
					if o := direct(x.Args[0]); o != nil {
						written[o] = true
					}
				}
			}
		}
		return true
	})
	var outs []*types.Var
	for i := 0; i < sig.Params().Len(); i++ {
		p := sig.Params().At(i)
		if _, isSlice := p.Type().Underlying().(*types.Slice); isSlice && written[p] && !whole[p] {
			outs = append(outs, p)
		}
	}
	t.outsMemo[fi] = outs
	return outs
}

func (t *Translator) isOut03(fi *funcInfo, p *types.Var) bool {
	for _, o := range t.outs03(fi) {
		if o == p {
			return true
		}
	}
	return false
}

func (t *Translator) outTypes03(fi *funcInfo) []string {
	var r []string
	for range t.outs03(fi) {
		r = append(r, "list Z")
	}
	return r
}

func (c *fctx) outNames03(en *env) []string {
	var r []string
	for _, o := range c.t.outs03(c.fi) {
		r = append(r, en.lookup(o).name)
	}
	return r
}

// callable03: functions whose interface carries ext03 state the call translation does not thread yet.
func (c *fctx) callable03(fi *funcInfo, at ast.Node) {
	if fi.nExtra03 > 0 {
		c.t.fail(at, "call of %s, which reads memory through unsafe.Pointer (an extra parameter of its translation)", fi.goName)
	}
	if len(c.t.outs03(fi)) > 0 {
		c.t.fail(at, "call of %s, which writes a slice parameter in place", fi.goName)
	}
	for _, g := range fi.results {
		if g.k == kIface {
			c.t.fail(at, "call of %s, which returns an interface value", fi.goName)
		}
	}
}

// notesComment03: the comment lines emitFunc puts in front of a definition.
func (c *fctx) notesComment03() string {
	if len(c.notes03) == 0 {
		return ""
	}
	return "(* " + strings.Join(c.notes03, "; ") + " *)\n"
}

// onlyReads03: the i-th parameter of fn is a slice that the body uses only as len(p) / cap(p) / p[i] (read) / range p, so
// that the callee can neither keep nor return (a part of) the caller's array.
func (t *Translator) onlyReads03(fn *types.Func, i int) bool {
	if !t.spec.Ext03 {
		return false
	}
	fi := t.funcs[fn]
	if fi == nil || fi.decl.Body == nil {
		return false
	}
	sig := fn.Type().(*types.Signature)
	if i >= sig.Params().Len() || sig.Variadic() {
		return false
	}
	p := sig.Params().At(i)
	ok := true
	var stack []ast.Node
	ast.Inspect(fi.decl.Body, func(n ast.Node) bool {
		if n == nil {
			stack = stack[:len(stack)-1]
			return true
		}
		if id, isId := n.(*ast.Ident); isId && t.info.Uses[id] == types.Object(p) && len(stack) > 0 {
			switch par := stack[len(stack)-1].(type) {
			case *ast.IndexExpr:
				if par.X != ast.Expr(id) {
					ok = false
				}
				if len(stack) > 1 { // not the target of an assignment, ++ or &
					switch gp := stack[len(stack)-2].(type) {
					case *ast.AssignStmt:
						for _, l := range gp.Lhs {
							if l == ast.Expr(par) {
								ok = false
							}
						}
					case *ast.IncDecStmt:
						ok = false
					case *ast.UnaryExpr:
						if gp.Op == token.AND {
							ok = false
						}
					}
				}
			case *ast.RangeStmt:
				if par.X != ast.Expr(id) {
					ok = false
				}
			case *ast.CallExpr:
				fid, isFid := par.Fun.(*ast.Ident)
				b, _ := t.info.Uses[fid].(*types.Builtin)
				if !isFid || b == nil || (b.Name() != "len" && b.Name() != "cap") {
					ok = false
				}
			default:
				ok = false
			}
		}
		stack = append(stack, n)
		return true
	})
	return ok
}

// ---- heads: the leading simple declarations of a function ---------------------------------------------------------------

func (t *Translator) addHeads03(spec TransSpec) {
	for _, fn := range spec.Heads {
		fd := t.byName[fn]
		if fd == nil {
			t.fail(nil, "function %s (of a head fragment) not found", fn)
		}
		n := 0
		for n < len(fd.Body.List) && t.simpleDecl20(fd.Body.List[n]) {
			n++
		}
		if n == 0 {
			t.fail(fd, "function %s does not start with a simple declaration", fn)
		}
		fr := &fragInfo{stmts: fd.Body.List[:n]}
		end := fr.stmts[n-1].End()
		inFrag := func(pos token.Pos) bool { return pos >= fr.stmts[0].Pos() && pos < end }
		seen := map[types.Object]bool{}
		var declared []*types.Var
		for _, st := range fr.stmts {
			ast.Inspect(st, func(m ast.Node) bool {
				id, ok := m.(*ast.Ident)
				if !ok {
					return true
				}
				if v, ok := t.info.Defs[id].(*types.Var); ok && id.Name != "_" {
					declared = append(declared, v)
					return true
				}
				v, ok := t.info.Uses[id].(*types.Var)
				if !ok || v.IsField() || seen[v] || v.Parent() == t.tpkg.Scope() || inFrag(v.Pos()) {
					return true
				}
				seen[v] = true
				fr.params = append(fr.params, v)
				return true
			})
		}
		sortVars := func(vs []*types.Var) {
			for i := 1; i < len(vs); i++ {
				for j := i; j > 0 && vs[j].Pos() < vs[j-1].Pos(); j-- {
					vs[j], vs[j-1] = vs[j-1], vs[j]
				}
			}
		}
		sortVars(fr.params)
		usedAfter := map[types.Object]bool{}
		for _, st := range fd.Body.List[n:] {
			ast.Inspect(st, func(m ast.Node) bool {
				if id, ok := m.(*ast.Ident); ok {
					if o := t.info.Uses[id]; o != nil {
						usedAfter[o] = true
					}
				}
				return true
			})
		}
		for _, v := range declared {
			if usedAfter[v] {
				fr.results = append(fr.results, v)
			}
		}
		sortVars(fr.results)
		key := fn + ".head"
		name := "g_" + strings.NewReplacer(".", "_", ":", "_").Replace(key)
		decl := &ast.FuncDecl{Name: ast.NewIdent(name), Type: fd.Type, Body: &ast.BlockStmt{Lbrace: fr.stmts[0].Pos(), List: fr.stmts, Rbrace: end}}
		obj := types.NewFunc(fr.stmts[0].Pos(), t.tpkg, name, types.NewSignatureType(nil, nil, nil, nil, nil, false))
		fi := &funcInfo{decl: decl, obj: obj, goName: key, name: name, callees: map[*funcInfo]bool{}, frag: fr}
		for _, v := range fr.results {
			fi.results = append(fi.results, t.typeOf(v.Type(), fr.stmts[0]))
		}
		t.funcs[obj] = fi
		t.global[name] = true
	}
}
