// Area StrconvCode (C15): the Go -> Gallina translation (gen/trans.go + gen/trans_ext15.go) of strz/std_strconv.go —
// ParseUint (generic over string | []byte: the byte-list instantiation), lower, underscoreOK — and of strz/std_hex.go —
// hexEncode, hexDecode, fromHexChar — plus the exported wrappers HexEncode / HexDecode (strz/enc.go).
// coq/Proofs/StrconvCode.v proves each generated function equal to the hand-written model function of Model/Strconv.v /
// Model/Hex.v on every run.  Fails closed on anything outside the subset (the area then degrades to gen/defaults).
//
// Errors: the code builds them with fmt.Errorf; the translation keeps the KIND (decided by the constant format text) as the
// small enum of the hand model (presult_kind: 1 syntax, 2 range, 3 base, 4 bit size; hex: invalid byte carrying the byte,
// hex.ErrLength).  The old extractor gen/strz_std.go (constants) stays.
package main

func init() { Register(Area{Name: "StrconvCode", Gen: genStrconvCode}) }

var strconvErrKinds = []ErrKind{
	{Name: "Syntax", Code: 1, Substr: "invalid syntax"},
	{Name: "Range", Code: 2, Substr: "value out of range"},
	{Name: "Base", Code: 3, Substr: "invalid base"},
	{Name: "BitSize", Code: 4, Substr: "invalid bit size"},
	{Name: "InvalidByte", Code: 5, Substr: "invalid byte", Arg: 1},
	{Name: "ErrLength", Code: 6, Foreign: "hex.ErrLength"},
}

func genStrconvCode(repo string) (string, error) {
	body, err := Translate(repo, TransSpec{
		Dir:        "strz",
		Funcs:      []string{"lower", "underscoreOK", "ParseUint", "fromHexChar", "hexEncode", "hexDecode", "HexEncode", "HexDecode"},
		WrapSigned: true, // rune (int32) variables: `saw := '^'`, rune(src[j])
		T15: T15Spec{ByteSeq: true, Imports: []string{"typez"}, ErrKinds: strconvErrKinds, OutParams: true, StdHexLen: true,
			// what Proofs/StrconvCode.v covers: one loop each, no table besides hextable (a fast-path loop or a reverse lookup
			// table translates fine but is another algorithm: degrade, the differential run decides)
			Loops:  map[string]int{"ParseUint": 1, "underscoreOK": 1, "hexEncode": 1, "hexDecode": 1, "lower": 0, "fromHexChar": 0, "HexEncode": 0, "HexDecode": 0},
			Consts: []string{"hextable"}},
	})
	if err != nil {
		return "", err
	}
	return "From Coq Require Import Bool.\nFrom V Require Import Lib.GoSem.\nImport GoNotations.\nLocal Open Scope Z_scope.\n" + body, nil
}
