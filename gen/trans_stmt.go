// go2v: statements, join points, loops, function emission.
package main

import (
	"fmt"
	"go/ast"
	"go/token"
	"go/types"
	"strings"
)

// lctx: how control leaves the current position.
type lctx struct {
	ret  func(v string) string // `return v`
	brk  func() string         // nil outside loops
	cont func() string
}

// kont: what follows a statement; cheap = small enough to be duplicated into both branches of an if.
type kont struct {
	f     func(*env) string
	cheap bool
}

func scoped(outer *env, k kont) kont {
	return kont{f: func(inner *env) string { return k.f(&env{vars: outer.vars, shared: inner.shared}) }, cheap: k.cheap}
}

func (c *fctx) stmts(list []ast.Stmt, en *env, lc *lctx, k kont) string {
	if len(list) == 0 {
		return k.f(en)
	}
	rest := list[1:]
	next := kont{f: func(e2 *env) string { return c.stmts(rest, e2, lc, k) }, cheap: len(rest) == 0 && k.cheap}
	return c.stmt(list[0], en, lc, next)
}

func (c *fctx) block(list []ast.Stmt, en *env, lc *lctx, k kont) string {
	return c.stmts(list, en, lc, scoped(en, k))
}

func (c *fctx) isPanicCall(s ast.Stmt) (*ast.CallExpr, bool) {
	if es, ok := s.(*ast.ExprStmt); ok {
		if call, ok := es.X.(*ast.CallExpr); ok && c.builtin(call) == "panic" {
			return call, true
		}
	}
	return nil, false
}

// mayFallThrough: conservative (true when in doubt); only decides between a join point and inlining.
func (c *fctx) mayFallThrough(list []ast.Stmt) bool {
	if len(list) == 0 {
		return true
	}
	switch x := list[len(list)-1].(type) {
	case *ast.ReturnStmt, *ast.BranchStmt:
		return false
	case *ast.ExprStmt:
		_, p := c.isPanicCall(x)
		return !p
	case *ast.BlockStmt:
		return c.mayFallThrough(x.List)
	case *ast.IfStmt:
		if x.Else == nil {
			return true
		}
		return c.mayFallThrough(x.Body.List) || c.mayFallThrough([]ast.Stmt{x.Else})
	}
	return true
}

// harmlessPanicArg: the argument of panic(...) is built from literals, variables, + and formatting calls only, so that
// evaluating it can neither panic nor assign.
func (c *fctx) harmlessPanicArg(e ast.Expr) bool {
	ok := true
	ast.Inspect(e, func(n ast.Node) bool {
		switch x := n.(type) {
		case *ast.CallExpr:
			name := ""
			if s, isSel := x.Fun.(*ast.SelectorExpr); isSel {
				if id, isId := s.X.(*ast.Ident); isId {
					name = id.Name + "." + s.Sel.Name
				}
			}
			switch name {
			case "strconv.Itoa", "strconv.FormatInt", "strconv.FormatUint", "fmt.Sprintf", "fmt.Sprint", "errors.New", "fmt.Errorf":
			default:
				if !c.isConversion(x) && c.builtin(x) != "len" {
					ok = false
				}
			}
		case *ast.IndexExpr, *ast.SliceExpr, *ast.StarExpr, *ast.TypeAssertExpr, *ast.FuncLit:
			ok = false
		case *ast.BinaryExpr:
			if x.Op != token.ADD && x.Op != token.SUB && x.Op != token.MUL {
				ok = false
			}
		case *ast.UnaryExpr:
			if x.Op == token.AND || x.Op == token.ARROW {
				ok = false
			}
		}
		return ok
	})
	return ok
}

// checkOrder: Go does not fix the order between a call that assigns a variable and other reads of that variable in the
// same statement; refuse such statements.
func (c *fctx) checkOrder(n ast.Node) {
	written := map[types.Object]bool{}
	var calls []*ast.CallExpr
	ast.Inspect(n, func(m ast.Node) bool {
		if x, ok := m.(*ast.CallExpr); ok {
			if fn, recv := c.t.calleeOf(x); fn != nil && recv != nil {
				if fi := c.t.funcs[fn]; fi != nil && fi.writes {
					if o, _ := c.t.rootObj(recv); o != nil {
						written[o] = true
						calls = append(calls, x)
					}
				}
			}
			if c.builtin(x) == "copy" {
				if o, _ := c.t.rootObj(x.Args[0]); o != nil {
					written[o] = true
					calls = append(calls, x)
				}
			}
			c.t.order07(x, written, &calls)        // [ext:T07] slice arguments written in place by the callee
			for _, a := range c.t.writtenArgs(x) { // in-out slice arguments (trans_func.go)
				if o, _ := c.t.rootObj(a); o != nil {
					written[o] = true
					calls = append(calls, x)
				}
			}
			if o := c.t.seqWrites(x); o != nil { // [seq] atomic Store / CompareAndSwap / Add
				written[o] = true
				calls = append(calls, x)
			}
			for _, o := range c.t.foreignWrites08(x) { // [ext:T08] slice arguments a foreign function writes
				written[o] = true
				calls = append(calls, x)
			}
			if fn, _ := c.t.calleeOf(x); fn != nil { // [ext:T20] package-level state written by the callee
				if fi := c.t.funcs[fn]; fi != nil {
					for g := range fi.gwrites {
						written[g.obj] = true
						calls = append(calls, x)
					}
				}
			}
			c.t.outAssigned15(x, func(o types.Object) { written[o], calls = true, append(calls, x) }) // [ext:T15]
		}
		return true
	})
	if len(written) == 0 {
		return
	}
	// reads inside the assigning call itself (receiver, arguments) happen before the call: they are fine
	ast.Inspect(n, func(m ast.Node) bool {
		if id, ok := m.(*ast.Ident); ok {
			if o := c.t.info.Uses[id]; o != nil && written[o] {
				for _, call := range calls {
					if call.Pos() <= id.Pos() && id.End() <= call.End() {
						return true
					}
				}
				c.t.fail(n, "statement that both calls something assigning %s and reads %s elsewhere (evaluation order)", o.Name(), o.Name())
			}
		}
		return true
	})
}

// taintCalls: slices passed to functions of the package may be kept or returned by them.
func (c *fctx) taintCalls(n ast.Node, en *env) *env {
	ast.Inspect(n, func(m ast.Node) bool {
		if x, ok := m.(*ast.CallExpr); ok {
			if fn, _ := c.t.calleeOf(x); fn != nil && !c.t.noRetain07(fn) { // [ext:T07] not: callees that can neither keep nor return it
				for i, a := range x.Args {
					if fi := c.t.funcs[fn]; fi != nil && i < len(fi.noesc) && fi.noesc[i] {
						continue // the callee neither keeps nor returns this slice (trans_func.go)
					}
					if c.t.onlyReads03(fn, i) { // [ext:T03] the callee only reads the elements / the length of this parameter
						continue
					}
					if c.t.notKept15(fn, i) { // [ext:T15] an out-parameter of a callee that can neither return nor store the slice
						continue
					}
					if tv, ok := c.t.info.Types[a]; ok && tv.Type != nil {
						if _, isSlice := tv.Type.Underlying().(*types.Slice); isSlice {
							if key, ok := c.aliasSource(a, en); ok && key != "?call" {
								en = en.share(key)
							}
						}
					}
				}
			}
		}
		return true
	})
	return en
}

// noteAlias updates the sharing information for `lhs = rhs` on slices.
func (c *fctx) noteAlias(lhs, rhs ast.Expr, en *env) *env {
	if tv, ok := c.t.info.Types[rhs]; !ok || tv.Type == nil {
		return en
	} else if _, isSlice := tv.Type.Underlying().(*types.Slice); !isSlice {
		if _, isNil := tv.Type.(*types.Basic); !isNil {
			return en
		}
	}
	lk := c.sliceKey(lhs, en)
	src, ok := c.aliasSource(rhs, en)
	switch {
	case !ok:
		if lk != "" {
			return en.unshare(lk)
		}
	case src == "?call":
		return en.share(lk)
	case src != lk:
		return en.share(lk, src)
	}
	return en
}

// preTaint: sharing created anywhere in a loop body holds at the start of the next iteration.
func (c *fctx) preTaint(n ast.Node, en *env) *env {
	ast.Inspect(n, func(m ast.Node) bool {
		if as, ok := m.(*ast.AssignStmt); ok && len(as.Lhs) == len(as.Rhs) {
			for i := range as.Lhs {
				if tv, ok := c.t.info.Types[as.Rhs[i]]; ok && tv.Type != nil {
					if _, isSlice := tv.Type.Underlying().(*types.Slice); isSlice {
						if src, ok := c.aliasSource(as.Rhs[i], en); ok {
							lk := c.sliceKey(as.Lhs[i], en)
							if lk == "" {
								if id, isId := as.Lhs[i].(*ast.Ident); isId {
									lk = id.Name // a variable declared inside the loop: its name is unique enough to be conservative
								}
							}
							if src != lk {
								en = en.share(lk, strings.TrimPrefix(src, "?call"))
							}
						}
					}
				}
			}
		}
		return true
	})
	return c.taintCalls(n, en)
}

// assignTo stores val into lhs (variable, field or indexed element of one of those).
func (c *fctx) assignTo(lhs ast.Expr, val string, en *env, k func() string) string {
	if s, ok := c.seqAssign(lhs, val, en, k); ok { // [seq] h.f = v, s[i].f = v
		return s
	}
	if ix, ok := ast.Unparen(lhs).(*ast.IndexExpr); ok {
		if g := c.t.exprType(ix.X); g.k != kSlice || g.elem != nil {
			c.t.fail(lhs, "indexed assignment to a non-slice (or of a whole struct element)")
		}
		c.t.exprType(ix)
		key := c.sliceKey(ix.X, en)
		c.checkWritable(key, en, lhs)
		return c.expr(ix.X, en, func(b string) string {
			return c.expr(ix.Index, en, func(i string) string {
				v := c.fresh("s")
				return fmt.Sprintf("do %s <- %s %s %s %s;;\n%s", v, setFn08(c.t.exprType(ix.X)), b, i, val, c.store(ix.X, v, en, k)) // [ext:T08] m_setA on [][]byte
			})
		})
	}
	c.seqWholeSliceStore(lhs, en) // [seq] no pointer into the slice may be live
	return c.store(lhs, val, en, k)
}

func (c *fctx) stmt(s ast.Stmt, en *env, lc *lctx, next kont) string {
	t := c.t
	switch x := s.(type) {
	case *ast.EmptyStmt:
		return next.f(en)
	case *ast.BlockStmt:
		return c.block(x.List, en, lc, next)
	case *ast.ExprStmt:
		call, ok := x.X.(*ast.CallExpr)
		if !ok {
			t.fail(s, "expression statement %s", nodeDesc(x.X))
		}
		if c.builtin(call) == "panic" {
			if len(call.Args) != 1 || !c.harmlessPanicArg(call.Args[0]) {
				t.fail(s, "panic with an argument whose evaluation may itself panic or assign")
			}
			return "Panic"
		}
		c.checkOrder(s)
		return c.call(call, en, func([]string) string { return next.f(c.taintCalls(s, en)) })
	case *ast.IncDecStmt:
		g := t.exprType(x.X)
		if g.k != kInt && g.k != kUint {
			t.fail(s, "++/-- on a non-integer")
		}
		op := "+"
		if x.Tok == token.DEC {
			op = "-"
		}
		return c.expr(x.X, en, func(a string) string {
			return c.assignTo(x.X, c.wrapIf(g, "("+a+" "+op+" 1)"), en, func() string { return next.f(en) })
		})
	case *ast.AssignStmt:
		return c.assign(x, en, next)
	case *ast.DeclStmt:
		gd, ok := x.Decl.(*ast.GenDecl)
		if !ok || gd.Tok != token.VAR {
			t.fail(s, "declaration statement (only var)")
		}
		type item struct {
			id  *ast.Ident
			val ast.Expr
		}
		var items []item
		for _, sp := range gd.Specs {
			vs := sp.(*ast.ValueSpec)
			if len(vs.Values) != 0 && len(vs.Values) != len(vs.Names) {
				t.fail(s, "var declaration with a multi-valued initialiser")
			}
			for i, id := range vs.Names {
				var v ast.Expr
				if len(vs.Values) > 0 {
					v = vs.Values[i]
				}
				items = append(items, item{id, v})
			}
		}
		var rec func(i int, en *env) string
		rec = func(i int, en *env) string {
			if i == len(items) {
				return next.f(en)
			}
			it := items[i]
			obj := t.info.Defs[it.id]
			if it.id.Name == "_" || obj == nil {
				if it.val == nil {
					return rec(i+1, en)
				}
				return c.expr(it.val, en, func(string) string { return rec(i+1, en) })
			}
			g := t.typeOf(obj.Type(), it.id)
			if g.k == kStruct && g.ptr {
				t.fail(s, "pointer variable %s", it.id.Name)
			}
			if it.val == nil {
				c.zeroOK03(g, s)     // [ext:T03] no zero value of a struct with a pointer field
				c.noZero08(g, it.id) // [ext:T08]
				if noZero(g) {
					t.fail(s, "zero value of %s, which contains a function (nil functions are not modelled)", it.id.Name)
				}
				en2, name := c.declare(en, obj, g)
				return fmt.Sprintf("let %s := %s in\n%s", name, g.zero(), rec(i+1, en2))
			}
			c.checkOrder(it.val)
			if g.k == kErr { // [ext:T20] var err error = nil
				c.markNilAs20(it.val)
			}
			c.refuseNilOpaque08(g, it.val) // [ext:T08]
			return c.expr(it.val, en, func(v string) string {
				en2, name := c.declare(c.taintCalls(it.val, en), obj, g)
				en2 = c.noteAlias(it.id, it.val, en2)
				return fmt.Sprintf("let %s := %s in\n%s", name, v, rec(i+1, en2))
			})
		}
		return rec(0, en)
	case *ast.ReturnStmt:
		c.checkOrder(c.retForOrder03(x))                // [ext:T03] s, without the pointers that become interface values
		if len(x.Results) == 0 && len(c.fi.named) > 0 { // [BitsCode] bare return: the current values of the named results
			var vs []string
			for _, rv := range c.fi.named {
				v := en.lookup(rv)
				if v == nil {
					t.fail(s, "bare return: named result %s is not in scope", rv.Name())
				}
				vs = append(vs, v.name)
			}
			return lc.ret(c.retTerm(en, vs))
		}
		if len(x.Results) == 1 && len(c.fi.results) > 1 {
			call, ok := ast.Unparen(x.Results[0]).(*ast.CallExpr)
			if !ok {
				t.fail(s, "return")
			}
			return c.call(call, en, func(vs []string) string { return lc.ret(c.retTerm(en, vs)) })
		}
		if len(x.Results) != len(c.fi.results) {
			t.fail(s, "return with %d values in a function with %d results", len(x.Results), len(c.fi.results))
		}
		c.inRet++ // [BitsCode] struct literals in a return operand may hold named slices
		defer func() { c.inRet-- }()
		for i, r := range x.Results { // [ext:T20] `return v, nil` in a function with an error result
			if c.fi.results[i].k == kErr {
				c.markNilAs20(r)
			}
			c.refuseNilOpaque08(c.fi.results[i], r) // [ext:T08]
		}
		return c.retArgs03(x.Results, en, func(vs []string) string { return lc.ret(c.retTerm(en, vs)) }) // [ext:T03] c.args + interface results
	case *ast.BranchStmt:
		if x.Label != nil {
			t.fail(s, "%s with a label", x.Tok)
		}
		switch x.Tok {
		case token.BREAK:
			if lc.brk != nil {
				return lc.brk()
			}
		case token.CONTINUE:
			if lc.cont != nil {
				return lc.cont()
			}
		}
		t.fail(s, "%s here", x.Tok)
	case *ast.IfStmt:
		return c.ifStmt(x, en, lc, next)
	case *ast.SwitchStmt: // [seq] tagless switch -> if / else-if chain
		return c.switch15(x, en, lc, next) // [ext:T15] a tag becomes `tag == e` conditions, then c.switchStmt
	case *ast.ForStmt:
		return c.forStmt(x, en, lc, next)
	case *ast.RangeStmt:
		return c.rangeStmt(x, en, lc, next)
	}
	t.fail(s, "statement %s", nodeDesc(s))
	return ""
}

// retTerm: the value a `return vs` produces: the results, preceded by the receiver when the method writes it.
func (c *fctx) retTerm(en *env, vs []string) string {
	if io := c.inoutParams(en); len(io) > 0 { // receiver, in-out slices, results (trans_func.go)
		var pre []string
		if c.fi.recv != nil && c.fi.writes {
			pre = append(pre, en.lookup(c.fi.recv).name)
		}
		pre = append(pre, io...)
		if len(vs) > 0 {
			pre = append(pre, tuple(vs))
		}
		return tuple(pre)
	}
	var parts []string
	if c.fi.recv != nil && c.fi.writes {
		parts = append(parts, en.lookup(c.fi.recv).name)
	}
	for _, g := range c.t.ordered20(c.fi.gwrites) { // [ext:T20] written package-level state is returned
		parts = append(parts, c.globalName20(g, en, c.fi.decl))
	}
	parts = append(parts, c.outNames07(en)...) // [ext:T07] slice parameters written in place are returned
	parts = append(parts, c.outNames08(en)...) // [ext:T08] output parameters
	parts = append(parts, c.outNames15(en)...) // [ext:T15] slice parameters written in place are returned
	parts = append(parts, c.outNames03(en)...) // [ext:T03] slice parameters written in place
	if len(parts) == 0 {
		return tuple(vs)
	}
	if len(vs) > 0 {
		parts = append(parts, tuple(vs))
	}
	return nestPair(parts)
}

func (c *fctx) assign(x *ast.AssignStmt, en *env, next kont) string {
	t := c.t
	c.checkOrder(x)
	if s, ok := c.placeDefine(x, en, next); ok { // [seq] h := &s[i]
		return s
	}
	if x.Tok != token.ASSIGN && x.Tok != token.DEFINE { // x op= e
		ops := map[token.Token]token.Token{token.ADD_ASSIGN: token.ADD, token.SUB_ASSIGN: token.SUB, token.MUL_ASSIGN: token.MUL,
			token.QUO_ASSIGN: token.QUO, token.REM_ASSIGN: token.REM, token.AND_ASSIGN: token.AND, token.OR_ASSIGN: token.OR,
			token.XOR_ASSIGN: token.XOR, token.SHL_ASSIGN: token.SHL, token.SHR_ASSIGN: token.SHR, token.AND_NOT_ASSIGN: token.AND_NOT}
		op, ok := ops[x.Tok]
		if !ok || len(x.Lhs) != 1 || len(x.Rhs) != 1 {
			t.fail(x, "assignment operator %s", x.Tok)
		}
		g := t.exprType(x.Lhs[0])
		return c.expr(x.Lhs[0], en, func(a string) string {
			return c.expr(x.Rhs[0], en, func(b string) string {
				r, ok := c.arith(op, g, a, b, x.Rhs[0], func(v string) string {
					return c.assignTo(x.Lhs[0], v, en, func() string { return next.f(c.taintCalls(x, en)) })
				})
				if !ok {
					t.fail(x, "assignment operator %s on %s", x.Tok, t.info.Types[x.Lhs[0]].Type)
				}
				return r
			})
		})
	}
	// declare the new variables of a := (after the right-hand sides have been evaluated in the old scope)
	finish := func(vs []string, rhs []ast.Expr) string {
		if len(vs) != len(x.Lhs) {
			t.fail(x, "assignment of %d values to %d operands", len(vs), len(x.Lhs))
		}
		en2 := c.taintCalls(x, en)
		var rec func(i int, en2 *env) string
		rec = func(i int, en2 *env) string {
			if i == len(x.Lhs) {
				return next.f(en2)
			}
			lhs := x.Lhs[i]
			if id, ok := lhs.(*ast.Ident); ok && x.Tok == token.DEFINE && t.info.Defs[id] != nil && id.Name != "_" {
				obj := t.info.Defs[id]
				g := t.typeOf(obj.Type(), id)
				if g.k == kStruct && g.ptr {
					t.fail(x, "pointer variable %s", id.Name)
				}
				en3, name := c.declare(en2, obj, g)
				if rhs != nil {
					en3 = c.noteAlias(id, rhs[i], en3)
				} else if g.k == kSlice {
					en3 = en3.share(name)
				}
				return fmt.Sprintf("let %s := %s in\n%s", name, vs[i], rec(i+1, en3))
			}
			en3 := en2
			if rhs != nil {
				en3 = c.noteAlias(lhs, rhs[i], en2)
			} else if k := c.sliceKey(lhs, en2); k != "" && c.lhsType08(lhs, en2).k == kSlice { // [ext:T08] `a, err := f()` with err redeclared: no entry in info.Types
				en3 = en2.share(k)
			}
			return c.assignTo(lhs, vs[i], en2, func() string { return rec(i+1, en3) })
		}
		return rec(0, en2)
	}
	if len(x.Rhs) == 1 && len(x.Lhs) > 1 {
		call, ok := ast.Unparen(x.Rhs[0]).(*ast.CallExpr)
		if !ok {
			t.fail(x, "multi-value assignment from %s", nodeDesc(x.Rhs[0]))
		}
		return c.call(call, en, func(vs []string) string { return finish(vs, nil) })
	}
	if len(x.Rhs) != len(x.Lhs) {
		t.fail(x, "assignment")
	}
	for i := range x.Lhs { // [ext:T20] err = nil
		if x.Tok == token.ASSIGN {
			c.markNil20(x.Rhs[i], x.Lhs[i])
			c.refuseNilAssign08(x.Lhs[i], x.Rhs[i], en) // [ext:T08]
		}
	}
	if len(x.Lhs) > 1 {
		// tuple assignment: every right-hand side is evaluated before any store; bind them to temporaries
		return c.args(x.Rhs, en, func(vs []string) string {
			var b strings.Builder
			tmp := make([]string, len(vs))
			for i, v := range vs {
				tmp[i] = c.fresh("v")
				fmt.Fprintf(&b, "let %s := %s in\n", tmp[i], v)
			}
			return b.String() + finish(tmp, x.Rhs)
		})
	}
	return c.args(x.Rhs, en, func(vs []string) string { return finish(vs, x.Rhs) })
}

func (c *fctx) ifStmt(x *ast.IfStmt, en *env, lc *lctx, next kont) string {
	afterInit := func(en1 *env) string {
		c.checkOrder(x.Cond)
		if c.t.exprType(x.Cond).k != kBool {
			c.t.fail(x.Cond, "non-boolean condition")
		}
		return c.expr(x.Cond, en1, func(cv string) string {
			en1 := c.taintCalls(x.Cond, en1)
			var els []ast.Stmt
			if x.Else != nil {
				els = []ast.Stmt{x.Else}
			}
			if c.mayFallThrough(x.Body.List) && c.mayFallThrough(els) && !next.cheap {
				// join point: the rest of the function is a local function of the variables the branches assign
				set := map[types.Object]bool{}
				c.t.assigned(x.Body, set)
				if x.Else != nil {
					c.t.assigned(x.Else, set)
				}
				var params, args []string
				for _, v := range en.vars {
					if set[v.obj] {
						params = append(params, fmt.Sprintf("(%s : %s)", v.name, v.ty.coq()))
						args = append(args, v.name)
					}
				}
				if len(args) == 0 {
					params, args = []string{"(_ : unit)"}, []string{"tt"}
				}
				kn := c.fresh("k")
				acc := en1
				callK := kont{f: func(inner *env) string {
					for key := range inner.shared {
						acc = acc.share(key)
					}
					return kn + " " + strings.Join(args, " ")
				}, cheap: true}
				thenCode := c.block(x.Body.List, en1, lc, callK)
				elseCode := c.stmts(els, en1, lc, scoped(en1, callK))
				rest := next.f(&env{vars: en.vars, shared: acc.shared})
				return fmt.Sprintf("let %s := fun %s => (\n%s\n) in\nif %s then (\n%s\n) else (\n%s\n)", kn, strings.Join(params, " "), rest, cv, thenCode, elseCode)
			}
			restK := scoped(en, next)
			thenCode := c.block(x.Body.List, en1, lc, restK)
			elseCode := c.stmts(els, en1, lc, scoped(en1, restK))
			return fmt.Sprintf("if %s then (\n%s\n) else (\n%s\n)", cv, thenCode, elseCode)
		})
	}
	if x.Init != nil {
		return c.stmt(x.Init, en, lc, kont{f: afterInit})
	}
	return afterInit(en)
}

func pat(names []string, quote bool) string {
	switch len(names) {
	case 0:
		return "_"
	case 1:
		return names[0]
	}
	if quote {
		return "'(" + strings.Join(names, ", ") + ")"
	}
	return "(" + strings.Join(names, ", ") + ")"
}

// loop emits the while combinator. names: the state tuple; cond/body/post produce code given the loop's lctx.
func (c *fctx) loop(names []string, cond string, body func(*lctx) string, post string, lc *lctx, after string) string {
	tup := tuple(names)
	llc := &lctx{ret: func(v string) string { return "Ret (Return " + v + ")" },
		brk: func() string { return "Ret (Break " + tup + ")" }, cont: func() string { return "Ret (Next " + tup + ")" }}
	lr, rv := c.fresh("lr"), c.fresh("v")
	p := pat(names, true)
	return fmt.Sprintf("do %s <- while fuel\n(fun %s =>\n%s)\n(fun %s =>\n%s)\n(fun %s =>\n%s)\n%s;;\nmatch %s with\n| inl %s =>\n%s\n| inr %s => %s\nend",
		lr, p, cond, p, body(llc), p, post, tup, lr, pat(names, false), after, rv, lc.ret(rv))
}

func (c *fctx) forStmt(x *ast.ForStmt, en *env, lc *lctx, next kont) string {
	afterInit := func(en1 *env) string {
		set := map[types.Object]bool{}
		if x.Cond != nil {
			c.checkOrder(x.Cond)
			c.t.assigned(x.Cond, set)
			// the loop combinator's condition is S -> M bool: an assignment made while evaluating it would be lost
			if len(set) > 0 {
				c.t.fail(x.Cond, "loop condition that assigns a variable (a call of a method that writes its receiver, an atomic store)")
			}
		}
		c.t.assigned(x.Body, set)
		if x.Post != nil {
			c.t.assigned(x.Post, set)
		}
		var names []string
		for _, v := range en1.vars {
			if set[v.obj] {
				names = append(names, v.name)
			}
		}
		en1 = c.preTaint(x.Body, en1)
		if x.Post != nil {
			en1 = c.preTaint(x.Post, en1)
		}
		tup := tuple(names)
		cond := "Ret true"
		if x.Cond != nil {
			if c.t.exprType(x.Cond).k != kBool {
				c.t.fail(x.Cond, "non-boolean condition")
			}
			cond = c.expr(x.Cond, en1, func(v string) string { return "Ret " + v })
		}
		post := "Ret " + tup
		if x.Post != nil {
			post = c.stmt(x.Post, en1, &lctx{ret: func(string) string { c.t.fail(x.Post, "return in a post statement"); return "" }},
				kont{f: func(*env) string { return "Ret " + tup }, cheap: true})
		}
		body := func(llc *lctx) string {
			return c.block(x.Body.List, en1, llc, kont{f: func(*env) string { return "Ret (Next " + tup + ")" }, cheap: true})
		}
		after := next.f(&env{vars: en.vars, shared: en1.shared})
		return c.loop(names, cond, body, post, lc, after)
	}
	if x.Init != nil {
		return c.stmt(x.Init, en, lc, kont{f: afterInit})
	}
	return afterInit(en)
}

// rangeStmt: for k, v := range s / for k := range s / for range s / for i := range n, with a hidden counter.
func (c *fctx) rangeStmt(x *ast.RangeStmt, en *env, lc *lctx, next kont) string {
	t := c.t
	tv := t.info.Types[x.X]
	if tv.Type == nil {
		t.fail(x, "range expression without a type")
	}
	overInt := false
	if b, ok := tv.Type.Underlying().(*types.Basic); ok && b.Info()&types.IsInteger != 0 {
		overInt = true
	} else if t.exprType(x.X).k != kSlice {
		t.fail(x, "range over %s", tv.Type)
	} else if t.exprType(x.X).str && !(x.Value == nil && c.asciiConst20(x.X)) { // [ext:T20] ranging over a string decodes runes
		if t.spec.Str17 { // [ext:T17] range over a string: one rune per iteration
			return c.rangeStr17(x, en, lc, next)
		}
		t.fail(x, "range over a string (only the index form over a constant ASCII string is supported)")
	}
	arrLen := int64(-1) // [ext:T20] ranging over an array: the bound is the array length of the type
	if !overInt {
		if g := t.exprType(x.X); g.isArr {
			arrLen = g.arr
		}
	}
	if x.Value != nil && !overInt {
		if id, ok := x.Value.(*ast.Ident); (!ok || id.Name != "_") && t.exprType(x.X).elem != nil { // [seq]
			t.fail(x, "range with a value variable over a slice of structs")
		}
		set := map[types.Object]bool{}
		t.assigned(x.Body, set)
		if o, _ := t.rootObj(x.X); o != nil && set[o] && c.liveRange07(x, en) == "" { // [ext:T07] unless it is only written in place
			t.fail(x, "range with a value variable over a slice that the body assigns")
		}
	}
	c.checkOrder(x.X)
	return c.expr(x.X, en, func(xs string) string {
		rng, n, idx := c.fresh("rng"), c.fresh("n"), c.fresh("i")
		head := ""
		if !overInt {
			head = fmt.Sprintf("let %s := %s in\nlet %s := %s %s in\n", rng, xs, n, lenFn(t.exprType(x.X)), rng) // [seq] zlenA
		}
		if overInt {
			head = fmt.Sprintf("let %s := %s in\n", n, xs)
		}
		if arrLen >= 0 { // [ext:T20]
			head = fmt.Sprintf("let %s := %s in\nlet %s := %d in\n", rng, xs, n, arrLen)
		}
		set := map[types.Object]bool{}
		t.assigned(x.Body, set)
		if x.Tok == token.ASSIGN {
			for _, e := range []ast.Expr{x.Key, x.Value} {
				if e != nil {
					if o, _ := t.rootObj(e); o != nil {
						set[o] = true
					}
				}
			}
		}
		names := []string{idx}
		for _, v := range en.vars {
			if set[v.obj] {
				names = append(names, v.name)
			}
		}
		tup := tuple(names)
		en1 := c.preTaint(x.Body, c.taintCalls(x.X, en))
		body := func(llc *lctx) string {
			en2 := en1
			var b strings.Builder
			bindVar := func(e ast.Expr, val string, cont func() string) string {
				id, ok := e.(*ast.Ident)
				if e == nil || (ok && id.Name == "_") {
					return cont()
				}
				if x.Tok == token.DEFINE {
					obj := t.info.Defs[id]
					var name string
					en2, name = c.declare(en2, obj, t.typeOf(obj.Type(), id))
					return fmt.Sprintf("let %s := %s in\n%s", name, val, cont())
				}
				return c.assignTo(e, val, en2, cont)
			}
			b.WriteString(bindVar(x.Key, idx, func() string {
				rest := func() string {
					return c.stmts(x.Body.List, en2, llc, kont{f: func(*env) string { return "Ret (Next " + tup + ")" }, cheap: true})
				}
				if x.Value == nil || overInt {
					return rest()
				}
				if id, ok := x.Value.(*ast.Ident); ok && id.Name == "_" {
					return rest()
				}
				ev, from := c.fresh("v"), rng
				if live := c.liveRange07(x, en); live != "" && set[t.info.Uses[ast.Unparen(x.X).(*ast.Ident)]] { // [ext:T07] the body writes the slice in place: read the current one
					from = live
				}
				return fmt.Sprintf("do %s <- %s %s %s;;\n%s", ev, getFn08(t.exprType(x.X)), from, idx, bindVar(x.Value, ev, rest)) // [ext:T08]
			}))
			return b.String()
		}
		after := next.f(&env{vars: en.vars, shared: en1.shared})
		// the state tuple is (hidden counter, assigned variables); after the loop the counter is dropped by the pattern
		return head + fmt.Sprintf("let %s := 0 in\n", idx) +
			c.loop(names, fmt.Sprintf("Ret (%s <? %s)", idx, n), body, "Ret "+tuple(append([]string{"(" + idx + " + 1)"}, names[1:]...)), lc, after)
	})
}

// emitFunc: the Definition for one function.
func (t *Translator) emitFunc(fi *funcInfo) string {
	c := &fctx{t: t, fi: fi, used: map[string]bool{}}
	en := &env{shared: map[string]bool{}}
	var params []string
	if fi.loops {
		params = append(params, "(fuel : nat)")
	}
	params = append(params, t.extParam08(fi)...) // [ext:T08] ext' : Foreign
	t.checkHandles08(fi)                         // [ext:T08]
	sig := fi.obj.Type().(*types.Signature)
	if fi.recv != nil {
		var name string
		en, name = c.declare(en, fi.recv, fi.recvT)
		params = append(params, fmt.Sprintf("(%s : %s)", name, fi.recvT.coq()))
	}
	for _, g := range t.ordered20(fi.greads) { // [ext:T20] package-level state the function (transitively) touches
		var name string
		en, name = c.declare(en, g.obj, g.ty)
		params = append(params, fmt.Sprintf("(%s : %s)", name, g.ty.coq()))
	}
	if fi.frag != nil {
		return t.emitFrag20(c, fi, en, params)
	}
	for i := 0; i < sig.Params().Len(); i++ {
		p := sig.Params().At(i)
		g := t.typeOf(p.Type(), fi.decl)
		var name string
		en, name = c.declare(en, p, g)
		params = append(params, fmt.Sprintf("(%s : %s)", name, g.coq()))
		if g.k == kSlice && !(i < len(fi.noesc) && fi.noesc[i]) && !fi.isOut08(i) && !fi.isOut15(i) && !t.isOut03(fi, p) && !fi.isOut07(i) { // [func] noesc; [ext:T08] not an output parameter; [ext:T15] / [ext:T03] / [ext:T07] written in place: returned instead
			en = en.share(name) // the caller still holds the array
		}
	}
	var rts []string
	for _, g := range fi.results {
		rts = append(rts, g.coq())
	}
	rt := tupleType(rts)
	var stateT []string
	if ioT := t.inoutTypes(fi); len(ioT) > 0 { // receiver, in-out slices, results (trans_func.go)
		var pre []string
		if fi.recv != nil && fi.writes {
			pre = append(pre, fi.recvT.coq())
		}
		pre = append(pre, ioT...)
		if len(rts) > 0 {
			pre = append(pre, rt)
		}
		rt = tupleType(pre)
	} else {
		if fi.recv != nil && fi.writes {
			stateT = append(stateT, fi.recvT.coq())
		}
		for _, g := range t.ordered20(fi.gwrites) { // [ext:T20]
			stateT = append(stateT, g.ty.coq())
		}
	}
	stateT = append(stateT, t.outTypes08(fi)...) // [ext:T08] output parameters
	for range fi.outs15 {                        // [ext:T15]
		stateT = append(stateT, "list Z")
	}
	stateT = append(stateT, t.outTypes07(fi)...) // [ext:T07]
	t.checkOuts07(fi)
	stateT = append(stateT, t.outTypes03(fi)...) // [ext:T03]
	t.checkOuts15(fi)                            // [ext:T15]
	if len(stateT) > 0 {
		if len(rts) > 0 {
			stateT = append(stateT, rt)
		}
		rt = nestPairType(stateT)
	}
	if strings.Contains(rt, " ") && !strings.HasPrefix(rt, "(") {
		rt = "(" + rt + ")"
	}
	prefix := ""
	for i, rv := range fi.named { // [BitsCode] named results are locals that start at their zero value
		var name string
		en, name = c.declare(en, rv, fi.results[i])
		prefix += fmt.Sprintf("let %s := %s in\n", name, fi.results[i].zero())
	}
	lc := &lctx{ret: func(v string) string { return "Ret " + v }}
	list, timed := t.bodyList(fi) // [seq] a timed tail becomes the parameter rest'timed
	body := prefix + c.stmts(list, en, lc, kont{f: func(e *env) string {
		if timed {
			return c.tailCall(e, rt)
		}
		if len(fi.results) > 0 {
			t.fail(fi.decl, "control reaches the end of %s, which has results", fi.goName)
		}
		return lc.ret(c.retTerm(e, nil))
	}, cheap: true})
	if c.tailParam != "" {
		params = append(params, c.tailParam)
	}
	params, fi.nExtra03 = append(params, c.extra03...), len(c.extra03) // [ext:T03]
	notes := c.notesComment03()                                        // [ext:T03]
	return fmt.Sprintf("(* func %s   (%s) *)\n%sDefinition %s %s : M %s :=\n%s.\n", fi.goName, t.pos(fi.decl), notes,
		fi.name, strings.Join(params, " "), rt, strings.TrimRight(indentCoq(body), "\n"))
}
