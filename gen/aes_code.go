// Area AesCode (C08): the Go -> Gallina translation (gen/trans.go + gen/trans_ext08.go) of golib's own code in cryptz/aes.go:
// the init() that builds the pad-pattern table, the four length helpers, AESCBCEncrypt / AESCBCDecrypt / AESGCMEncrypt /
// AESGCMDecrypt (guards, lengths, buffer layout), pkcs7UnPadding and the standalone PKCS7/PKCS5 padding functions.
// The Go standard library (crypto/aes, crypto/cipher, bytes.Repeat / Equal) is NOT translated: the calls become calls of the
// fields of the generated `Record Foreign`, which coq/Proofs/AesCode.v instantiates with the block function, Seal and Open as
// quantified variables exactly as the hand model Model/Aes.v treats them, and proves each generated function equal to the
// hand-written model function on every run.  Error values are the small enum of the hand model (same texts as
// harness/c08.go cryptErrCode).  Fails closed on anything outside the subset.
package main

func init() { Register(Area{Name: "AesCode", Gen: genAesCode}) }

// the declarations of the standard library that cryptz/aes.go uses (signatures only; aes.BlockSize is the library constant)
var aesStubs = map[string]string{
	"bytes": `package bytes
func Repeat(b []byte, count int) []byte
func Equal(a, b []byte) bool`,
	"crypto/aes": `package aes
import "crypto/cipher"
const BlockSize = 16
func NewCipher(key []byte) (cipher.Block, error)`,
	"crypto/cipher": `package cipher
type Block interface { BlockSize() int; Encrypt(dst, src []byte); Decrypt(dst, src []byte) }
type BlockMode interface { BlockSize() int; CryptBlocks(dst, src []byte) }
type AEAD interface {
	NonceSize() int
	Overhead() int
	Seal(dst, nonce, plaintext, additionalData []byte) []byte
	Open(dst, nonce, ciphertext, additionalData []byte) ([]byte, error)
}
func NewCBCEncrypter(b Block, iv []byte) BlockMode
func NewCBCDecrypter(b Block, iv []byte) BlockMode
func NewGCM(cipher Block) (AEAD, error)
func NewGCMWithNonceSize(cipher Block, size int) (AEAD, error)`,
	"fmt": `package fmt
func Errorf(format string, a ...any) error`,
}

func genAesCode(repo string) (string, error) {
	body, err := Translate(repo, TransSpec{
		Dir: "cryptz",
		Funcs: []string{"init:prePadPatterns", "AESCBCEncryptLen", "AESCBCDecryptLen", "AESGCMEncryptLen", "AESGCMDecryptLen",
			"pkcs7UnPadding", "AESCBCEncrypt", "AESCBCDecrypt", "AESGCMEncrypt", "AESGCMDecrypt",
			"PKCS7Padding", "PKCS7UnPadding", "PKCS5Padding", "PKCS5UnPadding"},
		Globals:       []string{"prePadPatterns"},
		Stubs:         aesStubs,
		ModuleImports: true, // typez.StrOrBytes
		Foreign: []ForeignSpec{
			{Name: "bytes.Repeat"}, {Name: "bytes.Equal"},
			{Name: "aes.NewCipher"},
			{Name: "cipher.NewCBCEncrypter"}, {Name: "cipher.NewCBCDecrypter"},
			{Name: "cipher.BlockMode.CryptBlocks", Writes: []int{0}},
			{Name: "cipher.NewGCMWithNonceSize"},
			{Name: "cipher.AEAD.Seal", Writes: []int{0}}, {Name: "cipher.AEAD.Open", Writes: []int{0}},
		},
		OutParams: map[string][]int{"AESCBCEncrypt": {0}, "AESCBCDecrypt": {0}, "AESGCMEncrypt": {0}, "AESGCMDecrypt": {0}},
		ErrCodes: []ErrCode{
			{Text: "NewCipher error", Prefix: true, Code: 1},
			{Text: "cipherText length illegal", Code: 2},
			{Text: "invalid padding length", Code: 3},
			{Text: "invalid padding bytes", Code: 4},
			{Text: "NewGCM error", Prefix: true, Code: 5},
			{Text: "GCM Open error", Prefix: true, Code: 6},
			{Text: "input data cannot be empty", Code: 7},
			{Text: "block size must be a positive integer", Code: 8},
			{Text: "input data length must be a multiple of block size", Code: 9},
		},
	})
	if err != nil {
		return "", err
	}
	return "From Coq Require Import Bool.\nFrom V Require Import Lib.GoSem Lib.GoSemRec.\nImport GoNotations.\nLocal Open Scope Z_scope.\n" + body, nil
}
