package main

// Area SkipConsts (C02): the constants of listz/skip.go the skip-list model depends on
// (maxLevel, zoneMask, levelMask) and the shape of randomLevel: one Uint64 draw masked with zoneMask,
// ((maxLevel - bits.Len64(k)) & levelMask) + 1.  Fails closed when the source no longer looks like that.

import (
	"bytes"
	"fmt"
	"go/ast"
	"go/printer"
	"go/token"
	"strings"
)

func init() {
	Register(Area{Name: "SkipConsts", Gen: func(repo string) (string, error) {
		p, err := Load(repo, "listz")
		if err != nil {
			return "", err
		}
		var sb strings.Builder
		for _, n := range []string{"maxLevel", "zoneMask", "levelMask"} {
			v, err := p.Int(n)
			if err != nil {
				return "", fmt.Errorf("listz.%s: %v", n, err)
			}
			sb.WriteString(CoqZ("skip_"+n, v))
		}
		fd := p.Func("randomLevel")
		if fd == nil || fd.Body == nil {
			return "", fmt.Errorf("listz.randomLevel not found")
		}
		// the body must be exactly the two statements the model transcribes
		var got []string
		for _, st := range fd.Body.List {
			var b bytes.Buffer
			printer.Fprint(&b, token.NewFileSet(), st)
			got = append(got, strings.Join(strings.Fields(b.String()), " "))
		}
		want := []string{"k := r.Uint64() & zoneMask", "return ((maxLevel - bits.Len64(k)) & levelMask) + 1"}
		if len(got) != len(want) {
			return "", fmt.Errorf("listz.randomLevel: %d statements, expected %d", len(got), len(want))
		}
		for i := range want {
			if got[i] != want[i] {
				return "", fmt.Errorf("listz.randomLevel statement %d is %q, the model transcribes %q", i, got[i], want[i])
			}
		}
		// the head tower is allocated with maxLevel entries in Init and Clear of both variants
		for _, fn := range []string{"SkipList.Init", "SkipList.Clear", "SkipListWithCmp.Init", "SkipListWithCmp.Clear"} {
			d := p.Func(fn)
			if d == nil {
				return "", fmt.Errorf("listz.%s not found", fn)
			}
			ok := false
			ast.Inspect(d.Body, func(n ast.Node) bool {
				if c, isCall := n.(*ast.CallExpr); isCall {
					if id, isId := c.Fun.(*ast.Ident); isId && id.Name == "make" && len(c.Args) == 2 {
						if a, isA := c.Args[1].(*ast.Ident); isA && a.Name == "maxLevel" {
							ok = true
						}
					}
				}
				return true
			})
			if !ok {
				return "", fmt.Errorf("listz.%s no longer allocates the head tower with make(..., maxLevel)", fn)
			}
		}
		return sb.String(), nil
	}})
}
