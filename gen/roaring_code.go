// Area RoaringCode (C03): the Go -> Gallina translation (gen/trans.go + gen/trans_ext03.go) of the two container kinds of
// setz/roaring_bitmap.go at array / cursor level — search, arrayContainer (Remove, Contains, Add incl. the conversion to a bitmap
// at the threshold, Len, Type), arrayContainerIter (Next, Value), bitmapContainer (Add, Remove, Contains, Len, Type, setZero),
// bitmapContainerIter (Next, Value) — and of what they run on in setz/bits.go: Bitmap (Add, Remove, Contains, add), Bits (Add,
// Remove, Len), BitmapIter (Next, Value); plus the high / low split at the head of RoaringBitmap.Add / Remove / Contains.
// coq/Proofs/RoaringCode.v proves each generated function equal to the hand-written model function of Model/Roaring.v /
// Model/Bits.v on every run (Props/C03.v: c03_code_is_model).  Fails closed on anything outside the subset.
package main

func init() { Register(Area{Name: "RoaringCode", Gen: genRoaringCode}) }

func genRoaringCode(repo string) (string, error) {
	body, err := Translate(repo, TransSpec{
		Dir:     "setz",
		Structs: []string{"Bitmap", "Bits", "BitmapIter", "arrayContainer", "arrayContainerIter"},
		Ext03:   true,
		Ifaces:  map[string][]string{"container": {"arrayContainer", "bitmapContainer"}},
		Funcs: []string{"search", "arrayContainer.Remove", "arrayContainer.Contains", "arrayContainer.Add", "arrayContainer.Len", "arrayContainer.Type",
			"arrayContainerIter.Next", "arrayContainerIter.Value",
			"Bitmap.Add", "Bitmap.Remove", "Bitmap.Contains", "Bitmap.add", "Bits.Add", "Bits.Remove", "Bits.Len",
			"bitmapContainer.Add", "bitmapContainer.Remove", "bitmapContainer.Contains", "bitmapContainer.Len", "bitmapContainer.Type",
			"bitmapContainer.setZero", "BitmapIter.Next", "BitmapIter.Value", "bitmapContainerIter.Next", "bitmapContainerIter.Value"},
		// the high / low split at the head of the three top-level operations (their remainder goes through listz.SkipList)
		Heads: []string{"RoaringBitmap.Add", "RoaringBitmap.Remove", "RoaringBitmap.Contains"},
	})
	if err != nil {
		return "", err
	}
	return "From Coq Require Import Bool.\nFrom V Require Import Lib.GoSem.\nImport GoNotations.\nLocal Open Scope Z_scope.\n" + body, nil
}
