// Area RoaringCode (C03): the Go -> Gallina translation of the two container kinds of setz/roaring_bitmap.go.
package main

func init() { Register(Area{Name: "RoaringCode", Gen: genRoaringCode}) }

func genRoaringCode(repo string) (string, error) {
	body, err := Translate(repo, TransSpec{
		Dir:     "setz",
		Structs: []string{"Bitmap", "Bits", "BitmapIter", "arrayContainer", "arrayContainerIter"},
		Ext03:   true,
		Ifaces:  map[string][]string{"container": {"arrayContainer", "bitmapContainer"}},
		Funcs: []string{"search", "arrayContainer.Remove", "arrayContainer.Contains", "arrayContainer.Add", "arrayContainer.Len", "arrayContainer.Type",
			"arrayContainerIter.Next", "arrayContainerIter.Value",
			"Bitmap.Add", "Bitmap.Remove", "Bitmap.Contains", "Bitmap.add", "Bits.Add", "Bits.Remove", "Bits.Len",
			"bitmapContainer.Add", "bitmapContainer.Remove", "bitmapContainer.Contains", "bitmapContainer.Len", "bitmapContainer.Type",
			"bitmapContainer.setZero", "BitmapIter.Next", "BitmapIter.Value", "bitmapContainerIter.Next", "bitmapContainerIter.Value"},
	})
	if err != nil {
		return "", err
	}
	return "From Coq Require Import Bool.\nFrom V Require Import Lib.GoSem.\nImport GoNotations.\nLocal Open Scope Z_scope.\n" + body, nil
}
