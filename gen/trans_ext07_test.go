// Self-test of the [ext:T07] extension (gen/trans_ext07.go): the functions of internal/sample/ext07.go are run natively (on
// exact-capacity slices: cap = len is the idealisation of Lib/GoSem.v) and their translations are evaluated by coqc
// (vm_compute) on the same arguments; written slice parameters are compared together with the results.
package main

import (
	"fmt"
	"os"
	"os/exec"
	"path/filepath"
	"strings"
	"testing"

	"verifgen/internal/sample"
)

func exact07(s []byte) []byte { // a copy with cap = len
	c := make([]byte, len(s))
	copy(c, s)
	return c[:len(s):len(s)]
}

func TestExt07AgainstNativeGo(t *testing.T) {
	if _, err := exec.LookPath("coqc"); err != nil {
		t.Skip("coqc not found")
	}
	body, err := Translate(".", TransSpec{Dir: "internal/sample",
		Funcs:    []string{"Fill7", "Pad", "Upper7", "EscStr", "EscBytes", "Scratch", "Two", "Enc", "Dec", "DecB", "Count7", "U16", "U16d", "AppRune", "Num7", "Zero7", "CountBytes7"},
		Identity: []string{"AsString"},
		Std: []string{"strconv.AppendUint", "unicode/utf8.EncodeRune", "unicode/utf8.DecodeRuneInString", "unicode/utf8.DecodeRune",
			"unicode/utf8.RuneCountInString", "unicode/utf8.AppendRune", "unicode/utf16.EncodeRune", "unicode/utf16.DecodeRune"},
		WrapSigned: true, InPlace: true})
	if err != nil {
		t.Fatal(err)
	}
	var ex []string
	add := func(call string, f func() string) {
		ex = append(ex, fmt.Sprintf("Example ex%d : %s = %s.\nProof. vm_compute. reflexivity. Qed.", len(ex), call, native(f)))
	}
	bufs := [][]byte{{}, {7}, {1, 2}, {1, 2, 3}, {9, 8, 7, 6, 5}, {1, 2, 3, 4, 5, 6, 7, 8, 9, 10}}
	for _, b0 := range bufs {
		for _, n := range []int{-1, 0, 1, 2, 3, 5, 6, 11} {
			b0, n := b0, n
			add(fmt.Sprintf("g_Fill7 99 %s 42 %s", bl(b0), zs(n)), func() string {
				d := exact07(b0)
				defer func() { _ = d }()
				k := sample.Fill7(d, 42, n)
				return "(" + bl(d) + ", " + zs(k) + ")"
			})
			add(fmt.Sprintf("g_Two 99 %s %s", bl(b0), zs(n)), func() string {
				d := exact07(b0)
				k := sample.Two(d, n)
				return "(" + bl(d) + ", " + zs(k) + ")"
			})
		}
		for _, v := range []uint64{0, 7, 9, 10, 255, 256, 4095, 65535, 65536, 123456789, 1<<64 - 1} {
			for _, base := range []int{2, 8, 10, 16, 36, 1, 37, 0, -3} {
				b0, v, base := b0, v, base
				add(fmt.Sprintf("g_Pad %s %d %s", bl(b0), v, zs(base)), func() string {
					d := exact07(b0)
					sample.Pad(d, v, base)
					return bl(d)
				})
				add(fmt.Sprintf("g_Num7 %s %d %s", bl(b0), v, zs(base)), func() string { return bl(sample.Num7(exact07(b0), v, base)) })
			}
			b0, v := b0, v
			add(fmt.Sprintf("g_Scratch %s %d", bl(b0), v), func() string {
				d := exact07(b0)
				n, c := sample.Scratch(d, v)
				return "(" + bl(d) + ", (" + zs(n) + ", " + fmt.Sprint(c) + "))"
			})
		}
	}
	strs := []string{"", "a", "az!Z", "!!a!", "hello, World!", "\xff\x00é", "日本語", "a\xf0\x9f\x98\x80b", "\xed\xa0\x80", "\xf4\x90\x80\x80", "\xe2\x82", "é!"}
	for _, s := range strs {
		s := s
		add("g_Upper7 99 "+bl([]byte(s)), func() string { d := exact07([]byte(s)); sample.Upper7(d); return bl(d) })
		for _, w := range []int{-1, 0, 1, 2, 3, 4, 5, 6} {
			w := w
			add(fmt.Sprintf("g_EscStr 99 %s %s", bl([]byte(s)), zs(w)), func() string { return bl(sample.EscStr(s, w)) })
			add(fmt.Sprintf("g_EscBytes 99 %s %s", bl([]byte(s)), zs(w)), func() string { return bl(sample.EscBytes([]byte(s), w)) })
		}
		add("g_Count7 "+bl([]byte(s)), func() string { return zs(sample.Count7(s)) })
		add("g_CountBytes7 "+bl([]byte(s)), func() string { return zs(sample.CountBytes7([]byte(s))) })
		add("g_DecB "+bl([]byte(s)), func() string { r, n := sample.DecB([]byte(s)); return "(" + zs(int(r)) + ", " + zs(n) + ")" })
		for _, i := range []int{-1, 0, 1, 2, 3, 5, 14} {
			i := i
			add(fmt.Sprintf("g_Dec %s %s", bl([]byte(s)), zs(i)), func() string { r, n := sample.Dec(s, i); return "(" + zs(int(r)) + ", " + zs(n) + ")" })
		}
	}
	runes := []int32{-1, 0, 65, 127, 128, 0x7ff, 0x800, 0xd7ff, 0xd800, 0xdbff, 0xdc00, 0xdfff, 0xe000, 0xfffd, 0xffff, 0x10000, 0x1f600, 0x10ffff, 0x110000, 1<<31 - 1, -(1 << 31)}
	for _, r := range runes {
		r := r
		add(fmt.Sprintf("g_U16 %s", z64(int64(r))), func() string { a, b := sample.U16(r); return "(" + zs(int(a)) + ", " + zs(int(b)) + ")" })
		add(fmt.Sprintf("g_AppRune %s", z64(int64(r))), func() string { return bl(sample.AppRune(r)) })
		for _, r2 := range runes {
			r2 := r2
			add(fmt.Sprintf("g_U16d %s %s", z64(int64(r)), z64(int64(r2))), func() string { return zs(int(sample.U16d(r, r2))) })
		}
		for _, b0 := range bufs {
			for _, e := range []int{-1, 0, 1, 2, 4, 7, 10, 11} {
				b0, e := b0, e
				add(fmt.Sprintf("g_Enc %s %s %s", bl(b0), z64(int64(r)), zs(e)), func() string {
					d := exact07(b0)
					n := sample.Enc(d, r, e)
					return "(" + bl(d) + ", " + zs(n) + ")"
				})
			}
		}
	}
	for _, i := range []int{-1, 0, 3, 4} {
		i := i
		add("g_Zero7 "+zs(i), func() string { b, n := sample.Zero7(i); return "(" + fmt.Sprint(b) + ", " + zs(n) + ")" })
	}

	dir := t.TempDir()
	os.MkdirAll(filepath.Join(dir, "Lib"), 0755)
	os.MkdirAll(filepath.Join(dir, "Gen"), 0755)
	for _, f := range []string{"GoSem.v", "Utf8.v", "GoSemStd.v"} {
		src, err := os.ReadFile("../coq/Lib/" + f)
		if err != nil {
			t.Fatal(err)
		}
		os.WriteFile(filepath.Join(dir, "Lib", f), src, 0644)
	}
	text := "From Coq Require Import List ZArith Bool.\nImport ListNotations.\nFrom V Require Import Lib.GoSem Lib.GoSemStd.\nImport GoNotations.\nLocal Open Scope Z_scope.\n" +
		body + "\n" + strings.Join(ex, "\n") + "\n"
	os.WriteFile(filepath.Join(dir, "Gen", "SampleExt07.v"), []byte(text), 0644)
	if keep := os.Getenv("GO2V_KEEP07"); keep != "" {
		os.WriteFile(keep, []byte(text), 0644)
	}
	for _, f := range []string{"Lib/GoSem.v", "Lib/Utf8.v", "Lib/GoSemStd.v", "Gen/SampleExt07.v"} {
		cmd := exec.Command("timeout", "900", "coqc", "-Q", ".", "V", f)
		cmd.Dir = dir
		if out, err := cmd.CombinedOutput(); err != nil {
			t.Fatalf("coqc %s: %v\n%s", f, err, out)
		}
	}
	t.Logf("%d examples agree", len(ex))
}

// outside the extended subset: refused with a position
func TestExt07FailsClosed(t *testing.T) {
	for _, fn := range []string{"ViewLive", "ViewEscapes", "AppendAnon", "Overlap", "WholeAndInPlace", "TableRead7", "TableLeak7"} {
		_, err := Translate(".", TransSpec{Dir: "internal/refused", Structs: []string{"Box"}, Funcs: []string{fn}, Std: []string{"strconv.AppendUint"}, InPlace: true})
		if err == nil || !strings.Contains(err.Error(), "unsupported") || !strings.Contains(err.Error(), "ext07.go:") {
			t.Errorf("%s: expected `unsupported: ... at file:line`, got %v", fn, err)
		} else {
			t.Logf("%s: %v", fn, err)
		}
	}
	// without TransSpec.Std the standard-library calls stay outside the subset
	if _, err := Translate(".", TransSpec{Dir: "internal/sample", Funcs: []string{"Pad"}, InPlace: true}); err == nil || !strings.Contains(err.Error(), "unsupported") {
		t.Errorf("Pad without Std: expected a refusal, got %v", err)
	}
	// without TransSpec.InPlace a write to a slice parameter is refused as before
	if _, err := Translate(".", TransSpec{Dir: "internal/sample", Funcs: []string{"Fill7"}}); err == nil || !strings.Contains(err.Error(), "unsupported") {
		t.Errorf("Fill7 without InPlace: expected a refusal, got %v", err)
	}
}
