// Self-test of the [ext:T17] extension (gen/trans_ext17.go): the functions of internal/sample/ext17.go are run natively
// and their translations are evaluated by coqc (vm_compute) on the same arguments.
package main

import (
	"fmt"
	"os"
	"os/exec"
	"path/filepath"
	"strings"
	"testing"

	"verifgen/internal/sample"
)

var strs17 = []string{"", "a", "q!", "abc", "héllo", "a€b𝄞c", "\xff", "a\xc3", "\xe2\x82", "\xed\xa0\x80x", "qq€!z", "\xf0\x9d\x84", "日本語q日本語", "\xc0\x80", "ab\x80\xbf!"}

func TestExt17AgainstNativeGo(t *testing.T) {
	if _, err := exec.LookPath("coqc"); err != nil {
		t.Skip("coqc not found")
	}
	body, err := Translate(".", TransSpec{Dir: "internal/sample", Funcs: ext17Funcs, WrapSigned: true, Str17: true})
	if err != nil {
		t.Fatal(err)
	}
	var ex []string
	add := func(call string, f func() string) {
		ex = append(ex, fmt.Sprintf("Example ex%d : %s = %s.\nProof. vm_compute. reflexivity. Qed.", len(ex), call, native(f)))
	}
	B := func(s string) string { return bl([]byte(s)) }
	for _, a := range strs17 {
		a := a
		for _, b := range strs17 {
			b := b
			add(fmt.Sprintf("g_Cat %s %s", B(a), B(b)), func() string {
				c, e, n := sample.Cat(a, b)
				return fmt.Sprintf("(%s, %s, %s)", B(c), bs(e), bs(n))
			})
		}
		for _, n := range []int{-1, 0, 1, 2, 3, 7} {
			n := n
			add(fmt.Sprintf("g_Rep %s %s", B(a), zs(n)), func() string { return B(sample.Rep(a, n)) })
			add(fmt.Sprintf("g_RangeStr 99 %s %s", B(a), zs(n)), func() string {
				x, y, z := sample.RangeStr(a, n)
				return fmt.Sprintf("(%s, %s, %s)", zs(x), zs(y), B(z))
			})
		}
		add(fmt.Sprintf("g_RuneRev 99 %s", B(a)), func() string { s, n := sample.RuneRev(a); return fmt.Sprintf("(%s, %s)", B(s), zs(n)) })
		add(fmt.Sprintf("g_RangeKeys 99 %s", B(a)), func() string {
			x, y, z := sample.RangeKeys(a)
			return fmt.Sprintf("(%s, %s, %s)", zs(x), zs(y), zs(int(z)))
		})
		ex = append(ex, ext17More(a, add)...)
	}
	// the overflow / allocation panics of strings.Repeat are not run natively (they would need the memory): the model's answers
	ex = append(ex, "Example rep_overflow : std_strings_Repeat [97; 98] 4611686018427387904 = Panic.\nProof. vm_compute. reflexivity. Qed.")
	ex = append(ex, "Example rep_alloc : std_strings_Repeat [97; 98] 140737488355329 = Panic.\nProof. vm_compute. reflexivity. Qed.")
	ex = append(ex, "Example rep_empty : std_strings_Repeat [] 4611686018427387904 = Ret [].\nProof. vm_compute. reflexivity. Qed.")

	dir := t.TempDir()
	os.MkdirAll(filepath.Join(dir, "Lib"), 0755)
	os.MkdirAll(filepath.Join(dir, "Gen"), 0755)
	libs := []string{"Lib/GoSem.v", "Lib/Utf8.v", "Lib/GoSemStd.v", "Lib/GoSemStr.v"}
	for _, l := range libs {
		src, err := os.ReadFile("../coq/" + l)
		if err != nil {
			t.Fatal(err)
		}
		os.WriteFile(filepath.Join(dir, l), src, 0644)
	}
	text := "From Coq Require Import List ZArith Bool.\nImport ListNotations.\nFrom V Require Import Lib.GoSem Lib.GoSemStd Lib.GoSemStr.\nImport GoNotations.\nLocal Open Scope Z_scope.\n" +
		body + "\n" + strings.Join(ex, "\n") + "\n"
	os.WriteFile(filepath.Join(dir, "Gen", "SampleExt17.v"), []byte(text), 0644)
	if keep := os.Getenv("GO2V_KEEP17"); keep != "" {
		os.WriteFile(keep, []byte(text), 0644)
	}
	for _, f := range append(libs, "Gen/SampleExt17.v") {
		cmd := exec.Command("timeout", "600", "coqc", "-Q", ".", "V", f)
		cmd.Dir = dir
		if out, err := cmd.CombinedOutput(); err != nil {
			t.Fatalf("coqc %s: %v\n%s", f, err, out)
		}
	}
	t.Logf("%d examples agree", len(ex))
}

// without the opt-in nothing of the extension is accepted
func TestExt17OptIn(t *testing.T) {
	for _, fn := range ext17Funcs {
		if _, err := Translate(".", TransSpec{Dir: "internal/sample", Funcs: []string{fn}, WrapSigned: true}); err == nil || !strings.Contains(err.Error(), "unsupported") {
			t.Errorf("%s without Str17: expected a refusal, got %v", fn, err)
		}
	}
	for _, fn := range []string{"StrLess17"} {
		_, err := Translate(".", TransSpec{Dir: "internal/refused", Funcs: []string{fn}, WrapSigned: true, Str17: true})
		if err == nil || !strings.Contains(err.Error(), "unsupported") {
			t.Errorf("%s: expected a refusal, got %v", fn, err)
		} else {
			t.Logf("%s: %v", fn, err)
		}
	}
}
