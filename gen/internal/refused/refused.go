// Package refused: functions OUTSIDE the subset of the translator; gen/trans_test.go checks that each is refused.
package refused

import "errors"

type Box struct {
	data []int
	n    int
}

func (b *Box) Bump() int { b.n++; return b.n }

// in-place write to a slice that shares its array with another variable
func Alias(n int) int {
	a := make([]int, n)
	b := a
	b[0] = 1
	return a[0]
}

func Closure(n int) int {
	f := func() int { return n }
	return f()
}

func Recursive(n int) int {
	if n <= 0 {
		return 0
	}
	return 1 + Recursive(n-1)
}

func Goroutine(n int) int {
	go Recursive(n)
	return n
}

func MapUse(n int) int {
	m := map[int]int{}
	m[n] = 1
	return len(m)
}

// the caller would see the write
func WriteParam(s []int) {
	s[0] = 1
}

func Labelled(n int) int {
outer:
	for i := 0; i < n; i++ {
		for j := 0; j < n; j++ {
			if j == 2 {
				continue outer
			}
		}
	}
	return n
}

func PtrArith(n int) int {
	p := &n
	*p = 3
	return n
}

func Defer(n int) (r int) {
	defer func() { r++ }()
	return n
}

// the order between the read of b.n and the call that assigns it is not fixed by the language
func (b *Box) OrderDep() int {
	return b.n + b.Bump()
}

// ---- with TransSpec.InOut ------------------------------------------------------------------------

// the parameter is written AND returned: the result would share its array with the caller's slice
func EscWrite(s []int) []int {
	s[0] = 1
	return s
}

func both(a, b []int) { a[0] = b[0] + 1 }

// the same array in two argument positions of a call that writes one of them
func TwiceSame(s []int) { both(s, s) }

func lessInt(a, b int) bool { return a < b }

func pick(a, b int, less func(int, int) bool) int {
	if less(a, b) {
		return a
	}
	return b
}

// a function of the package as a pure function value: it is not known to be total
func UsePure(a, b int) int { return pick(a, b, lessInt) }

// a function-typed result
func Getter(n int) func(int, int) bool { return nil }

// a nil function
func NilFunc(a, b int) int {
	var f func(int, int) bool
	if f(a, b) {
		return a
	}
	return b
}

// writing a part of a slice through an in-out position
func both3(s []int) { both(s[1:], s[:1]) }

// ---- [ext:T20] --------------------------------------------------------------------------------------------

var hidden int

// ranging over a string decodes runes
func RangeString(s string) int {
	n := 0
	for range s {
		n++
	}
	return n
}

func StrCat(a, b string) int { return len(a + b) }

func RuneConv(s string) int { return len([]rune(s)) }

func RuneString(r rune) string { return string(r) }

// a package-level variable that is not listed in TransSpec.Globals
func GlobalUnlisted() int { return hidden }

var ErrMutable = errors.New("x")

func setErr() { ErrMutable = nil }

// a sentinel error that some function assigns is not a constant
func MutableSentinel() error { return ErrMutable }

// [BitsCode] a struct literal that keeps a named slice outside a return: the literal and the variable would share
type Pack struct{ xs []int }

func LitAlias(s []int) int {
	t := make([]int, 3)
	p := Pack{xs: t}
	t[0] = 5
	return p.xs[0] + len(s)
}

// [BitsCode] int(u) of an arbitrary 64-bit unsigned value may overflow
func BigConv(u uint64) int { return int(u + 1) }
