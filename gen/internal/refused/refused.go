// Package refused: functions OUTSIDE the subset of the translator; gen/trans_test.go checks that each is refused.
package refused

type Box struct {
	data []int
	n    int
}

func (b *Box) Bump() int { b.n++; return b.n }

// in-place write to a slice that shares its array with another variable
func Alias(n int) int {
	a := make([]int, n)
	b := a
	b[0] = 1
	return a[0]
}

func Closure(n int) int {
	f := func() int { return n }
	return f()
}

func Recursive(n int) int {
	if n <= 0 {
		return 0
	}
	return 1 + Recursive(n-1)
}

func Goroutine(n int) int {
	go Recursive(n)
	return n
}

func MapUse(n int) int {
	m := map[int]int{}
	m[n] = 1
	return len(m)
}

// the caller would see the write
func WriteParam(s []int) {
	s[0] = 1
}

func Labelled(n int) int {
outer:
	for i := 0; i < n; i++ {
		for j := 0; j < n; j++ {
			if j == 2 {
				continue outer
			}
		}
	}
	return n
}

func PtrArith(n int) int {
	p := &n
	*p = 3
	return n
}

func Defer(n int) (r int) {
	defer func() { r++ }()
	return n
}

// the order between the read of b.n and the call that assigns it is not fixed by the language
func (b *Box) OrderDep() int {
	return b.n + b.Bump()
}

// [BitsCode] a struct literal that keeps a named slice outside a return: the literal and the variable would share
type Pack struct{ xs []int }

func LitAlias(s []int) int {
	t := make([]int, 3)
	p := Pack{xs: t}
	t[0] = 5
	return p.xs[0] + len(s)
}

// [BitsCode] int(u) of an arbitrary 64-bit unsigned value may overflow
func BigConv(u uint64) int { return int(u + 1) }
