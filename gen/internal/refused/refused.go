// Package refused: functions OUTSIDE the subset of the translator; gen/trans_test.go checks that each is refused.
package refused

import "errors"

type Box struct {
	data []int
	n    int
}

func (b *Box) Bump() int { b.n++; return b.n }

// in-place write to a slice that shares its array with another variable
func Alias(n int) int {
	a := make([]int, n)
	b := a
	b[0] = 1
	return a[0]
}

func Closure(n int) int {
	f := func() int { return n }
	return f()
}

func Recursive(n int) int {
	if n <= 0 {
		return 0
	}
	return 1 + Recursive(n-1)
}

func Goroutine(n int) int {
	go Recursive(n)
	return n
}

func MapUse(n int) int {
	m := map[int]int{}
	m[n] = 1
	return len(m)
}

// the caller would see the write
func WriteParam(s []int) {
	s[0] = 1
}

func Labelled(n int) int {
outer:
	for i := 0; i < n; i++ {
		for j := 0; j < n; j++ {
			if j == 2 {
				continue outer
			}
		}
	}
	return n
}

func PtrArith(n int) int {
	p := &n
	*p = 3
	return n
}

func Defer(n int) (r int) {
	defer func() { r++ }()
	return n
}

// the order between the read of b.n and the call that assigns it is not fixed by the language
func (b *Box) OrderDep() int {
	return b.n + b.Bump()
}

// ---- [ext:T20] --------------------------------------------------------------------------------------------

var hidden int

// ranging over a string decodes runes
func RangeString(s string) int {
	n := 0
	for range s {
		n++
	}
	return n
}

func StrCat(a, b string) int { return len(a + b) }

func RuneConv(s string) int { return len([]rune(s)) }

func RuneString(r rune) string { return string(r) }

// a package-level variable that is not listed in TransSpec.Globals
func GlobalUnlisted() int { return hidden }

var ErrMutable = errors.New("x")

func setErr() { ErrMutable = nil }

// a sentinel error that some function assigns is not a constant
func MutableSentinel() error { return ErrMutable }
