// Outside the [ext:T17] subset (gen/trans_ext17.go): each function must be refused.
package refused

// StrLess17: ordering of strings is not modelled
func StrLess17(a, b string) bool { return a < b }
