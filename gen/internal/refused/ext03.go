package refused

type In struct{ set []uint64 }

func (b *In) Put(i int, v uint64) { b.set[i] = v }

type Out struct {
	n int
	In
}

type Peek struct {
	o *Out
	k int
}

// a write through a pointer field
func (p *Peek) Poke(v uint64) { p.o.set[0] = v }

// a writing method call through a pointer field
func (p *Peek) PokeCall(v uint64) { p.o.Put(0, v) }

// the zero value of a struct with a pointer field holds a nil pointer
func NilView() int {
	var p Peek
	return p.k
}

type Thing interface{ Size() int }

func (o *Out) Size() int { return o.n }

// an interface value outside result position
func IfaceVar(o *Out) int {
	var t Thing = o
	return t.Size()
}

func (o *Out) AsThing() Thing { return o }

// a call of a function that returns an interface value
func (o *Out) CallIface() int {
	t := o.AsThing()
	return t.Size()
}

func fill03(buf []int) { buf[0] = 1 }

// a call of a function that writes a slice parameter in place
func CallFill(n int) int {
	b := make([]int, n)
	fill03(b)
	return b[0]
}

// a composite literal whose slice field shares its array with a variable that is used again
func LitShares(n int) uint64 {
	s := make([]uint64, n)
	o := Out{In: In{set: s}}
	o.Put(0, 7)
	return s[0]
}

// int(u) for an unbounded 64-bit unsigned value
func BigConv03(u uint64) int { return int(u + 1) }
