package refused

import "strconv"

var tbl7 = []byte{1, 2, 3}
var tbl8 = []byte{1, 2, 3}

// the result of the append-style call may be a view of dst and is read after dst was written
func ViewLive(dst []byte, v uint64) byte {
	b := strconv.AppendUint(dst[:0], v, 10)
	dst[0] = 'x'
	return b[0]
}

// ... or escapes
func ViewEscapes(dst []byte, v uint64) []byte {
	b := strconv.AppendUint(dst[:0], v, 10)
	return b
}

// ... or is not bound to a variable at all
func AppendAnon(dst []byte, v uint64) int { return len(strconv.AppendUint(dst[:0], v, 10)) }

func copyInto7(d, s []byte) int { return copy(d, s) }

// overlapping arguments of a call that writes one of them
func Overlap(dst []byte) int { return copyInto7(dst, dst[1:]) }

// a parameter that is written in place and also re-sliced
func WholeAndInPlace(dst []byte) {
	dst[0] = 1
	dst = dst[1:]
	dst[0] = 2
}

func TableWrite7()       { tbl7[0] = 9 }
func TableRead7() byte   { return tbl7[0] }
func TableLeak7() []byte { return tbl8 }
