package refused

import (
	"errors"
	"fmt"
)

// ---- [ext:T15] --------------------------------------------------------------------------------------------

// a tag that is not an integer or a bool
func TagString(s string) int {
	switch s {
	case "a":
		return 1
	}
	return 0
}

// a format that belongs to none of the area's error kinds
func ErrUnknown(n int) error { return fmt.Errorf("something else %d", n) }

// a format that is not a constant
func ErrDynamic(f string) error { return errors.New(f) }

// two errors built by fmt.Errorf are never equal
func ErrEq(n int) bool {
	a := fmt.Errorf("kind one %d", n)
	b := fmt.Errorf("kind one %d", n)
	return a == b
}

func fill(dst []int, v int) {
	for i := range dst {
		dst[i] = v
	}
}
func blend(dst, src []int) { dst[0] = src[0] }

// the written argument also occurs in another argument
func OutAlias(n int) int {
	d := make([]int, n)
	blend(d, d[1:])
	return d[0]
}

// the written argument shares its array with another variable
func OutShared(n int) int {
	d := make([]int, n)
	e := d
	fill(d, 1)
	return e[0]
}

// a parameter that is written in place and assigned as a whole
func OutReassign(dst []int) int {
	dst[0] = 1
	dst = dst[1:]
	return len(dst)
}

// the argument is not a variable
func OutNotVar(n int) int {
	fill(make([]int, n), 1)
	return n
}
