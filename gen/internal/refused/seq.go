// Functions outside the "seq" extension of the translator (gen/trans_seq.go); each must be refused.
package refused

import (
	"sync/atomic"
	"time"
)

type pair struct {
	a int
	b uint32
}

type Holder struct {
	ps []pair
	n  uint32
}

// the pointer would keep the old array
func (h *Holder) PlaceThenReassign() int {
	p := &h.ps[0]
	h.ps = make([]pair, 3)
	p.a = 1
	return h.ps[0].a
}

// a whole struct element used as a value
func (h *Holder) ElemValue() int {
	c := h.ps[0]
	return c.a
}

func (h *Holder) SwitchBreak(x int) int {
	switch {
	case x > 0:
		if x > 5 {
			break
		}
		x++
	}
	return x
}

func (h *Holder) TagSwitch(x int) int {
	switch x {
	case 1:
		return 2
	}
	return x
}

func (h *Holder) AtomicSwap() uint32 {
	return atomic.SwapUint32(&h.n, 3)
}

func (h *Holder) Sleepy(d time.Duration) uint32 {
	time.Sleep(d)
	return h.n
}

// a function with a timed tail cannot be called from translated code (its remainder is a parameter)
func (h *Holder) Timed(d time.Duration) uint32 {
	if d == 0 {
		return h.n
	}
	time.Sleep(d)
	return h.n
}
func (h *Holder) CallsTimed() uint32 { return h.Timed(0) }

// an atomic store and an unordered read of the same variable in one statement
func (h *Holder) AtomicOrder() uint32 {
	return atomic.AddUint32(&h.n, 1) + h.n
}

func (h *Holder) AppendStructs() int {
	h.ps = append(h.ps, pair{})
	return len(h.ps)
}

// the loop condition writes the receiver
func (h *Holder) bump() bool { h.n++; return h.n > 3 }
func (h *Holder) CondWrites() uint32 {
	for !h.bump() {
	}
	return h.n
}
