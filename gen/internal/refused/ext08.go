// Functions outside the [ext:T08] part of the subset; gen/trans_ext08_test.go checks that each is refused.
package refused

import (
	"errors"

	lib "verifgen/internal/ext08lib"
)

var tbl [3][]byte

// two method calls on one handle: the second would not see the first (handles are values)
func TwoCalls(dst, src, key []byte) error {
	m, _ := lib.NewMode(key)
	m.Crypt(dst, src)
	m.Crypt(dst, dst)
	return nil
}

// a method call on a handle inside a loop
func LoopCall(dst, src, key []byte) error {
	m, _ := lib.NewMode(key)
	for i := 0; i < 2; i++ {
		m.Crypt(dst, src)
	}
	return nil
}

// the nil value of a foreign type
func NilHandle(key []byte) (lib.Mode, error) {
	if len(key) == 0 {
		return nil, errors.New("known text")
	}
	return lib.NewMode(key)
}

// an error text that is not in the table
func UnknownErr(n int) error {
	if n > 0 {
		return errors.New("some new text")
	}
	return nil
}

// a written argument that is not v, v[:] or v[:n]
func WriteSliced(dst, src, key []byte) error {
	m, _ := lib.NewMode(key)
	m.Crypt(dst[1:], src)
	return nil
}

// the written argument is a parameter that is not an output parameter (the caller would not see the write)
func WriteParam08(buf, src, key []byte) int {
	m, _ := lib.NewMode(key)
	m.Crypt(buf, src)
	return int(buf[0])
}

// calling a function that has output parameters
func OutFn(dst, src []byte) error { copy(dst, src); return nil }
func CallOut(n int) int {
	d := make([]byte, n)
	OutFn(d, d)
	return int(d[0])
}

// append on the outer level of a [][]byte
func NestedAppend(x []byte) int {
	var t [][]byte
	t = append(t, x)
	return len(t)
}

// an in-place write through an element of the table (shares with the table)
func ElemWrite(i int) int {
	p := tbl[i]
	p[0] = 3
	return int(tbl[i][0])
}

// a foreign function that is not listed
func Unlisted(n int) int { return lib.Other(n) }
