// Package ext08lib plays the part of a FOREIGN library in the self-test of the [ext:T08] extension of the translator
// (gen/trans_ext08.go, gen/trans_ext08_test.go): internal/sample/ext08.go calls it, the translator does not look inside
// it (the calls become fields of the generated Record Foreign) and the test instantiates that record in Coq.
package ext08lib

import "errors"

const Block = 4

var ErrKey = errors.New("empty key")

// Bytes: the constraint of byte-like type parameters
type Bytes interface{ ~string | ~[]byte }

// Mode is an opaque handle for the translated code.
type Mode interface {
	Crypt(dst, src []byte)
	Size() int
}

type xorMode struct{ k byte }

// NewMode: the key's first byte; an empty key is an error.
func NewMode(key []byte) (Mode, error) {
	if len(key) == 0 {
		return nil, ErrKey
	}
	return xorMode{key[0]}, nil
}

// Crypt writes src xor k over the front of dst; panics when dst is shorter than src.
func (m xorMode) Crypt(dst, src []byte) {
	if len(dst) < len(src) {
		panic("ext08lib: output smaller than input")
	}
	for i := range src {
		dst[i] = src[i] ^ m.k
	}
}
func (m xorMode) Size() int { return 1 }

// Repeat is bytes.Repeat.
func Repeat(b []byte, n int) []byte {
	if n < 0 {
		panic("ext08lib: negative Repeat count")
	}
	var out []byte
	for i := 0; i < n; i++ {
		out = append(out, b...)
	}
	return out
}

// Equal is bytes.Equal.
func Equal(a, b []byte) bool { return string(a) == string(b) }

// AppendSum appends src and one checksum byte to dst (in dst's own array when its capacity suffices), like AEAD.Seal.
func AppendSum(dst, src []byte) []byte {
	var s byte
	for _, c := range src {
		s += c
	}
	return append(append(dst, src...), s)
}

// Other is never listed in a TransSpec.Foreign.
func Other(n int) int { return n }
