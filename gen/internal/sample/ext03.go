// Sample functions for the [ext:T03] extension of the translator (gen/trans_ext03.go): nested / embedded / pointer struct
// fields, struct twins (type B A), promoted fields and methods, composite literals, interface results as sums, memory read
// through unsafe.Pointer as a parameter, slice parameters written in place, overlapping copy, int(u >> c).
package sample

import "unsafe"

type Inner struct{ set []uint64 }

func (b *Inner) Put(i int, v uint64) bool {
	if i >= len(b.set) {
		b.set = append(b.set, make([]uint64, i+1-len(b.set))...)
		b.set[i] = v
		return true
	}
	if b.set[i] != v {
		b.set[i] = v
		return true
	}
	return false
}

func (b *Inner) Has(i int) bool { return i < len(b.set) && b.set[i] != 0 }

func (b *Inner) mark(n uint) {
	index, bit := int(n>>6), n&63
	b.set[index] |= 1 << bit
}

type Outer struct {
	n int
	Inner
}

func (o *Outer) Put(i int, v uint64) bool {
	if o.Inner.Put(i, v) {
		o.n++
		return true
	}
	return false
}

// promoted field: read, indexed write, whole write
func (o *Outer) Promoted(i int) uint64 { return o.set[i] + uint64(o.n) }
func (o *Outer) Clear() {
	for i := range o.set {
		o.set[i] = 0
	}
	o.n = 0
}
func (o *Outer) Drop() { o.set = o.set[:0] }

// promoted method that writes
func (o *Outer) Mark(n uint) { o.mark(n); o.n++ }

type Twin Outer

type Shape interface {
	Put(i int, v uint64) (Shape, bool)
	Has(i int) bool
}

func (t *Twin) Put(i int, v uint64) (Shape, bool) { return t, (*Outer)(t).Put(i, v) }
func (t *Twin) Has(i int) bool                    { return t.Inner.Has(i) }
func (t *Twin) Count() int                        { return (*Outer)(t).n + len(t.set) }

// a named (not embedded) struct field
type Named struct {
	in Inner
	k  int
}

func (n *Named) Set(i int, v uint64) bool {
	ok := n.in.Put(i, v)
	n.in.set[0] = n.in.set[0] + 1
	n.k++
	return ok
}

// a pointer field: a read-only view
type View struct {
	o   *Outer
	pos int
}

func (v *View) Step() bool {
	if v.pos < len(v.o.set)-1 {
		v.pos++
		return true
	}
	return false
}
func (v *View) Cur() uint64 { return v.o.set[v.pos] + uint64(v.o.n) }
func (v *View) Has() bool   { return v.o.Inner.Has(v.pos) }

type Arr struct{ vals []uint16 }

func (a *Arr) Has(i int) bool { return i < len(a.vals) && a.vals[i] != 0 }

// insertion with an overlapping copy; interface results; the conversion reads memory through unsafe.Pointer, writes the
// slice parameter buf in place and builds a Twin with a composite literal
func (a *Arr) Put(i int, v uint64) (Shape, bool) {
	if i < 0 || i > len(a.vals) {
		return a, false
	}
	a.vals = append(a.vals, 0)
	copy(a.vals[i+1:], a.vals[i:])
	a.vals[i] = uint16(v)
	return a, true
}

func (a *Arr) Promote(x uint16, buf []uint16) (Shape, bool) {
	if len(a.vals) < 8 {
		return a, false
	}
	copy(buf, a.vals)
	t := *(*[2]uint64)(unsafe.Pointer(&a.vals[0]))
	nc := Twin{Inner: Inner{set: t[:]}}
	for _, v := range buf {
		nc.mark(uint(v) & 127)
	}
	nc.mark(uint(x) & 127)
	nc.n = len(buf)
	return &nc, true
}

// Reinterp is what Promote's parameter stands for (little endian), for the self-test
func Reinterp(vals []uint16) [2]uint64 {
	return *(*[2]uint64)(unsafe.Pointer(&vals[0]))
}

// the overlapping copy in the other direction
func (a *Arr) Delete(i int) {
	copy(a.vals[i:], a.vals[i+1:])
	a.vals = a.vals[:len(a.vals)-1]
}

func Mid(lo, hi int) (int, int, int) {
	u := uint(lo + hi)
	return int(u>>1) + int(u/64), int(u & 0xff), int(u % 10)
}

type Opaque2 struct{ m map[int]int }

// only the leading declarations are translated (TransSpec.Heads): the rest uses a map
func (o *Opaque2) Split(num uint32, s []int) int {
	high := uint16(num >> 16)
	low := uint16(num)
	n := len(s) + 1
	return o.m[int(high)] + int(low) + n
}

// a slice parameter written in place is returned
func FillBuf(buf []int, n int) int {
	k := 0
	for i := range buf {
		if i < n {
			buf[i] = i * i
			k++
		}
	}
	copy(buf[1:], buf[:2])
	return k
}

func lowerBound(s []int, x int) int {
	lo, hi := 0, len(s)
	for lo < hi {
		mid := int(uint(lo+hi) >> 1)
		if s[mid] < x {
			lo = mid + 1
		} else {
			hi = mid
		}
	}
	return lo
}

// passing a field to a function that only reads it does not make the field shared
type Sorted struct{ s []int }

func (a *Sorted) Insert(x int) int {
	p := lowerBound(a.s, x)
	a.s = append(a.s, 0)
	copy(a.s[p+1:], a.s[p:])
	a.s[p] = x
	return p
}

// ---- accessors for the self-test (not translated)
func SetN(o *Outer, n int)                { o.n = n }
func OuterState(o *Outer) (int, []uint64) { return o.n, o.set }
func MkNamed(set []uint64, k int) *Named  { return &Named{in: Inner{set: set}, k: k} }
func NamedState(n *Named) ([]uint64, int) { return n.in.set, n.k }
func MkView(o *Outer, pos int) *View      { return &View{o: o, pos: pos} }
func ViewPos(v *View) int                 { return v.pos }
func MkArr(v []uint16) *Arr               { return &Arr{vals: v} }
func ArrVals(a *Arr) []uint16             { return a.vals }
func MkSorted(s []int) *Sorted            { return &Sorted{s: s} }
func SortedVals(a *Sorted) []int          { return a.s }
