// Self-test input for the [ext:T15] extension of the translator (gen/trans_ext15.go, tested by gen/trans_ext15_test.go):
// type parameters over string | []byte, a package of the module imported for real, error kinds built by fmt.Errorf /
// errors.New (with a carried operand), a sentinel of encoding/hex, switch with a tag, slice parameters written in place.
package sample

import (
	"encoding/hex"
	"errors"
	"fmt"

	"verifgen/internal/samplecons"
)

// index loop over a byte sequence of either kind
func CountByte[T samplecons.StrOrBytes](s T, b byte) int {
	n := 0
	for i := 0; i < len(s); i++ {
		if s[i] == b {
			n++
		}
	}
	return n
}

// re-slicing a T (panics when k is out of range), a constant of the imported package
func TailOf[T samplecons.StrOrBytes](s T, k int) int {
	s0 := s
	s = s[k:]
	if len(s) == 0 {
		return samplecons.WordBits + len(s0)
	}
	return int(s[0]) + CountByte(s, s0[0])
}

// error kinds; the operand of "bad digit" is carried; the operands are evaluated (s[n] may panic)
func Kind[T samplecons.StrOrBytes](s T, n int) (int, error) {
	if n < 0 {
		return 0, errors.New("sample: negative")
	}
	if n == 0 {
		return 1, nil
	}
	if n >= 3 {
		return n, fmt.Errorf("sample: parsing %v: bad digit %#U at %d", s, rune(s[n]), n)
	}
	return 2, fmt.Errorf("sample: %v is too long (%d)", s, len(s))
}

// callers compare with nil and with the foreign sentinel only
func KindUser(s string, n int) int {
	v, err := Kind(s, n)
	if err != nil {
		return -v
	}
	_, err = Pairs(s)
	if err == hex.ErrLength {
		return 100
	}
	return v
}

func Pairs[T samplecons.StrOrBytes](s T) (int, error) {
	if len(s)%2 == 1 {
		return len(s) / 2, hex.ErrLength
	}
	return len(s) / 2, nil
}

func Lens(n int) (int, int) { return hex.EncodedLen(n), hex.DecodedLen(n) }

// switch with a tag (several values per case, default in the middle), inside a loop with continue
func TagSum(xs []int) int {
	t := 0
	for i := 0; i < len(xs); i++ {
		switch xs[i] % 5 {
		case 0:
			continue
		default:
			t += 100
		case 1, 2:
			t += xs[i]
		case 3:
			t -= 1
		}
		t *= 2
	}
	return t
}

// the tag is a call that writes (evaluated once, before the cases)
func bump(p []int) int { p[0]++; return p[0] }
func TagCall(p []int) int {
	switch bump(p) {
	case 1, 6:
		return 10 + p[0]
	case 4:
		p[0] = 40
	}
	return p[0]
}

func TagBool(b bool, x int) int {
	switch b {
	case true:
		return x
	}
	return -x
}

// a, ok := f(); b, ok := g(): the second := re-uses ok
func first(xs []int) (int, bool) {
	if len(xs) == 0 {
		return 0, false
	}
	return xs[0], true
}
func Redecl(xs, ys []int) int {
	a, ok := first(xs)
	if !ok {
		return -1
	}
	b, ok := first(ys)
	if !ok {
		return -2
	}
	return a + b
}

// slice parameters written in place: the caller sees the writes
func Fill(dst []int, v int) int {
	for i := 0; i < len(dst); i++ {
		dst[i] = v + i
	}
	return len(dst)
}

// passes its parameter on; writes through copy as well
func FillTwice(dst []int, src []int, v int) int {
	n := Fill(dst, v)
	copy(dst[1:], src)
	dst[0]++
	return n
}

func UseFill(n, v int) ([]int, int) {
	d := make([]int, n)
	e := make([]int, 2)
	k := 0
	if v > 0 {
		k = FillTwice(d, e, v)
	} else {
		k = Fill(e, v)
	}
	return append(d, e...), k
}

func HexTo(dst []byte, src string) int {
	j := 0
	for i := 0; i < len(src); i++ {
		dst[j] = hexDigits[src[i]>>4]
		dst[j+1] = hexDigits[src[i]&15]
		j += 2
	}
	return j
}
