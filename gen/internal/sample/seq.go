// Sample input for the "seq" extension of the translator (gen/trans_seq.go, tested by gen/trans_seq_test.go): the
// sequential reading of sync/atomic and runtime.Gosched, slices of structs, pointers to elements, tagless switch,
// timed tails.  Everything here is run by ONE goroutine.
package sample

import (
	"runtime"
	"sync/atomic"
	"time"
)

type cell[T any] struct {
	val T
	seq uint32
}

type Slots[T any] struct {
	cells []cell[T]
	mask  uint32
	head  uint32
	tail  uint32
	ops   uint64
	bal   int64
}

// tagless switch with an init statement, a case with two expressions and the default clause in the middle; make of a
// slice of structs; range by index writing a field of an element
func (s *Slots[T]) Setup(n int) {
	var m uint32
	switch k := n - 1; {
	case n <= 0:
		panic("Slots.Setup: bad size")
	default:
		m = uint32(k)
	case n == 1, n == 2:
		m = 1
	}
	s.mask = m
	s.cells = make([]cell[T], m+1)
	for i := range s.cells {
		s.cells[i].seq = uint32(i) * 3
	}
	atomic.StoreUint64(&s.ops, 0)
}

// pointer to an element, loads / CAS / adds through it and through the receiver
func (s *Slots[T]) Put(v T) bool {
	pos := atomic.LoadUint32(&s.tail)
	h := &s.cells[pos&s.mask]
	if atomic.LoadUint32(&h.seq) != pos*3 {
		return false
	}
	if !atomic.CompareAndSwapUint32(&s.tail, pos, pos+1) {
		return false
	}
	h.val = v
	atomic.AddUint32(&h.seq, 1)
	atomic.AddUint64(&s.ops, 1)
	atomic.AddInt64(&s.bal, 5)
	return true
}

// the same slot reached by index expressions
func (s *Slots[T]) Get() (T, bool) {
	var zero T
	pos := atomic.LoadUint32(&s.head)
	i := pos & s.mask
	if s.cells[i].seq != pos*3+1 {
		return zero, false
	}
	if !atomic.CompareAndSwapUint32(&s.head, pos, pos+1) {
		return zero, false
	}
	v := s.cells[i].val
	s.cells[i].val = zero
	atomic.StoreUint32(&s.cells[i].seq, (pos+s.mask+1)*3)
	atomic.AddInt64(&s.bal, -5)
	return v, true
}

func (s *Slots[T]) Count() int {
	return int(atomic.LoadUint32(&s.tail) - atomic.LoadUint32(&s.head))
}

// a compare-and-swap that fails when old is stale
func (s *Slots[T]) Stale(old uint32) (bool, uint32) {
	ok := atomic.CompareAndSwapUint32(&s.head, old, old+7)
	return ok, atomic.LoadUint32(&s.head)
}

// timed tail: translated up to the timer; the for loop never ends when the slots stay full (one goroutine)
func (s *Slots[T]) PutWait(v T, d time.Duration) bool {
	if d < 0 {
		for {
			if s.Put(v) {
				return true
			}
			runtime.Gosched()
		}
	}
	if s.Put(v) {
		return true
	}
	if d == 0 {
		return false
	}
	t := time.NewTimer(d)
	<-t.C
	return s.Put(v)
}

func SlotScript(n int, xs []int, stale int) (int, int, int, bool, bool, int, int, int) {
	var s Slots[int]
	s.Setup(n)
	put := 0
	for _, x := range xs {
		if s.Put(x) {
			put++
		}
	}
	a, ok1 := s.Get()
	b, ok2 := s.Get()
	s.Put(99)
	okS, h := s.Stale(uint32(stale))
	return put, a, b, ok1 && ok2, okS, int(h), s.Count(), int(s.bal) + int(uint32(s.ops))*1000 + len(s.cells)*1000000
}

// atomics on local variables, wrap-around of Add
func LocalAtomics(a uint32, d uint32) (uint32, bool, bool, uint32) {
	var x uint32
	atomic.StoreUint32(&x, a)
	ok1 := atomic.CompareAndSwapUint32(&x, 5, 6)
	ok2 := atomic.CompareAndSwapUint32(&x, 6, 7)
	y := atomic.AddUint32(&x, d)
	return atomic.LoadUint32(&x), ok1, ok2, y
}
