// Sample of the [ext:T17] extension (gen/trans_ext17.go): rune-aware string code.
package sample

import "strings"

// Cat: + on strings, == / != on strings
func Cat(a, b string) (string, bool, bool) {
	c := a + "-" + b
	return c, a == b, c != "x-"
}

// Rep: strings.Repeat (panics for a negative count)
func Rep(s string, n int) string {
	if s == "" {
		return "empty"
	}
	return strings.Repeat(s, n) + "."
}

// RuneRev: []rune(s), in-place work on the rune slice, string(runes)
func RuneRev(s string) (string, int) {
	rs := []rune(s)
	for i, j := 0, len(rs)-1; i < j; i, j = i+1, j-1 {
		rs[i], rs[j] = rs[j], rs[i]
	}
	rs = append(rs, -5, 0x10FFFF+1, 0xD800, 'x')
	return string(rs), len(rs)
}

// RangeStr: for i, v := range s with break / continue / return inside
func RangeStr(s string, stop int) (int, int, string) {
	sum, n := 0, 0
	for i, v := range s {
		if v == 'q' {
			continue
		}
		if v == '!' {
			break
		}
		if n == stop {
			return sum, n, s[:i]
		}
		sum += i * int(v)
		n++
	}
	return sum, n, s
}

// RangeKeys: the index-only and value-only forms, assignment form (=) with outer variables
func RangeKeys(s string) (int, int, rune) {
	last := -1
	for i := range s {
		last = i
	}
	var k int
	var r rune
	cnt := 0
	for k, r = range s {
		cnt += k
	}
	for _, v := range s {
		if v == 0xFFFD {
			cnt += 1000
		}
	}
	return last, cnt, r
}
