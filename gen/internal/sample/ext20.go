// Self-test input for the [ext:T20] extension of the translator (gen/trans_ext20.go, tested by gen/trans_ext20_test.go):
// strings, arrays, package-level state, wrapping intN, receivers of named integer types, error, loop fragments.
package sample

import "errors"

const hexDigits = "0123456789abcdef"

var table [16]uint8
var counter int

var ErrBad = errors.New("bad")

// ResetState / State: the test sets and reads the package-level state natively (explicit in the translation)
func ResetState()           { table = [16]uint8{}; counter = 0 }
func State() ([]uint8, int) { return append([]uint8(nil), table[:]...), counter }

// ---- package-level state ---------------------------------------------------------------------------

// writes both globals (range over an array: the bound is the array length)
func TableSetup(k int) int {
	for i := range table {
		table[i] = uint8(i * k)
	}
	counter += k
	return counter
}

// reads both; panics for n > 16
func TableSum(n int) int {
	s := 0
	for i := 0; i < n; i++ {
		s += int(table[i])
	}
	return s + counter + len(table)
}

// calls a writer and a reader
func Both(k, n int) int {
	TableSetup(k)
	if n < 0 {
		return TableSetup(1)
	}
	return TableSum(n)
}

// ---- strings -------------------------------------------------------------------------------------------

func HexDigit(i int) string { return string(hexDigits[i]) }

func Hex(n int) string {
	if n == 0 {
		return "0"
	}
	var b []byte
	for n > 0 {
		b = append(b, hexDigits[n%16])
		n /= 16
	}
	for i, j := 0, len(b)-1; i < j; i, j = i+1, j-1 {
		b[i], b[j] = b[j], b[i]
	}
	return string(b)
}

func StrOps(s string, i, j int) (int, int) {
	t := s[i:j]
	return len(t) + len(hexDigits), int(t[0])
}

// index-only range over a constant ASCII string: the rune starts are the byte indices
func AsciiRange(k int) int {
	n := 0
	for i := range hexDigits {
		n += (i + k) * int(hexDigits[i])
	}
	return n
}

// string(b) of a byte is the UTF-8 encoding of the rune b
func HighByte(b uint8) string { return string(b) }

func Bytes(s string) []byte {
	b := []byte(s)
	return append(b, s...)
}

// ---- wrapping signed integers --------------------------------------------------------------------------

func I64(a, b int64) int64 {
	c := a*b + a
	c -= b
	c = c << 3
	c++
	return -c / b
}

func I32(a int32, n uint) int32 { return (a << n) + int32(int64(a)*1000003) - a>>1 }

func I8(a, b int8) int8 { return a/b + a*b }

func Conv(u uint64) (int64, int32, int8, uint16) { return int64(u), int32(u), int8(u), uint16(int8(u)) }

// ---- a receiver of a named integer type, error results --------------------------------------------------

type Num int64

func (n Num) Half() Num { return n / 2 }

func (n Num) Check() (Num, error) {
	if n < 0 {
		return -1, ErrBad
	}
	n++
	return n.Half(), nil
}

func UseCheck(x int64) int {
	v, err := Num(x).Check()
	if err != nil {
		if err == ErrBad {
			return -2
		}
		return -1
	}
	var e2 error = nil
	if e2 == nil {
		return int(v)
	}
	return -3
}

// ---- a receiver that cannot be translated and is never mentioned ----------------------------------------

type Opaque struct{ m map[string]int }

func (o *Opaque) Twice(x int) int { return 2 * x }

// ---- a loop fragment of a function that cannot be translated as a whole ---------------------------------

func WithFrag(s []int, n int) int {
	m := map[int]int{len(s): n}
	total := len(s)
	for i := 0; i < n; i++ {
		total += i
	}
	return total + len(m) - 1
}
