// Package sample: self-test input of the Go -> Gallina translator (gen/trans_test.go).  Every function is run natively
// on a table of arguments and its translation is evaluated by coqc on the same arguments; the results must agree.
// The functions exercise each construct of the supported subset at least once.
package sample

import "math/bits"

// ---- integers ----------------------------------------------------------------------------------

func DivMod(a, b int) (int, int) { return a / b, a % b }

func Shifts(a int, n int) (int, int) { return a << n, a >> n }

func Bits(a, b int) int { return (a&b)<<1 | (a ^ b) | (a &^ b) }

func U8(a, b uint8) uint8 {
	c := a + b
	c *= 3
	c -= 200
	c = c << 1
	return ^c + uint8(int(a)*7)
}

func U32(x uint32, s uint) uint32 {
	y := x<<s + x>>3
	y++
	return y - 1000000
}

func MinMax(a, b, c int) int { return min(a, b, c)*100 + max(a, b) }

func Cmp(a, b int) int {
	r := 0
	if a < b {
		r += 1
	}
	if a <= b {
		r += 2
	}
	if a > b {
		r += 4
	}
	if a >= b {
		r += 8
	}
	if a == b {
		r += 16
	}
	if a != b {
		r += 32
	}
	return r
}

// ---- booleans, short circuit ------------------------------------------------------------------

// the right operand panics when it is evaluated with b == 0
func AndDiv(a, b int) bool { return b != 0 && a/b > 1 }
func OrDiv(a, b int) bool  { return b == 0 || a%b == 0 }
func Bools(p, q bool) bool { return (p && !q) || (p == q) != (p != q) }

func Safe(s []int, i int) int {
	if i >= 0 && i < len(s) && s[i] > 0 {
		return s[i]
	}
	return -1
}

// ---- control ------------------------------------------------------------------------------------

func Classify(x int) int {
	var r int
	if x < 0 {
		r = -1
	} else if x == 0 {
		r = 0
	} else if y := x % 2; y == 0 {
		r = 2
	} else {
		r = 1
	}
	r *= 10
	return r
}

func Early(x int) (int, bool) {
	if x < 0 {
		return 0, false
	}
	{
		x := x * 2 // shadows the parameter inside the block
		if x > 100 {
			return x, true
		}
	}
	return x, true
}

func MustPos(x int) int {
	if x <= 0 {
		panic("not positive")
	}
	return x
}

// ---- loops --------------------------------------------------------------------------------------

func SumTo(n int) int {
	s := 0
	for i := 1; i <= n; i++ {
		s += i
	}
	return s
}

func Collatz(n int) int {
	steps := 0
	for n > 1 {
		if n%2 == 0 {
			n = n / 2
		} else {
			n = 3*n + 1
		}
		steps++
	}
	return steps
}

func FindFirst(s []int, x int) int {
	for i, v := range s {
		if v == x {
			return i
		}
	}
	return -1
}

func SumPositiveUntilZero(s []int) int {
	t := 0
	for _, v := range s {
		if v == 0 {
			break
		}
		if v < 0 {
			continue
		}
		t += v
	}
	return t
}

func CountRange(s []int) int {
	n := 0
	for range s {
		n++
	}
	for i := range s {
		n += i
	}
	for i := range 4 {
		n += i * 100
	}
	return n
}

func Nested(n int) int {
	c := 0
	for i := 0; i < n; i++ {
		for j := 0; j < n; j++ {
			if j > i {
				break
			}
			if (i+j)%3 == 0 {
				continue
			}
			if c > 50 {
				return -c
			}
			c += i*j + 1
		}
	}
	return c
}

func Forever(n int) int {
	i := 0
	for {
		if i*i >= n {
			break
		}
		i++
	}
	return i
}

// ---- slices -------------------------------------------------------------------------------------

func Reverse(s []int) []int {
	r := make([]int, len(s))
	for i, v := range s {
		r[len(s)-1-i] = v
	}
	return r
}

func Window(s []int, a, b int) (int, int) {
	w := s[a:b]
	h := s[:a]
	t := s[b:]
	return len(w)*100 + len(h)*10 + len(t), cap(s)
}

func Build(n int) []int {
	var r []int
	for i := 0; i < n; i++ {
		r = append(r, i*i)
	}
	r = append(r, -1, -2)
	extra := make([]int, 2, 5)
	r = append(r, extra...)
	return r
}

func CopyInto(n int, src []int) ([]int, int, int) {
	dst := make([]int, n)
	k := copy(dst, src)
	m := copy(dst[k/2:n-1], src)
	dst[0] += 1000
	dst[n-1]--
	return dst, k, m
}

func Swap(s []int, i, j int) []int {
	r := make([]int, len(s))
	copy(r, s)
	r[i], r[j] = r[j], r[i]
	a, b := i, j
	a, b = b, a+b
	r[0] = a*10 + b
	return r
}

func MakeNeg(n int) int { return len(make([]int, n)) }

// ---- a struct with methods, generic element type --------------------------------------------------

type Stack[T any] struct {
	items []T
	n     int
	limit int
}

func (s *Stack[T]) Reset(limit int) {
	s.items = nil
	s.n = 0
	s.limit = limit
}

func (s *Stack[T]) Full() bool { return s.n >= s.limit }

func (s *Stack[T]) Push(x T) bool {
	if s.Full() {
		return false
	}
	s.items = append(s.items, x)
	s.n++
	return true
}

func (s *Stack[T]) Pop() (T, bool) {
	var zero T
	if s.n == 0 {
		return zero, false
	}
	s.n--
	x := s.items[s.n]
	s.items = s.items[:s.n]
	return x, true
}

func (s *Stack[T]) Size() int { return s.n }

// PushAll uses a mutating call as a condition, inside a loop
func (s *Stack[T]) PushAll(xs []T) int {
	k := 0
	for _, x := range xs {
		if !s.Push(x) {
			break
		}
		k++
	}
	return k
}

// PopTwo forwards and combines multi-valued calls
func (s *Stack[T]) PopTwo() (T, T, bool) {
	a, ok := s.Pop()
	if !ok {
		return a, a, false
	}
	b, ok2 := s.Pop()
	return a, b, ok2
}

func Script(limit int, xs []int) (int, int, int, bool, int) {
	var s Stack[int]
	s.Reset(limit)
	k := s.PushAll(xs)
	a, b, ok := s.PopTwo()
	return k, a, b, ok, s.Size()
}

// ---- function-typed parameters / fields and in-out slice parameters (TransSpec.InOut; trans_func.go) ----------------

// Exch writes its slice parameter in place: it is handed back to the caller.
func Exch[T any](s []T, i, j int) { s[i], s[j] = s[j], s[i] }

// NoExch has the same type and writes nothing: used as a value it needs an adapter.
func NoExch[T any](s []T, i, j int) {}

// ExchIf: a hook with a result.
func ExchIf(s []int, i, j int) bool {
	if s[i] > s[j] {
		s[i], s[j] = s[j], s[i]
		return true
	}
	return false
}

// Bubble calls a pure function value and a slice-writing function value; s comes back to the caller.
func Bubble[T any](s []T, less func(T, T) bool, exch func([]T, int, int)) int {
	n := 0
	for i := 0; i < len(s); i++ {
		for j := len(s) - 1; j > i; j-- {
			if less(s[j], s[j-1]) {
				exch(s, j, j-1)
				n++
			}
		}
	}
	return n
}

// DryRun passes its parameter on to an in-out position, with a package function as the hook (adapter).
func DryRun(s []int, less func(int, int) bool) int { return Bubble(s, less, NoExch[int]) }

// Pass: a function value with a result that also writes the slice.
func Pass(s []int, step func([]int, int, int) bool) int {
	n := 0
	for i := 0; i+1 < len(s); i++ {
		if step(s, i, i+1) && n >= 0 {
			n++
		}
	}
	return n
}

// FirstLast: pure function value inside an andb / orb (no short circuit needed) and with an index operand (needed).
func FirstLast(s []int, less func(int, int) bool, a, b int) bool {
	return less(a, b) || len(s) > 0 && less(s[0], s[len(s)-1])
}

// Sorter: a struct with a function-typed field; the method passes a field to an in-out position.
type Sorter[T any] struct {
	data   []T
	before func(T, T) bool
	swaps  int
}

func (b *Sorter[T]) Sort() int {
	n := Bubble(b.data, b.before, Exch[T])
	b.swaps += n
	return b.swaps
}

func (b *Sorter[T]) Min() (T, bool) {
	var zero T
	if len(b.data) == 0 {
		return zero, false
	}
	m := b.data[0]
	for _, v := range b.data {
		if b.before(v, m) {
			m = v
		}
	}
	return m, true
}

// SortWith / MinWith: native drivers for the two methods (not translated)
func SortWith(s []int, before func(int, int) bool, swaps int) int {
	b := Sorter[int]{data: s, before: before, swaps: swaps}
	return b.Sort()
}

func MinWith(s []int, before func(int, int) bool) (int, bool) {
	b := Sorter[int]{data: s, before: before}
	return b.Min()
}

// ---- [BitsCode] uint64 words: int(u >> c) / int(u & c), math/bits.OnesCountN, a struct literal as a return operand ----

type Words struct {
	w []uint64
	n int
}

func WordIdx(n uint) (int, int, int, int) { return int(n >> 6), int(n & 63), int(n % 100), int(n / 2) }

func Pop64(x uint64, y uint32) int {
	return bits.OnesCount64(x)*10000 + bits.OnesCount32(y)*100 + bits.OnesCount8(uint8(x)) + bits.OnesCount(uint(y))*1000000
}

// SetBit grows the word list and sets a bit; returns a copy with the population count cached
func (w *Words) SetBit(k uint) Words {
	idx := int(k >> 6)
	for idx >= len(w.w) {
		w.w = append(w.w, 0)
	}
	w.w[idx] |= 1 << (k & 63)
	s := make([]uint64, len(w.w))
	copy(s, w.w)
	c := 0
	for _, v := range s {
		c += bits.OnesCount64(v)
	}
	return Words{w: s, n: c}
}

func WordsScript(a, b uint64, k uint) (int, int, uint64, int) {
	var w Words
	w.w = append(w.w, a, b)
	c := w.SetBit(k)
	d := Words{n: 7}
	return c.n, len(c.w) + len(d.w) + d.n, c.w[len(c.w)-1], len(w.w)
}

// ---- [BitsCode] named results: documentation-style (explicit return) and assigned + bare return ----

func Locate(num uint) (index int, mask uint64) { return int(num >> 6), uint64(1) << (num & 63) }

func NamedSum(s []int, limit int) (total int, clipped bool) {
	for _, v := range s {
		if total+v > limit {
			clipped = true
			return
		}
		total += v
	}
	if total < 0 {
		return 0, true
	}
	return
}
