// Sample input for the stable Record field names of the translator (gen/trans_stable.go, gen/trans_stable_test.go): the
// struct below is translated against an EXPECTED field list with other names and another order.
package sample

type Acct[T any] struct {
	tag   T
	limit int
	slots []T
	used  int
}

func (a *Acct[T]) Open(tag T, limit int) {
	a.tag = tag
	a.limit = limit
	a.slots = make([]T, limit)
	a.used = 0
}

func (a *Acct[T]) Put(x T) bool {
	if a.used >= a.limit {
		return false
	}
	a.slots[a.used] = x
	a.used++
	return true
}

func (a *Acct[T]) Sum() int { return a.used*1000 + a.limit }

func AcctScript(limit int, xs []int) (int, int, int, int) {
	var a Acct[int]
	a.Open(7, limit)
	k := 0
	for _, x := range xs {
		if a.Put(x) {
			k++
		}
	}
	last := -1
	if a.used > 0 {
		last = a.slots[a.used-1]
	}
	return k, a.Sum(), last, a.tag
}
