// Sample functions for the [ext:T07] extension of the translator (gen/trans_ext07.go): slice parameters written in place,
// sub-slice arguments written back, a bytestring type parameter, modelled standard-library calls (strconv.AppendUint with
// the scratch-prefix idiom, unicode/utf8, unicode/utf16), a package-level table, range over a slice written in place.
package sample

import (
	"strconv"
	"unicode/utf16"
	"unicode/utf8"
)

type StrOrBytes interface{ ~string | ~[]byte }

var zeros = []byte{'0', '0', '0', '0'}

// Fill7 writes its parameter in place (panics when n > len(dst)) and has a result.
func Fill7(dst []byte, v byte, n int) int {
	k := 0
	for i := 0; i < n; i++ {
		dst[i] = v
		k++
	}
	return k
}

// Pad: the digits of i right-aligned in dst, '0' to the left (at most len(zeros) of them); no result of its own.
func Pad(dst []byte, i uint64, base int) {
	b := strconv.AppendUint(dst[:0], i, base)
	x := len(dst) - len(b)
	copy(dst[x:], b)
	copy(dst[:x], zeros)
}

// Upper7: range with a value variable over the slice it writes.
func Upper7(dst []byte) {
	for i, b := range dst {
		if 'a' <= b && b <= 'z' {
			dst[i] = b - 32
		}
		if i+1 < len(dst) && b == '!' {
			dst[i+1] = '?' // read again at the next iteration
		}
	}
}

// Esc: a bytestring type parameter; sub-slices of a local buffer handed to functions that write them.
func Esc[T StrOrBytes](s T, w int) []byte {
	b := make([]byte, len(s)*w)
	j := 0
	for i := 0; i < len(s); i++ {
		b[j] = '\\'
		Pad(b[j+1:j+w], uint64(s[i]), 16)
		Upper7(b[j+1 : j+w])
		j += w
	}
	return b
}
func EscStr(s string, w int) []byte   { return Esc(s, w) }
func EscBytes(s []byte, w int) []byte { return Esc(s, w) }

// Scratch: whether the appended digits fit behind the prefix decides whether dst's array is written (cap = len).
func Scratch(dst []byte, v uint64) (int, byte) {
	b := strconv.AppendUint(dst[:1], v, 10)
	return len(b), b[len(b)-1]
}

// Two: a whole variable and a tail of it as written arguments.
func Two(dst []byte, n int) int {
	a := Fill7(dst, 1, n)
	c := Fill7(dst[1:], 2, n-1)
	return a*10 + c
}

func Enc(dst []byte, r rune, e int) int {
	e += utf8.EncodeRune(dst[e:], r)
	return e
}
func Dec(s string, i int) (rune, int) { return utf8.DecodeRuneInString(s[i:]) }
func DecB(s []byte) (rune, int)       { return utf8.DecodeRune(s) }
func Count7(s string) int             { return utf8.RuneCountInString(s) }
func U16(r rune) (rune, rune)         { return utf16.EncodeRune(r) }
func U16d(a, b rune) rune             { return utf16.DecodeRune(a, b) }
func AppRune(r rune) []byte           { return utf8.AppendRune(nil, r) }
func Num7(b []byte, v uint64, base int) []byte {
	b = strconv.AppendUint(b, v, base)
	return b
}
func Zero7(i int) (byte, int) { return zeros[i], len(zeros) }

// AsString is listed in TransSpec.Identity (a conversion between the two byte-string types): its body is not translated.
func AsString[T StrOrBytes](s T) string { return string(s) }
func CountAny[T StrOrBytes](s T) int    { return utf8.RuneCountInString(AsString(s)) }
func CountBytes7(s []byte) int          { return CountAny(s) }
