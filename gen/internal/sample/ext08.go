// Self-test input for the [ext:T08] extension of the translator (gen/trans_ext08.go, tested by gen/trans_ext08_test.go):
// calls of a foreign library (internal/ext08lib) as fields of the Record Foreign, opaque handles, slice arguments the
// callee writes, output parameters, error codes, []byte{..} literals, a [N][]byte table, byte-like type parameters.
package sample

import (
	"errors"
	"fmt"

	lib "verifgen/internal/ext08lib"
)

var pats [lib.Block + 1][]byte

func init() {
	for i := range pats {
		pats[i] = lib.Repeat([]byte{byte(i), byte(i + 100)}, i)
	}
}

// Pats / ResetPats: the test reads and re-initialises the table natively
func Pats() [][]byte { return pats[:] }

// reads the table: an element and its length; panics for i outside 0..Block or i = 0
func Pat(i int) int { return len(pats[i]) + int(pats[i][1]) + len(pats) }

// an output parameter, an opaque handle, error codes, copy into the tail, a written argument
func Encode(dst, src, key []byte) (int, error) {
	m, err := lib.NewMode(key)
	if err != nil {
		return 0, fmt.Errorf("mode error: %w", err)
	}
	if len(src) == 0 {
		return -1, errors.New("nothing to do")
	}
	n := copy(dst, src)
	pad := pats[len(src)%lib.Block+1]
	copy(dst[len(src):], pad)
	m.Crypt(dst, dst)
	return n + len(pad), nil
}

// a written argument of the form v[:n] with a source that is another value
func EncodePrefix(dst, src, key []byte, n int) error {
	m, err := lib.NewMode(key)
	if err != nil {
		return fmt.Errorf("mode error: %w", err)
	}
	m.Crypt(dst[:n], src)
	return nil
}

// append into dst[:0] (in place iff it fits), the returned slice is used
func Sum(dst, src []byte) (int, error) {
	out := lib.AppendSum(dst[:0], src)
	return int(out[len(out)-1]), nil
}

// foreign calls without handles, a []byte{..} literal with two elements, a result that is (nil, err)
func Check(a []byte, n int) ([]byte, error) {
	if !lib.Equal(a, lib.Repeat([]byte{1, byte(n)}, n)) {
		return nil, errors.New("differs")
	}
	return a, nil
}

// a helper that takes a handle (needs ext' because of its signature) and a local buffer written by the callee
func crypt1(m lib.Mode, b byte) byte {
	buf := make([]byte, 2)
	m.Crypt(buf, []byte{b})
	return buf[0] + buf[1]
}
func Crypt1(key []byte, b byte) (byte, error) {
	m, err := lib.NewMode(key)
	if err != nil {
		return 0, fmt.Errorf("mode error: %w", err)
	}
	return crypt1(m, b), nil
}

// a byte-like type parameter
func LenOf[T lib.Bytes](x T) int { return len(x) + 1 }
