// Package samplecons stands for a package of the same module that a translated package imports (golib's typez): the
// translator type-checks it for real when it is listed in TransSpec.T15.Imports.
package samplecons

type StrOrBytes interface {
	~string | ~[]byte
}

const WordBits = 32 << (^uint(0) >> 63)
