package main

// Area Goz (C19): constants and the statement shape of goz.Limiter / goz.Recover.
//
//   limiter_min, limiter_default   from   if limit < MIN { limit = DEFAULT }          (NewLimiter)
//   limiter_cap_is_limit           the channel is made with capacity `limit` exactly    (NewLimiter)
//   go_shape                       Limiter.Go flattened through the Limiter methods it calls:
//                                  1 = l.c <- struct{}{}   2 = l.w.Add(1)   3 = go Recover(fn, l.panicHandler, l.done)
//   done_shape                     Limiter.done:  4 = l.w.Done()   5 = <-l.c
//   wait_shape                     the statement that ends Limiter.Wait: 6 = l.w.Wait()
//   recover_body_shape             Recover: 20 = defer func(){...}()   21 = fn()
//   recover_defer_shape            top-level statements of that deferred function:
//                                  10 = if p := recover(); p != nil {...} (no return inside)   19 = the same with a return inside
//                                  11 = if len(cleanups) == 0 { return }   12 = var decl   13 = defer func(){...}()
//                                  14 = for .. range cleanups { .. cleanup() }
// Anything else in these bodies makes the area fail closed.

import (
	"fmt"
	"go/ast"
	"go/token"
	"math/big"
)

func init() { Register(Area{Name: "ConstsGoz", Gen: genGoz}) }

func isSel(e ast.Expr, path ...string) bool { // l.c  -> isSel(e,"l","c") ; l.w.Add -> isSel(e,"l","w","Add")
	for i := len(path) - 1; i >= 1; i-- {
		s, ok := e.(*ast.SelectorExpr)
		if !ok || s.Sel.Name != path[i] {
			return false
		}
		e = s.X
	}
	id, ok := e.(*ast.Ident)
	return ok && id.Name == path[0]
}

func recvName(fd *ast.FuncDecl) string {
	if fd.Recv != nil && len(fd.Recv.List) == 1 && len(fd.Recv.List[0].Names) == 1 {
		return fd.Recv.List[0].Names[0].Name
	}
	return ""
}

func gozFlatten(p *Pkg, fd *ast.FuncDecl, depth int) ([]int64, error) {
	if depth > 4 {
		return nil, fmt.Errorf("call chain too deep in %s", fd.Name.Name)
	}
	l := recvName(fd)
	var out []int64
	for _, st := range fd.Body.List {
		switch s := st.(type) {
		case *ast.SendStmt:
			if !isSel(s.Chan, l, "c") {
				return nil, fmt.Errorf("%s: send on something other than %s.c", fd.Name.Name, l)
			}
			out = append(out, 1)
		case *ast.GoStmt:
			c := s.Call
			id, ok := c.Fun.(*ast.Ident)
			if !ok || id.Name != "Recover" || len(c.Args) != 3 {
				return nil, fmt.Errorf("%s: go statement is not go Recover(fn, handler, done)", fd.Name.Name)
			}
			if a0, ok := c.Args[0].(*ast.Ident); !ok || a0.Name != fd.Type.Params.List[0].Names[0].Name {
				return nil, fmt.Errorf("%s: Recover's first argument is not the submitted function", fd.Name.Name)
			}
			if !isSel(c.Args[1], l, "panicHandler") || !isSel(c.Args[2], l, "done") {
				return nil, fmt.Errorf("%s: Recover is not given %s.panicHandler and %s.done", fd.Name.Name, l, l)
			}
			out = append(out, 3)
		case *ast.ReturnStmt:
			// return l
		case *ast.ExprStmt:
			switch x := s.X.(type) {
			case *ast.UnaryExpr:
				if x.Op != token.ARROW || !isSel(x.X, l, "c") {
					return nil, fmt.Errorf("%s: unexpected unary statement", fd.Name.Name)
				}
				out = append(out, 5)
			case *ast.CallExpr:
				switch {
				case isSel(x.Fun, l, "w", "Add"):
					if len(x.Args) != 1 {
						return nil, fmt.Errorf("%s: w.Add arity", fd.Name.Name)
					}
					v, err := Eval(x.Args[0], p.Env, 0)
					if err != nil || v.Cmp(big.NewInt(1)) != 0 {
						return nil, fmt.Errorf("%s: w.Add argument is not 1", fd.Name.Name)
					}
					out = append(out, 2)
				case isSel(x.Fun, l, "w", "Done") && len(x.Args) == 0:
					out = append(out, 4)
				case isSel(x.Fun, l, "w", "Wait") && len(x.Args) == 0:
					out = append(out, 6)
				default:
					se, ok := x.Fun.(*ast.SelectorExpr)
					if ok {
						if id, ok := se.X.(*ast.Ident); ok && id.Name == l && len(x.Args) == 0 {
							callee := p.Func("Limiter." + se.Sel.Name)
							if callee != nil {
								if recvName(callee) != l {
									return nil, fmt.Errorf("receiver names differ between %s and %s", fd.Name.Name, callee.Name.Name)
								}
								sub, err := gozFlatten(p, callee, depth+1)
								if err != nil {
									return nil, err
								}
								out = append(out, sub...)
								continue
							}
						}
					}
					return nil, fmt.Errorf("%s: call not understood", fd.Name.Name)
				}
			default:
				return nil, fmt.Errorf("%s: statement not understood", fd.Name.Name)
			}
		default:
			return nil, fmt.Errorf("%s: statement kind %T not understood", fd.Name.Name, st)
		}
	}
	return out, nil
}

func containsReturn(n ast.Node) bool {
	found := false
	ast.Inspect(n, func(x ast.Node) bool {
		if _, ok := x.(*ast.FuncLit); ok {
			return false
		}
		if _, ok := x.(*ast.ReturnStmt); ok {
			found = true
		}
		return true
	})
	return found
}

func genGoz(repo string) (string, error) {
	p, err := Load(repo, "goz")
	if err != nil {
		return "", err
	}
	// ---- NewLimiter
	nl := p.Func("NewLimiter")
	if nl == nil || len(nl.Type.Params.List) != 1 || len(nl.Type.Params.List[0].Names) != 1 {
		return "", fmt.Errorf("NewLimiter(limit int) not found")
	}
	lim := nl.Type.Params.List[0].Names[0].Name
	var minV, defV *big.Int
	capOK := false
	nstmts := 0
	for _, st := range nl.Body.List {
		nstmts++
		switch s := st.(type) {
		case *ast.IfStmt:
			be, ok := s.Cond.(*ast.BinaryExpr)
			if !ok || be.Op != token.LSS || s.Init != nil || s.Else != nil || len(s.Body.List) != 1 {
				return "", fmt.Errorf("NewLimiter: guard is not `if limit < K { limit = D }`")
			}
			if id, ok := be.X.(*ast.Ident); !ok || id.Name != lim {
				return "", fmt.Errorf("NewLimiter: guard does not test the parameter")
			}
			if minV, err = Eval(be.Y, p.Env, 0); err != nil {
				return "", err
			}
			as, ok := s.Body.List[0].(*ast.AssignStmt)
			if !ok || as.Tok != token.ASSIGN || len(as.Lhs) != 1 || len(as.Rhs) != 1 {
				return "", fmt.Errorf("NewLimiter: guard body is not an assignment")
			}
			if id, ok := as.Lhs[0].(*ast.Ident); !ok || id.Name != lim {
				return "", fmt.Errorf("NewLimiter: guard does not assign the parameter")
			}
			if defV, err = Eval(as.Rhs[0], p.Env, 0); err != nil {
				return "", err
			}
		case *ast.ReturnStmt:
			// return &Limiter{ c: make(chan struct{}, limit) }
			ast.Inspect(s, func(n ast.Node) bool {
				if c, ok := n.(*ast.CallExpr); ok {
					if id, ok := c.Fun.(*ast.Ident); ok && id.Name == "make" && len(c.Args) == 2 {
						if _, ok := c.Args[0].(*ast.ChanType); ok {
							if a, ok := c.Args[1].(*ast.Ident); ok && a.Name == lim {
								capOK = true
							}
						}
					}
				}
				return true
			})
		default:
			return "", fmt.Errorf("NewLimiter: statement kind %T not understood", st)
		}
	}
	if minV == nil || defV == nil || nstmts != 2 {
		return "", fmt.Errorf("NewLimiter: expected exactly the guard and the return")
	}
	if !capOK {
		return "", fmt.Errorf("NewLimiter: the token channel is not made with capacity `%s`", lim)
	}
	// ---- Go / done / Wait
	goFd, doneFd, waitFd := p.Func("Limiter.Go"), p.Func("Limiter.done"), p.Func("Limiter.Wait")
	if goFd == nil || doneFd == nil || waitFd == nil {
		return "", fmt.Errorf("Limiter.Go / done / Wait not found")
	}
	goShape, err := gozFlatten(p, goFd, 0)
	if err != nil {
		return "", err
	}
	doneShape, err := gozFlatten(p, doneFd, 0)
	if err != nil {
		return "", err
	}
	// Wait: if len(waitTime) > 0 {... return}; l.w.Wait()
	var waitShape []int64
	if n := len(waitFd.Body.List); n >= 1 {
		if es, ok := waitFd.Body.List[n-1].(*ast.ExprStmt); ok {
			if c, ok := es.X.(*ast.CallExpr); ok && isSel(c.Fun, recvName(waitFd), "w", "Wait") {
				waitShape = []int64{6}
			}
		}
		for _, st := range waitFd.Body.List[:n-1] {
			is, ok := st.(*ast.IfStmt)
			if !ok || !containsReturn(is.Body) {
				return "", fmt.Errorf("Limiter.Wait: statement before the final w.Wait() is not the timeout branch")
			}
			be, ok := is.Cond.(*ast.BinaryExpr)
			if !ok || be.Op != token.GTR {
				return "", fmt.Errorf("Limiter.Wait: timeout branch condition not understood")
			}
		}
	}
	if waitShape == nil {
		return "", fmt.Errorf("Limiter.Wait does not end with w.Wait()")
	}
	// ---- Recover
	rc := p.Func("Recover")
	if rc == nil || len(rc.Type.Params.List) != 3 {
		return "", fmt.Errorf("Recover(fn, panicFn, cleanups...) not found")
	}
	fnName := rc.Type.Params.List[0].Names[0].Name
	clName := rc.Type.Params.List[2].Names[0].Name
	var bodyShape, deferShape []int64
	for _, st := range rc.Body.List {
		switch s := st.(type) {
		case *ast.DeferStmt:
			fl, ok := s.Call.Fun.(*ast.FuncLit)
			if !ok {
				return "", fmt.Errorf("Recover: defer of something other than a function literal")
			}
			bodyShape = append(bodyShape, 20)
			for _, ds := range fl.Body.List {
				switch d := ds.(type) {
				case *ast.IfStmt:
					if as, ok := d.Init.(*ast.AssignStmt); ok && len(as.Rhs) == 1 {
						if c, ok := as.Rhs[0].(*ast.CallExpr); ok {
							if id, ok := c.Fun.(*ast.Ident); ok && id.Name == "recover" {
								if containsReturn(d.Body) || d.Else != nil {
									deferShape = append(deferShape, 19)
								} else {
									deferShape = append(deferShape, 10)
								}
								continue
							}
						}
					}
					if be, ok := d.Cond.(*ast.BinaryExpr); ok && d.Init == nil && be.Op == token.EQL && len(d.Body.List) == 1 {
						if c, ok := be.X.(*ast.CallExpr); ok && len(c.Args) == 1 {
							if id, ok := c.Fun.(*ast.Ident); ok && id.Name == "len" {
								if a, ok := c.Args[0].(*ast.Ident); ok && a.Name == clName {
									if v, err := Eval(be.Y, p.Env, 0); err == nil && v.Sign() == 0 {
										if _, ok := d.Body.List[0].(*ast.ReturnStmt); ok {
											deferShape = append(deferShape, 11)
											continue
										}
									}
								}
							}
						}
					}
					return "", fmt.Errorf("Recover: if statement in the deferred function not understood")
				case *ast.DeclStmt:
					deferShape = append(deferShape, 12)
				case *ast.DeferStmt:
					if _, ok := d.Call.Fun.(*ast.FuncLit); !ok {
						return "", fmt.Errorf("Recover: inner defer not a function literal")
					}
					deferShape = append(deferShape, 13)
				case *ast.RangeStmt:
					if id, ok := d.X.(*ast.Ident); !ok || id.Name != clName {
						return "", fmt.Errorf("Recover: range over something other than the cleanups")
					}
					v, ok := d.Value.(*ast.Ident)
					if !ok {
						return "", fmt.Errorf("Recover: cleanup loop has no value variable")
					}
					called := false
					for _, bs := range d.Body.List {
						switch b := bs.(type) {
						case *ast.AssignStmt:
						case *ast.ExprStmt:
							if c, ok := b.X.(*ast.CallExpr); ok {
								if id, ok := c.Fun.(*ast.Ident); ok && id.Name == v.Name && len(c.Args) == 0 {
									called = true
									continue
								}
							}
							return "", fmt.Errorf("Recover: cleanup loop body not understood")
						default:
							return "", fmt.Errorf("Recover: cleanup loop body statement %T not understood", bs)
						}
					}
					if !called {
						return "", fmt.Errorf("Recover: cleanup loop does not call the cleanup")
					}
					deferShape = append(deferShape, 14)
				default:
					return "", fmt.Errorf("Recover: statement %T in the deferred function not understood", ds)
				}
			}
		case *ast.ExprStmt:
			c, ok := s.X.(*ast.CallExpr)
			if !ok {
				return "", fmt.Errorf("Recover: statement not understood")
			}
			if id, ok := c.Fun.(*ast.Ident); !ok || id.Name != fnName || len(c.Args) != 0 {
				return "", fmt.Errorf("Recover: call other than fn()")
			}
			bodyShape = append(bodyShape, 21)
		default:
			return "", fmt.Errorf("Recover: statement kind %T not understood", st)
		}
	}
	s := "Local Open Scope Z_scope.\n"
	s += CoqZ("limiter_min", minV) + CoqZ("limiter_default", defV)
	s += "Definition limiter_cap_is_limit : bool := true.\n"
	s += CoqZList("go_shape", goShape) + CoqZList("done_shape", doneShape) + CoqZList("wait_shape", waitShape)
	s += CoqZList("recover_body_shape", bodyShape) + CoqZList("recover_defer_shape", deferShape)
	return s, nil
}
