// Self-test of the [ext:T20] extension (gen/trans_ext20.go): the functions of internal/sample/ext20.go are run natively
// and their translations are evaluated by coqc (vm_compute) on the same arguments, package-level state included.
package main

import (
	"fmt"
	"os"
	"os/exec"
	"path/filepath"
	"strings"
	"testing"

	"verifgen/internal/sample"
)

func bl(s []byte) string {
	p := make([]string, len(s))
	for i, v := range s {
		p[i] = fmt.Sprint(v)
	}
	return "[" + strings.Join(p, "; ") + "]"
}
func z64(v int64) string {
	if v < 0 {
		return fmt.Sprintf("(%d)", v)
	}
	return fmt.Sprint(v)
}

func TestExt20AgainstNativeGo(t *testing.T) {
	if _, err := exec.LookPath("coqc"); err != nil {
		t.Skip("coqc not found")
	}
	body, err := Translate(".", TransSpec{Dir: "internal/sample",
		Funcs: []string{"TableSetup", "TableSum", "Both", "HexDigit", "Hex", "AsciiRange", "StrOps", "HighByte", "Bytes", "I64", "I32", "I8", "Conv",
			"Num.Half", "Num.Check", "UseCheck", "Opaque.Twice"},
		Globals: []string{"table", "counter"}, WrapSigned: true, Frags: []FragSpec{{Func: "WithFrag", Nth: 1}}})
	if err != nil {
		t.Fatal(err)
	}
	var ex []string
	add := func(call string, f func() string) {
		ex = append(ex, fmt.Sprintf("Example ex%d : %s = %s.\nProof. vm_compute. reflexivity. Qed.", len(ex), call, native(f)))
	}
	state := func() string { tb, c := sample.State(); return bl(tb) + ", (" + zs(c) }
	ints := []int{-3, -1, 0, 1, 2, 7, 16, 17, 40, 255, 4096, 1000000}
	for _, k := range ints {
		for _, n := range ints {
			k, n := k, n
			// state after TableSetup(3), then Both: the written state and the result are compared
			add(fmt.Sprintf("(do '(t, (c, _)) <- g_TableSetup 99 g0_table g0_counter 3;; g_Both 99 t c %s %s)", zs(k), zs(n)), func() string {
				sample.ResetState()
				sample.TableSetup(3)
				v := sample.Both(k, n)
				return "(" + state() + ", " + zs(v) + "))"
			})
		}
		k := k
		add(fmt.Sprintf("g_TableSum 99 g0_table g0_counter %s", zs(k)), func() string { sample.ResetState(); return zs(sample.TableSum(k)) })
		add(fmt.Sprintf("g_HexDigit %s", zs(k)), func() string { return bl([]byte(sample.HexDigit(k))) })
		if k >= 0 {
			add(fmt.Sprintf("g_Hex 99 %s", zs(k)), func() string { return bl([]byte(sample.Hex(k))) })
		}
		add(fmt.Sprintf("g_AsciiRange 99 %s", zs(k)), func() string { return zs(sample.AsciiRange(k)) })
		add(fmt.Sprintf("g_Opaque_Twice %s", zs(k)), func() string { return zs((&sample.Opaque{}).Twice(k)) })
		if k < 100 {
			add(fmt.Sprintf("g_WithFrag_loop1 200 [7; 8] %s", zs(k)), func() string { return zs(sample.WithFrag([]int{7, 8}, k)) })
		}
	}
	for _, s := range []string{"", "a", "hello, world", "\xff\x00é"} {
		for _, i := range []int{-1, 0, 1, 3, 12, 13} {
			for _, j := range []int{0, 1, 5, 12, 13} {
				s, i, j := s, i, j
				add(fmt.Sprintf("g_StrOps %s %s %s", bl([]byte(s)), zs(i), zs(j)), func() string {
					a, b := sample.StrOps(s, i, j)
					return "(" + zs(a) + ", " + zs(b) + ")"
				})
			}
		}
		s := s
		add("g_Bytes "+bl([]byte(s)), func() string { return bl(sample.Bytes(s)) })
	}
	for _, b := range []int{0, 1, 65, 127, 128, 129, 191, 192, 233, 255} {
		b := b
		add(fmt.Sprintf("g_HighByte %d", b), func() string { return bl([]byte(sample.HighByte(uint8(b)))) })
	}
	i64s := []int64{0, 1, -1, 2, -2, 7, 1 << 31, -(1 << 31), 1<<62 + 12345, -(1 << 62), 1<<63 - 1, -(1 << 63), 6148914691236517205, -3074457345618258603}
	for _, a := range i64s {
		for _, b := range i64s {
			a, b := a, b
			add(fmt.Sprintf("g_I64 %s %s", z64(a), z64(b)), func() string { return z64(sample.I64(a, b)) })
		}
		a := a
		for _, n := range []uint{0, 1, 5, 31, 32, 33, 70} {
			n := n
			add(fmt.Sprintf("g_I32 %s %d", z64(int64(int32(a))), n), func() string { return z64(int64(sample.I32(int32(a), n))) })
		}
		add(fmt.Sprintf("g_Conv %d", uint64(a)), func() string {
			p, q, r, s := sample.Conv(uint64(a))
			return fmt.Sprintf("(%s, %s, %s, %d)", z64(p), z64(int64(q)), z64(int64(r)), s)
		})
		add(fmt.Sprintf("g_Num_Half %s", z64(a)), func() string { return z64(int64(sample.Num(a).Half())) })
		add(fmt.Sprintf("g_UseCheck %s", z64(a)), func() string { return zs(sample.UseCheck(a)) })
		add(fmt.Sprintf("g_Num_Check %s", z64(a)), func() string {
			v, err := sample.Num(a).Check()
			e := "0"
			if err == sample.ErrBad {
				e = "err_ErrBad"
			} else if err != nil {
				e = "?"
			}
			return "(" + z64(int64(v)) + ", " + e + ")"
		})
	}
	for _, a := range []int{-128, -127, -64, -3, -1, 0, 1, 2, 11, 100, 127} {
		for _, b := range []int{-128, -1, 0, 1, 3, 127} {
			a, b := a, b
			add(fmt.Sprintf("g_I8 %s %s", zs(a), zs(b)), func() string { return zs(int(sample.I8(int8(a), int8(b)))) })
		}
	}
	ex = append(ex, "Example err_nonzero : (err_ErrBad =? 0) = false.\nProof. vm_compute. reflexivity. Qed.")

	dir := t.TempDir()
	os.MkdirAll(filepath.Join(dir, "Lib"), 0755)
	os.MkdirAll(filepath.Join(dir, "Gen"), 0755)
	sem, err := os.ReadFile("../coq/Lib/GoSem.v")
	if err != nil {
		t.Fatal(err)
	}
	os.WriteFile(filepath.Join(dir, "Lib", "GoSem.v"), sem, 0644)
	text := "From Coq Require Import List ZArith Bool.\nImport ListNotations.\nFrom V Require Import Lib.GoSem.\nImport GoNotations.\nLocal Open Scope Z_scope.\n" +
		body + "\n" + strings.Join(ex, "\n") + "\n"
	os.WriteFile(filepath.Join(dir, "Gen", "SampleExt20.v"), []byte(text), 0644)
	if keep := os.Getenv("GO2V_KEEP20"); keep != "" {
		os.WriteFile(keep, []byte(text), 0644)
	}
	for _, f := range []string{"Lib/GoSem.v", "Gen/SampleExt20.v"} {
		cmd := exec.Command("timeout", "600", "coqc", "-Q", ".", "V", f)
		cmd.Dir = dir
		if out, err := cmd.CombinedOutput(); err != nil {
			t.Fatalf("coqc %s: %v\n%s", f, err, out)
		}
	}
	t.Logf("%d examples agree", len(ex))
}

// outside the extended subset: refused with a position (or, for package-level declarations, a reason)
func TestExt20FailsClosed(t *testing.T) {
	for _, fn := range []string{"RangeString", "StrCat", "RuneConv", "RuneString", "GlobalUnlisted", "MutableSentinel"} {
		_, err := Translate(".", TransSpec{Dir: "internal/refused", Structs: []string{"Box"}, Funcs: []string{fn}, WrapSigned: true})
		if err == nil || !strings.Contains(err.Error(), "unsupported") || !strings.Contains(err.Error(), "refused.go:") {
			t.Errorf("%s: expected `unsupported: ... at file:line`, got %v", fn, err)
		} else {
			t.Logf("%s: %v", fn, err)
		}
	}
	// without WrapSigned the sized signed types stay outside the subset
	if _, err := Translate(".", TransSpec{Dir: "internal/sample", Funcs: []string{"I32"}}); err == nil || !strings.Contains(err.Error(), "unsupported") {
		t.Errorf("I32 without WrapSigned: expected a refusal, got %v", err)
	}
	// a global with an initialiser, an ambiguous init key
	if _, err := Translate(".", TransSpec{Dir: "internal/refused", Funcs: []string{"GlobalUnlisted"}, Globals: []string{"ErrMutable"}}); err == nil {
		t.Errorf("global with an initialiser: expected a refusal")
	}
}
