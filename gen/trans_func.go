// go2v: function-typed parameters / fields and in-out slice parameters (added for the heapz area; TRANSLATOR.md
// "Function values" and "In-out slice parameters").
//
//   - `cmp func(T, T) bool` (scalars in, one scalar out)  ->  `cmp : Z -> Z -> bool`, a TOTAL PURE Gallina function: the
//     model assumes that the function value neither panics, loops nor writes anything the translated code can see.
//   - `swap func([]T, int, int)` (slices among the parameters)  ->  `swap : list Z -> Z -> Z -> M (list Z)`: a state
//     transformer that returns the new contents of EVERY slice parameter (then its results); it is assumed not to keep,
//     reslice or return the slices.  A function of the package used as such a value (`swap[T]`) is translated under the
//     very same rule, which is then checked, not assumed.
//   - TransSpec.InOut: a slice parameter that the function only indexes / measures / ranges over / passes on to
//     parameters of the same kind ("noesc") and whose elements it writes is returned to the caller, like the receiver.
package main

import (
	"fmt"
	"go/ast"
	"go/token"
	"go/types"
	"strings"
)

type funcSig struct {
	params  []gtype
	results []gtype
	pure    bool // no slice parameter, one result: a total Gallina function; otherwise M (slices..., results)
}

func scalar(g gtype) bool { return g.k == kInt || g.k == kUint || g.k == kBool || g.k == kElem }

func (fs *funcSig) coq() string {
	var parts []string
	var back []string
	for _, p := range fs.params {
		parts = append(parts, p.coq())
		if p.k == kSlice {
			back = append(back, p.coq())
		}
	}
	if fs.pure {
		parts = append(parts, fs.results[0].coq())
		return "(" + strings.Join(parts, " -> ") + ")"
	}
	if len(fs.results) > 0 {
		var rts []string
		for _, r := range fs.results {
			rts = append(rts, r.coq())
		}
		back = append(back, tupleType(rts))
	}
	rt := tupleType(back)
	if strings.Contains(rt, " ") && !strings.HasPrefix(rt, "(") {
		rt = "(" + rt + ")"
	}
	parts = append(parts, "M "+rt)
	return "(" + strings.Join(parts, " -> ") + ")"
}

// funcSigOf: the function types of the subset (nil: not one of them).
func (t *Translator) funcSigOf(x *types.Signature, n ast.Node) *funcSig {
	if x.Variadic() || x.Recv() != nil || x.TypeParams().Len() > 0 {
		return nil
	}
	fs := &funcSig{}
	slices := 0
	for i := 0; i < x.Params().Len(); i++ {
		g := t.typeOf(x.Params().At(i).Type(), n)
		if g.k == kSlice {
			slices++
		} else if !scalar(g) {
			return nil
		}
		fs.params = append(fs.params, g)
	}
	for i := 0; i < x.Results().Len(); i++ {
		g := t.typeOf(x.Results().At(i).Type(), n)
		if !scalar(g) {
			return nil
		}
		fs.results = append(fs.results, g)
	}
	if len(fs.params) == 0 {
		return nil
	}
	if slices == 0 {
		if len(fs.results) != 1 {
			return nil
		}
		fs.pure = true
	}
	return fs
}

func (si *structInfo) hasFunc() bool {
	for _, ft := range si.ftypes {
		if ft.k == kFunc {
			return true
		}
	}
	return false
}

// noZero: a zero value of this type would contain a nil function, which is not modelled.
func noZero(g gtype) bool { return g.k == kFunc || (g.k == kStruct && g.st.hasFunc()) }

// funcValueCall: x calls a function VALUE (a parameter, local variable or field of function type).
func (t *Translator) funcValueCall(x *ast.CallExpr) *types.Signature {
	tv, ok := t.info.Types[x.Fun]
	if !ok || tv.Type == nil || tv.IsType() || tv.IsBuiltin() {
		return nil
	}
	if fn, _ := t.calleeOf(x); fn != nil {
		return nil
	}
	switch f := ast.Unparen(x.Fun).(type) {
	case *ast.Ident:
		if _, isVar := t.info.Uses[f].(*types.Var); !isVar {
			return nil
		}
	case *ast.SelectorExpr:
		if sel := t.info.Selections[f]; sel == nil || sel.Kind() != types.FieldVal {
			return nil
		}
	default:
		return nil
	}
	sig, _ := tv.Type.Underlying().(*types.Signature)
	return sig
}

// funcValueRef: id names a function (not a method) declared in the translated package; the caller decides from the
// context whether it is called or used as a value.
func (t *Translator) funcValueRef(id *ast.Ident) *types.Func {
	fn, ok := t.info.Uses[id].(*types.Func)
	if !ok {
		return nil
	}
	fn = fn.Origin()
	if sig, ok := fn.Type().(*types.Signature); !ok || sig.Recv() != nil {
		return nil
	}
	for _, fd := range t.byName {
		if t.info.Defs[fd.Name] == types.Object(fn) {
			return fn
		}
	}
	return nil
}

func isSliceType(ty types.Type) bool {
	if ty == nil {
		return false
	}
	_, ok := ty.Underlying().(*types.Slice)
	return ok
}

// writtenArgs: the argument expressions of call x whose slice the callee writes in place (and hands back).
func (t *Translator) writtenArgs(x *ast.CallExpr) []ast.Expr {
	var out []ast.Expr
	if fn, _ := t.calleeOf(x); fn != nil {
		if fi := t.funcs[fn]; fi != nil {
			for i, a := range x.Args {
				if i < len(fi.inout) && fi.inout[i] {
					out = append(out, a)
				}
			}
		}
		return out
	}
	if t.funcValueCall(x) != nil {
		for _, a := range x.Args {
			if isSliceType(t.info.Types[a].Type) {
				out = append(out, a)
			}
		}
	}
	return out
}

// sliceParamUses classifies every use of the slice parameters of fi: esc[i] = parameter i is used in a way that may
// create an alias or change the variable itself; wr[i] = its elements are written (directly or by a callee).
func (t *Translator) sliceParamUses(fi *funcInfo) (esc, wr []bool) {
	sig := fi.obj.Type().(*types.Signature)
	n := sig.Params().Len()
	esc, wr = make([]bool, n), make([]bool, n)
	index := map[types.Object]int{}
	for i := 0; i < n; i++ {
		if isSliceType(sig.Params().At(i).Type()) {
			index[sig.Params().At(i)] = i
		}
	}
	var stack []ast.Node
	ast.Inspect(fi.decl.Body, func(m ast.Node) bool {
		if m == nil {
			stack = stack[:len(stack)-1]
			return true
		}
		stack = append(stack, m)
		id, ok := m.(*ast.Ident)
		if !ok {
			return true
		}
		i, ok := index[t.info.Uses[id]]
		if !ok {
			return true
		}
		up := func(k int) ast.Node {
			if len(stack)-1-k >= 0 {
				return stack[len(stack)-1-k]
			}
			return nil
		}
		switch p := up(1).(type) {
		case *ast.IndexExpr:
			if p.X != ast.Expr(id) {
				esc[i] = true
				return true
			}
			switch g := up(2).(type) {
			case *ast.AssignStmt:
				for _, l := range g.Lhs {
					if l == ast.Expr(p) {
						wr[i] = true
					}
				}
			case *ast.IncDecStmt:
				wr[i] = true
			case *ast.UnaryExpr: // &s[i]
				if g.Op == token.AND {
					esc[i] = true
				}
			}
		case *ast.RangeStmt:
			if p.X != ast.Expr(id) {
				esc[i] = true
			}
		case *ast.CallExpr:
			pos := -1
			for k, a := range p.Args {
				if a == ast.Expr(id) {
					pos = k
				}
			}
			if pos < 0 {
				esc[i] = true
				return true
			}
			if id2, isId := ast.Unparen(p.Fun).(*ast.Ident); isId {
				if b, isB := t.info.Uses[id2].(*types.Builtin); isB {
					switch b.Name() {
					case "len", "cap":
					case "copy":
						if pos == 0 {
							wr[i] = true
						}
					default:
						esc[i] = true
					}
					return true
				}
			}
			if fn, _ := t.calleeOf(p); fn != nil {
				c := t.funcs[fn]
				if c == nil || pos >= len(c.noesc) || !c.noesc[pos] {
					esc[i] = true
				} else if c.inout[pos] {
					wr[i] = true
				}
				return true
			}
			if t.funcValueCall(p) != nil {
				wr[i] = true // a function value may write the slices it receives (and returns their new contents)
				return true
			}
			esc[i] = true
		default:
			esc[i] = true
		}
		return true
	})
	return esc, wr
}

// analyseInOut computes noesc / inout for every function (all false unless TransSpec.InOut).
func (t *Translator) analyseInOut() {
	for _, fi := range t.funcs {
		sig := fi.obj.Type().(*types.Signature)
		fi.noesc, fi.inout = make([]bool, sig.Params().Len()), make([]bool, sig.Params().Len())
		for i := range fi.noesc {
			fi.noesc[i] = t.inOut && isSliceType(sig.Params().At(i).Type())
		}
	}
	if !t.inOut {
		return
	}
	for changed := true; changed; { // noesc only shrinks
		changed = false
		for _, fi := range t.funcs {
			esc, _ := t.sliceParamUses(fi)
			for i := range esc {
				if esc[i] && fi.noesc[i] {
					fi.noesc[i], changed = false, true
				}
			}
		}
	}
	for changed := true; changed; { // with noesc fixed, inout only grows
		changed = false
		for _, fi := range t.funcs {
			_, wr := t.sliceParamUses(fi)
			for i := range wr {
				if wr[i] && fi.noesc[i] && !fi.inout[i] {
					fi.inout[i], changed = true, true
				}
			}
		}
	}
}

// inoutParams: the Coq names of the in-out parameters of the function being translated, in order.
func (c *fctx) inoutParams(en *env) []string {
	var out []string
	sig := c.fi.obj.Type().(*types.Signature)
	for i, io := range c.fi.inout {
		if io {
			out = append(out, en.lookup(sig.Params().At(i)).name)
		}
	}
	return out
}

// handBack: the binder for a slice argument that comes back from a call, and the code that stores it where it came from.
// A plain variable is rebound by the pattern itself; a field through a temporary and its setter.
func (c *fctx) handBack(a ast.Expr, en *env, at ast.Node) (name string, store func(rest func() string) string) {
	key := c.sliceKey(a, en)
	c.checkWritable(key, en, at)
	if id, ok := ast.Unparen(a).(*ast.Ident); ok {
		if v := en.lookup(c.t.info.Uses[id]); v != nil {
			return v.name, func(rest func() string) string { return rest() }
		}
	}
	tmp := c.fresh("a")
	return tmp, func(rest func() string) string { return c.store(a, tmp, en, rest) }
}

// distinctSlices: when a call writes slice arguments in place, no two slice arguments may share an array.
func (c *fctx) distinctSlices(x *ast.CallExpr, en *env) {
	seen := map[string]bool{}
	for _, a := range x.Args {
		if !isSliceType(c.t.info.Types[a].Type) {
			continue
		}
		src, ok := c.aliasSource(a, en)
		if !ok {
			continue
		}
		if src == "?call" || seen[src] {
			c.t.fail(x, "call that writes a slice argument in place while two of its slice arguments may share an array")
		}
		seen[src] = true
	}
}

// bindCall emits `do pattern <- app;; stores;; k(results)` for a call that hands back `back` slices and nres results.
func (c *fctx) bindCall(app string, recvName string, back []ast.Expr, nres int, en *env, at *ast.CallExpr, k func([]string) string) string {
	var pre []string
	if recvName != "" {
		pre = append(pre, recvName)
	}
	var stores []func(func() string) string
	if len(back) > 0 {
		c.distinctSlices(at, en)
	}
	for _, a := range back {
		n, st := c.handBack(a, en, at)
		pre = append(pre, n)
		stores = append(stores, st)
	}
	var rs []string
	for i := 0; i < nres; i++ {
		rs = append(rs, c.fresh("v"))
	}
	all := pre
	if nres > 0 {
		all = append(append([]string{}, pre...), tuple(rs))
	}
	pat := tuple(all)
	if len(all) == 0 {
		pat = "_"
	}
	if strings.HasPrefix(pat, "(") {
		pat = "'" + pat
	}
	var rec func(i int) string
	rec = func(i int) string {
		if i == len(stores) {
			return k(rs)
		}
		return stores[i](func() string { return rec(i + 1) })
	}
	return fmt.Sprintf("do %s <- %s;;\n%s", pat, app, rec(0))
}

// callFuncValue: f(args) for a function value f.
func (c *fctx) callFuncValue(x *ast.CallExpr, en *env, k func([]string) string) string {
	g := c.t.exprType(x.Fun)
	if g.k != kFunc {
		c.t.fail(x, "call of a value that is not a function of the subset")
	}
	return c.expr(x.Fun, en, func(f string) string {
		return c.args(x.Args, en, func(vs []string) string {
			app := f
			for _, v := range vs {
				app += " " + v
			}
			if g.fn.pure {
				return k([]string{"(" + app + ")"})
			}
			return c.bindCall(app, "", c.t.writtenArgs(x), len(g.fn.results), en, x, k)
		})
	})
}

// funcValueTerm: a function of the package used as a value.  Its generated definition already has the shape of the
// function type when it hands back every slice parameter; otherwise an adapter is emitted.
func (c *fctx) funcValueTerm(fn *types.Func, at ast.Node) string {
	fi := c.t.funcFor(fn, at)
	if fi.recv != nil {
		c.t.fail(at, "method value")
	}
	sig := fi.obj.Type().(*types.Signature)
	head := fi.name
	if fi.loops {
		head += " fuel"
	}
	nsl, direct := 0, true
	for i := 0; i < sig.Params().Len(); i++ {
		if isSliceType(sig.Params().At(i).Type()) {
			nsl++
			if !fi.inout[i] {
				direct = false
			}
		}
	}
	if nsl == 0 {
		c.t.fail(at, "function %s used as a value: a function value without slice parameters is modelled as a total pure function, a function of the package is not known to be one", fi.goName)
	}
	if direct {
		if fi.loops {
			return "(" + head + ")"
		}
		return head
	}
	// adapter: hand back the slices the function does not write unchanged
	var ps, pre, all []string
	for i := 0; i < sig.Params().Len(); i++ {
		p := c.fresh("p")
		ps = append(ps, p)
		if fi.inout[i] {
			q := c.fresh("a")
			pre = append(pre, q)
			all = append(all, q)
		} else if isSliceType(sig.Params().At(i).Type()) {
			all = append(all, p)
		}
	}
	var rs []string
	for range fi.results {
		rs = append(rs, c.fresh("v"))
	}
	got := pre
	if len(rs) > 0 {
		got = append(append([]string{}, pre...), tuple(rs))
		all = append(all, tuple(rs))
	}
	pat := tuple(got)
	if len(got) == 0 {
		pat = "_"
	}
	if strings.HasPrefix(pat, "(") {
		pat = "'" + pat
	}
	return fmt.Sprintf("(fun %s => do %s <- %s %s;; Ret %s)", strings.Join(ps, " "), pat, head, strings.Join(ps, " "), tuple(all))
}

// inoutTypes: the Gallina types of the in-out parameters of fi, in order.
func (t *Translator) inoutTypes(fi *funcInfo) []string {
	var out []string
	if fi.obj == nil {
		return out
	}
	sig := fi.obj.Type().(*types.Signature)
	for i, io := range fi.inout {
		if io {
			if len(fi.gwrites) > 0 {
				t.fail(fi.decl, "in-out slice parameter of %s together with written package-level state", fi.goName)
			}
			out = append(out, t.typeOf(sig.Params().At(i).Type(), fi.decl).coq())
		}
	}
	return out
}
