// Area RingCode (C10): the Go -> Gallina translation (gen/trans.go) of ringz/ring.go — type Ring, New and every method —
// and of roundupPowOfTwo (ringz/sync.go).  coq/Proofs/RingCode.v proves each generated function equal to the hand-written
// model function of Model/RingSeq.v / Model/SyncRingSeq.v on every run.  Fails closed on anything outside the subset.
package main

func init() { Register(Area{Name: "RingCode", Gen: genRingCode}) }

func genRingCode(repo string) (string, error) {
	body, err := Translate(repo, TransSpec{
		Dir:     "ringz",
		Structs: []string{"Ring"},
		Expect:  map[string][]ExpectField{"Ring": {{"values", "[]T"}, {"head", "int"}, {"tail", "int"}, {"cap", "int"}}},
		Funcs: []string{"New", "Ring.Init", "Ring.IsEmpty", "Ring.IsFull", "Ring.Push", "Ring.Pop", "Ring.Peek",
			"Ring.PushWithExpand", "Ring.Len", "Ring.Cap", "Ring.Recap", "roundupPowOfTwo"},
	})
	if err != nil {
		return "", err
	}
	return "From Coq Require Import Bool.\nFrom V Require Import Lib.GoSem.\nImport GoNotations.\nLocal Open Scope Z_scope.\n" + body, nil
}
