// Area StrsCode (C17): the Go -> Gallina translation of the rune helpers of strz/strs.go.
package main

import (
	"fmt"
	"regexp"
	"strings"
)

func init() { Register(Area{Name: "StrsCode", Gen: genStrsCode}) }

func genStrsCode(repo string) (string, error) {
	body, err := Translate(repo, TransSpec{
		Dir:        "strz",
		Funcs:      []string{"Len", "UcFirst", "LcFirst", "Sub", "Mask", "SubByDisplay", "Rev"},
		Std:        []string{"unicode/utf8.RuneCountInString", "unicode/utf8.DecodeRuneInString"},
		WrapSigned: true,
		Str17:      true,
	})
	if err != nil {
		return "", err
	}
	if err := strsShape(body); err != nil {
		return "", err
	}
	return "From Coq Require Import Bool.\nFrom V Require Import Lib.GoSem Lib.GoSemStd Lib.GoSemStr.\nImport GoNotations.\nLocal Open Scope Z_scope.\n" + body, nil
}

// strsShape: the shape coq/Proofs/StrsCode.v covers — the seven listed functions and nothing else (a helper extracted in
// the source is another decomposition), one loop in each of Sub / Mask / SubByDisplay / Rev, over the number of variables
// the loop lemmas are stated for (Sub: begin, count, i; Mask: startIndex, endIndex, count, i; SubByDisplay: the hidden
// byte offset and dpl; Rev: runes, i, j — names are free).  Source that translates but has another shape (a one-index
// reversal loop, a counter kept in a helper) is another algorithm for the proof scripts: the area then DEGRADES to
// gen/defaults/StrsCode.v with a NOTE (DESIGN §0.9) and the differential run alone decides, instead of failing a proof that
// was never written for it.
var strsLoopVars = map[string]int{"g_Sub": 3, "g_Mask": 4, "g_SubByDisplay": 2, "g_Rev": 3, "g_Len": 0, "g_UcFirst": 0, "g_LcFirst": 0}

func strsShape(body string) error {
	defRe := regexp.MustCompile(`(?m)^Definition (g_\w+) `)
	locs := defRe.FindAllStringSubmatchIndex(body, -1)
	if len(locs) != len(strsLoopVars) {
		return fmt.Errorf("shape: %d generated functions, the proofs cover %d (a helper was extracted or a function removed)", len(locs), len(strsLoopVars))
	}
	for i, l := range locs {
		name := body[l[2]:l[3]]
		want, ok := strsLoopVars[name]
		if !ok {
			return fmt.Errorf("shape: unexpected function %s", name)
		}
		end := len(body)
		if i+1 < len(locs) {
			end = locs[i+1][0]
		}
		text := body[l[0]:end]
		nloops := strings.Count(text, "while fuel")
		if (want == 0) != (nloops == 0) || nloops > 1 {
			return fmt.Errorf("shape: %s has %d loops", name, nloops)
		}
		if want > 0 {
			m := regexp.MustCompile(`while fuel\s*\(fun '?\(?([^)=]*?)\)? =>`).FindStringSubmatch(text)
			if m == nil || len(strings.Split(m[1], ",")) != want {
				return fmt.Errorf("shape: the loop of %s is not over %d variables", name, want)
			}
		}
	}
	return nil
}
