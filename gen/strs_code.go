// Area StrsCode (C17): the Go -> Gallina translation of the rune helpers of strz/strs.go.
package main

func init() { Register(Area{Name: "StrsCode", Gen: genStrsCode}) }

func genStrsCode(repo string) (string, error) {
	body, err := Translate(repo, TransSpec{
		Dir:        "strz",
		Funcs:      []string{"Len", "UcFirst", "LcFirst", "Sub", "Mask", "SubByDisplay", "Rev"},
		Std:        []string{"unicode/utf8.RuneCountInString", "unicode/utf8.DecodeRuneInString"},
		WrapSigned: true,
		Str17:      true,
	})
	if err != nil {
		return "", err
	}
	return "From Coq Require Import Bool.\nFrom V Require Import Lib.GoSem Lib.GoSemStd Lib.GoSemStr.\nImport GoNotations.\nLocal Open Scope Z_scope.\n" + body, nil
}
