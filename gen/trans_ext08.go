// go2v extension [ext:T08] (added for the area AesCode, C08; usable by any area).  Everything here is reached through
// one-line hooks in trans.go / trans_expr.go / trans_stmt.go / trans_seq.go that are marked `[ext:T08]`; an area that sets
// none of the new TransSpec fields translates exactly as before.
//
//	TransSpec.Stubs      import path -> Go source holding the DECLARATIONS (types, signatures, constants) of a foreign package
//	                     as far as the translated code uses them (crypto/aes: `const BlockSize = 16; func NewCipher(key []byte)
//	                     (cipher.Block, error)`).  Packages of the translated module itself (typez) are type-checked from
//	                     their source in the tree (TransSpec.ModuleImports).
//	TransSpec.Foreign    functions ("aes.NewCipher") and methods ("cipher.BlockMode.CryptBlocks") of such packages that
//	                     translated code may call.  They are NOT given a meaning by the translator: the generated file
//	                     declares `Record Foreign := mkForeign { <opaque types> : Type; <one field per function> }`, every
//	                     generated function that (transitively) calls one takes `ext' : Foreign` as a parameter (after fuel)
//	                     and a call becomes `do r <- aes_NewCipher ext' key;;`.  Theorems instantiate the record.
//	                     A value of a named foreign type that occurs in those signatures (cipher.Block) is an opaque handle
//	                     of type `cipher_Block ext'`; a handle may be the receiver of at most one method call per function
//	                     and never inside a loop (a method is translated as a function of the handle's VALUE: a second call
//	                     on a stateful object would not see the first one).
//	                     ForeignSpec.Writes lists the slice arguments the callee writes in place.  Such an argument must be
//	                     `v`, `v[:]` or `v[:n]` with v a writable variable; the field receives v (the whole buffer: with
//	                     cap = len that is everything the callee can reach) and the length of the slice handed over
//	                     (`zlen v` or n, after the bounds check of the slice expression), and returns the new content of v
//	                     in front of its results: `do '(dst', r) <- cipher_AEAD_Seal ext' gcm dst 0 nonce plain ad;; let dst := dst' in`.
//	                     Foreign functions are assumed not to retain their slice arguments.
//	TransSpec.OutParams  function -> indices of slice parameters that are OUTPUT buffers: in-place writes to them are allowed
//	                     (the sharing check otherwise refuses writes to slice parameters) and their final content is returned
//	                     in front of the results, like a written receiver: `M (list Z * Z)` for `func(dst, src []byte) error`.
//	                     The parameters are separate values: overlap between dst and another argument is not in the
//	                     translation.  A function with output parameters cannot be called from translated code.
//	TransSpec.ErrCodes   `errors.New("text")` / `fmt.Errorf("text: %w", pure args)` -> the code the table gives for the
//	                     text (exact or by prefix); a text that is not in the table is refused.
//	[]byte{e1, e2}       a composite literal of integers without keys -> `[e1; e2]`.
//	[N][]byte, [][]byte  -> `list (list Z)` (elements read with m_getA, written with m_setA, zero value `repeat [] N`); an
//	                     element read shares with the table (no in-place write through it); append / copy / make / slicing /
//	                     value-range on the outer level are refused.
//	[T ~string | ~[]byte] a type parameter whose constraint admits only strings and byte slices -> bytes (`list Z`).
package main

import (
	"fmt"
	"go/ast"
	"go/constant"
	"go/parser"
	"go/token"
	"go/types"
	"os"
	"path/filepath"
	"strings"
)

// ForeignSpec: one function ("pkg.Func") or method ("pkg.Type.Method") of another package.
type ForeignSpec struct {
	Name   string
	Writes []int // indices of slice arguments the callee writes in place
}

// ErrCode: the code of an error text (errors.New literal or fmt.Errorf format).
type ErrCode struct {
	Text   string
	Prefix bool // the text only has to start with Text
	Code   int
}

type foreignInfo struct {
	spec   ForeignSpec
	field  string // Record field
	fn     *types.Func
	method bool
	recvT  gtype
	params []gtype
	res    []gtype
	writes map[int]bool
}

type ext08 struct {
	x08 *state08
}

type state08 struct {
	spec    TransSpec
	foreign []*foreignInfo
	byObj   map[*types.Func]*foreignInfo
	opaque  map[*types.TypeName]string // registered opaque types -> Record field
	opqList []string
}

// ---- import of stub / module packages (the type check happens before the Translator exists: package-level context)

type ctx08 struct {
	repo   string
	spec   TransSpec
	module string
	pkgs   map[string]*types.Package
	byName map[string]*types.Package
}

var cur08 *ctx08

// begin08 installs the import context of one translation; the result undoes it.
func begin08(repo string, spec TransSpec) func() {
	old := cur08
	cur08 = nil
	if len(spec.Stubs) > 0 || spec.ModuleImports {
		cur08 = &ctx08{repo: repo, spec: spec, pkgs: map[string]*types.Package{}, byName: map[string]*types.Package{}}
		if b, err := os.ReadFile(filepath.Join(repo, "go.mod")); err == nil {
			for _, line := range strings.Split(string(b), "\n") {
				if f := strings.Fields(line); len(f) == 2 && f[0] == "module" {
					cur08.module = f[1]
				}
			}
		}
	}
	return func() { cur08 = old }
}

func import08(path string) *types.Package {
	x := cur08
	if x == nil {
		return nil
	}
	if p, ok := x.pkgs[path]; ok {
		return p
	}
	var p *types.Package
	if src, ok := x.spec.Stubs[path]; ok {
		fset := token.NewFileSet()
		f, err := parser.ParseFile(fset, path+".go", src, 0)
		if err != nil {
			panic(unsupported{fmt.Sprintf("unsupported: stub of package %s does not parse: %v", path, err)})
		}
		x.pkgs[path] = nil // an import cycle among stubs resolves to "unknown"
		conf := types.Config{Importer: stubImporter{}, Error: func(error) {}, IgnoreFuncBodies: true}
		p, _ = conf.Check(path, fset, []*ast.File{f}, nil)
	} else if x.spec.ModuleImports && x.module != "" && strings.HasPrefix(path, x.module+"/") {
		fset, files, err := ParseDir(x.repo, strings.TrimPrefix(path, x.module+"/"))
		if err != nil || len(files) == 0 {
			return nil
		}
		x.pkgs[path] = nil
		conf := types.Config{Importer: stubImporter{}, Error: func(error) {}, IgnoreFuncBodies: true}
		p, _ = conf.Check(path, fset, files, nil)
	}
	if p == nil {
		delete(x.pkgs, path)
		return nil
	}
	x.pkgs[path] = p
	x.byName[p.Name()] = p
	return p
}

// ---- setup ------------------------------------------------------------------------------------------------------

func coqIdent08(s string) string { return strings.NewReplacer(".", "_", "/", "_").Replace(s) }

func (t *Translator) setup08(spec TransSpec) {
	st := &state08{spec: spec, byObj: map[*types.Func]*foreignInfo{}, opaque: map[*types.TypeName]string{}}
	t.x08 = st
	if len(spec.Foreign) == 0 {
		return
	}
	if cur08 == nil {
		t.fail(nil, "TransSpec.Foreign without TransSpec.Stubs")
	}
	for _, w := range []string{"Foreign", "mkForeign"} {
		t.global[w] = true
	}
	// pass 1: the objects; pass 2 (types) needs every opaque type registered first
	for _, fs := range spec.Foreign {
		parts := strings.Split(fs.Name, ".")
		if len(parts) != 2 && len(parts) != 3 {
			t.fail(nil, "foreign function name %q (want pkg.Func or pkg.Type.Method)", fs.Name)
		}
		pkg := cur08.byName[parts[0]]
		if pkg == nil {
			pkg = t.selfPkg09(parts[0]) // [ext:T09] a function of the translated package itself
		}
		if pkg == nil {
			t.fail(nil, "foreign function %s: package %s is not imported by the translated package (or has no stub)", fs.Name, parts[0])
		}
		fo := &foreignInfo{spec: fs, field: coqIdent08(fs.Name), writes: map[int]bool{}}
		if len(parts) == 2 {
			fo.fn, _ = pkg.Scope().Lookup(parts[1]).(*types.Func)
		} else {
			tn, _ := pkg.Scope().Lookup(parts[1]).(*types.TypeName)
			if tn != nil {
				obj, _, _ := types.LookupFieldOrMethod(tn.Type(), true, pkg, parts[2])
				fo.fn, _ = obj.(*types.Func)
				fo.method = true
			}
		}
		if fo.fn == nil {
			t.fail(nil, "foreign function %s not found in the stub of %s", fs.Name, parts[0])
		}
		for _, w := range fs.Writes {
			fo.writes[w] = true
		}
		st.foreign = append(st.foreign, fo)
		st.byObj[fo.fn] = fo
		t.global[fo.field] = true
	}
	reg := func(ty types.Type) {
		if p, ok := ty.(*types.Pointer); ok {
			ty = p.Elem()
		}
		nm, ok := ty.(*types.Named)
		if !ok || nm.Obj().Pkg() == nil || cur08.pkgs[nm.Obj().Pkg().Path()] != nm.Obj().Pkg() {
			return
		}
		if _, basic := nm.Underlying().(*types.Basic); basic {
			return
		}
		if _, seen := st.opaque[nm.Obj()]; !seen {
			name := coqIdent08(nm.Obj().Pkg().Name() + "." + nm.Obj().Name())
			st.opaque[nm.Obj()] = name
			st.opqList = append(st.opqList, name)
			t.global[name] = true
		}
	}
	for _, fo := range st.foreign {
		sig := fo.fn.Type().(*types.Signature)
		if fo.method {
			parts := strings.Split(fo.spec.Name, ".")
			tn := cur08.byName[parts[0]].Scope().Lookup(parts[1]).(*types.TypeName)
			reg(tn.Type())
		}
		for i := 0; i < sig.Params().Len(); i++ {
			reg(sig.Params().At(i).Type())
		}
		for i := 0; i < sig.Results().Len(); i++ {
			reg(sig.Results().At(i).Type())
		}
	}
	for _, fo := range st.foreign {
		sig := fo.fn.Type().(*types.Signature)
		if sig.Variadic() {
			t.fail(nil, "variadic foreign function %s", fo.spec.Name)
		}
		if fo.method {
			parts := strings.Split(fo.spec.Name, ".")
			tn := cur08.byName[parts[0]].Scope().Lookup(parts[1]).(*types.TypeName)
			fo.recvT = t.typeOf(tn.Type(), nil)
			if fo.recvT.k != kOpaque {
				t.fail(nil, "receiver type of the foreign method %s", fo.spec.Name)
			}
		}
		for i := 0; i < sig.Params().Len(); i++ {
			g := t.typeOf(sig.Params().At(i).Type(), nil)
			if g.k == kStruct || g.elem != nil || g.nest {
				t.fail(nil, "parameter %d of the foreign function %s", i, fo.spec.Name)
			}
			if fo.writes[i] && (g.k != kSlice || g.str || g.isArr) {
				t.fail(nil, "foreign function %s: written argument %d is not a slice", fo.spec.Name, i)
			}
			fo.params = append(fo.params, g)
		}
		for w := range fo.writes {
			if w < 0 || w >= sig.Params().Len() {
				t.fail(nil, "foreign function %s has no argument %d", fo.spec.Name, w)
			}
		}
		for i := 0; i < sig.Results().Len(); i++ {
			g := t.typeOf(sig.Results().At(i).Type(), nil)
			if g.k == kStruct || g.elem != nil || g.nest {
				t.fail(nil, "result %d of the foreign function %s", i, fo.spec.Name)
			}
			fo.res = append(fo.res, g)
		}
	}
}

// recType08: a type inside the Record declaration (earlier fields are referred to by their bare names).
func recType08(g gtype) string {
	if g.k == kOpaque {
		return g.opq
	}
	return g.coq()
}

// record08: the declaration of the foreign interface (empty when the area has none).
func (t *Translator) record08() string {
	st := t.x08
	if st == nil || len(st.foreign) == 0 {
		return ""
	}
	var b strings.Builder
	b.WriteString("\n(* [ext:T08] what this code uses of other packages, abstract: opaque types and one function per listed foreign\n" +
		"   function / method (a written slice argument is passed as the whole buffer and the length handed over; the new\n" +
		"   buffer content comes back in front of the results).  The theorems instantiate it. *)\nRecord Foreign : Type := mkForeign {\n")
	var names []string
	for _, o := range st.opqList {
		fmt.Fprintf(&b, "  %s : Type;\n", o)
		names = append(names, o)
	}
	names = append(names, t.recordVars09(&b)...) // [ext:T09] variables of foreign packages
	for i, fo := range st.foreign {
		var ts []string
		if fo.method {
			ts = append(ts, recType08(fo.recvT))
		}
		var outs []string
		for j, g := range fo.params {
			ts = append(ts, recType08(g))
			if fo.writes[j] {
				ts = append(ts, "Z")
				outs = append(outs, "list Z")
			}
		}
		var rts []string
		for _, g := range fo.res {
			rts = append(rts, recType08(g))
		}
		if len(rts) > 0 || len(outs) == 0 {
			outs = append(outs, tupleType(rts))
		}
		rt := nestPairType(outs)
		if strings.Contains(rt, " ") && !strings.HasPrefix(rt, "(") {
			rt = "(" + rt + ")"
		}
		sep := ";"
		if i == len(st.foreign)-1 {
			sep = ""
		}
		fmt.Fprintf(&b, "  %s : %s%sM %s%s   (* %s *)\n", fo.field, strings.Join(ts, " -> "), map[bool]string{true: " -> ", false: ""}[len(ts) > 0], rt, sep, fo.spec.Name)
		names = append(names, fo.field)
	}
	b.WriteString("}.\n#[export] Hint Unfold " + strings.Join(names, " ") + " : go2v.\n")
	if len(st.spec.ErrCodes) > 0 {
		b.WriteString("(* error values: nil = 0;")
		for _, e := range st.spec.ErrCodes {
			fmt.Fprintf(&b, " %d = %q%s;", e.Code, e.Text, map[bool]string{true: "...", false: ""}[e.Prefix])
		}
		b.WriteString(" *)\n")
	}
	return b.String()
}

// ---- types ------------------------------------------------------------------------------------------------------

func byteSliceLike08(ty types.Type, depth int) bool {
	if depth > 8 {
		return false
	}
	switch x := ty.(type) {
	case *types.Named:
		return byteSliceLike08(x.Underlying(), depth+1)
	case *types.Basic:
		return x.Info()&types.IsString != 0
	case *types.Slice:
		b, ok := x.Elem().Underlying().(*types.Basic)
		return ok && b.Kind() == types.Uint8
	case *types.Union:
		if x.Len() == 0 {
			return false
		}
		for i := 0; i < x.Len(); i++ {
			if !byteSliceLike08(x.Term(i).Type(), depth+1) {
				return false
			}
		}
		return true
	case *types.Interface:
		if x.NumMethods() != 0 || x.NumEmbeddeds() == 0 {
			return false
		}
		for i := 0; i < x.NumEmbeddeds(); i++ {
			if !byteSliceLike08(x.EmbeddedType(i), depth+1) {
				return false
			}
		}
		return true
	}
	return false
}

func intElem08(ty types.Type) bool {
	s, ok := ty.Underlying().(*types.Slice)
	if !ok {
		return false
	}
	b, ok := s.Elem().Underlying().(*types.Basic)
	if !ok {
		return false
	}
	switch b.Kind() {
	case types.Int, types.Int64, types.Uint8, types.Uint16, types.Uint32, types.Uint64, types.Uint, types.Uintptr:
		return true
	}
	return false
}

// type08: the types this extension adds (false: the core decides).
func (t *Translator) type08(ty types.Type, n ast.Node) (gtype, bool) {
	switch x := ty.(type) {
	case *types.TypeParam:
		if c := x.Constraint(); c != nil && byteSliceLike08(c.Underlying(), 0) {
			return gtype{k: kSlice, str: true}, true
		}
	case *types.Array:
		if intElem08(x.Elem()) && x.Len() >= 0 {
			return gtype{k: kSlice, isArr: true, arr: x.Len(), nest: true}, true
		}
	case *types.Slice:
		if _, isSlice := x.Elem().(*types.Slice); isSlice && intElem08(x.Elem()) {
			return gtype{k: kSlice, nest: true}, true
		}
	case *types.Pointer:
		if nm, ok := x.Elem().(*types.Named); ok && t.x08 != nil {
			if f, ok := t.x08.opaque[nm.Obj()]; ok {
				return gtype{k: kOpaque, opq: f}, true
			}
		}
	case *types.Named:
		if t.x08 != nil {
			if f, ok := t.x08.opaque[x.Obj()]; ok {
				return gtype{k: kOpaque, opq: f}, true
			}
		}
	}
	return gtype{}, false
}

func getFn08(g gtype) string {
	if g.nest {
		return "m_getA"
	}
	return "m_get"
}
func setFn08(g gtype) string {
	if g.nest {
		return "m_setA"
	}
	return "m_set"
}

// noZero08: `var h cipher.Block` has no zero value in the translation.
func (c *fctx) noZero08(g gtype, at ast.Node) {
	if g.k == kOpaque {
		c.t.fail(at, "variable of the foreign type %s declared without a value", g.opq)
	}
}

// refuseNested08: builtins on the outer level of a [][]byte.
func (c *fctx) refuseNested08(x *ast.CallExpr, b string) {
	if b != "append" && b != "copy" && b != "make" {
		return
	}
	es := append([]ast.Expr{x}, x.Args...)
	for _, e := range es {
		if tv, ok := c.t.info.Types[e]; ok && tv.Type != nil && !tv.IsType() {
			if g, ok := c.t.type08(tv.Type, e); ok && g.nest {
				c.t.fail(x, "%s on a slice of slices", b)
			}
		}
	}
	if b == "make" && len(x.Args) > 0 {
		if tv, ok := c.t.info.Types[x.Args[0]]; ok && tv.Type != nil {
			if g, ok := c.t.type08(tv.Type, x); ok && g.nest {
				c.t.fail(x, "make of a slice of slices")
			}
		}
	}
}

// complit08: []byte{e1, e2, ...}
func (c *fctx) complit08(x *ast.CompositeLit, en *env, k func(string) string) string {
	t := c.t
	tv := t.info.Types[x]
	if tv.Type == nil || !intElem08(tv.Type) {
		t.fail(x, "composite literal (only slices of integers)")
	}
	for _, e := range x.Elts {
		if _, ok := e.(*ast.KeyValueExpr); ok {
			t.fail(x, "composite literal with keys")
		}
	}
	return c.args(x.Elts, en, func(vs []string) string { return k("[" + strings.Join(vs, "; ") + "]") })
}

// ---- output parameters ----------------------------------------------------------------------------------------------

func (t *Translator) outs08(fi *funcInfo, key string, sig *types.Signature) {
	if t.x08 == nil {
		return
	}
	for _, i := range t.x08.spec.OutParams[key] {
		if i < 0 || i >= sig.Params().Len() {
			t.fail(fi.decl, "output parameter %d of %s", i, key)
		}
		if g := t.typeOf(sig.Params().At(i).Type(), fi.decl); g.k != kSlice || g.str || g.isArr || g.elem != nil || g.nest {
			t.fail(fi.decl, "output parameter %d of %s is not a slice of integers", i, key)
		}
		fi.outs = append(fi.outs, i)
	}
}

func (fi *funcInfo) isOut08(i int) bool {
	for _, o := range fi.outs {
		if o == i {
			return true
		}
	}
	return false
}

func (t *Translator) outTypes08(fi *funcInfo) []string {
	var ts []string
	for range fi.outs {
		ts = append(ts, "list Z")
	}
	return ts
}

func (c *fctx) outNames08(en *env) []string {
	var ns []string
	sig := c.fi.obj.Type().(*types.Signature)
	for _, i := range c.fi.outs {
		v := en.lookup(sig.Params().At(i))
		if v == nil {
			c.t.fail(c.fi.decl, "output parameter %d of %s is not in scope at a return", i, c.fi.goName)
		}
		ns = append(ns, v.name)
	}
	return ns
}

// ---- effect analysis ------------------------------------------------------------------------------------------------

func (t *Translator) foreignOf(x *ast.CallExpr) *foreignInfo {
	if t.x08 == nil || len(t.x08.foreign) == 0 {
		return nil
	}
	if fo := t.selfForeign09(x); fo != nil { // [ext:T09]
		return fo
	}
	sel, ok := ast.Unparen(x.Fun).(*ast.SelectorExpr)
	if !ok {
		return nil
	}
	fn, ok := t.info.Uses[sel.Sel].(*types.Func)
	if !ok {
		return nil
	}
	return t.x08.byObj[fn]
}

// foreign08: one round of "does fi (transitively) need the foreign interface"; true when it was added.
func (t *Translator) foreign08(fi *funcInfo) bool {
	if fi.foreign || t.x08 == nil || len(t.x08.foreign) == 0 {
		return false
	}
	need := false
	for c := range fi.callees {
		if c.foreign {
			need = true
		}
	}
	if !need && fi.decl.Body != nil {
		ast.Inspect(fi.decl.Body, func(n ast.Node) bool {
			switch x := n.(type) {
			case *ast.CallExpr:
				if t.foreignOf(x) != nil {
					need = true
				}
			case ast.Expr:
				if tv, ok := t.info.Types[x]; ok && tv.Type != nil && !tv.IsType() {
					if g, ok := t.type08(tv.Type, x); ok && g.k == kOpaque {
						need = true
					}
				}
			}
			return !need
		})
	}
	need = need || t.usesForeignVar09(fi) // [ext:T09]
	if !need && fi.frag == nil {
		sig := fi.obj.Type().(*types.Signature)
		for i := 0; i < sig.Params().Len(); i++ {
			if g, ok := t.type08(sig.Params().At(i).Type(), nil); ok && g.k == kOpaque {
				need = true
			}
		}
		for i := 0; i < sig.Results().Len(); i++ {
			if g, ok := t.type08(sig.Results().At(i).Type(), nil); ok && g.k == kOpaque {
				need = true
			}
		}
	}
	fi.foreign = need
	return need
}

func (t *Translator) extParam08(fi *funcInfo) []string {
	if fi.foreign {
		return []string{"(ext' : Foreign)"}
	}
	return nil
}

// callee08: the extra argument of a call of a function of the package; calls of functions with output parameters are refused.
func (c *fctx) callee08(fi *funcInfo, at ast.Node) string {
	if len(fi.outs) > 0 {
		c.t.fail(at, "call of %s, which has output parameters", fi.goName)
	}
	if fi.foreign {
		return " ext'"
	}
	return ""
}

// writeBase08: the variable behind a written argument `v`, `v[:]`, `v[:n]` (and n).
func (c *fctx) writeBase08(arg ast.Expr) (base ast.Expr, high ast.Expr, ok bool) {
	base = ast.Unparen(arg)
	if se, isSl := base.(*ast.SliceExpr); isSl {
		if se.Slice3 {
			return nil, nil, false
		}
		if se.Low != nil {
			v, isC := c.constInt(se.Low)
			if !isC || constant.Sign(v) != 0 {
				return nil, nil, false
			}
		}
		base, high = ast.Unparen(se.X), se.High
	}
	switch base.(type) {
	case *ast.Ident, *ast.SelectorExpr:
		return base, high, true
	}
	return nil, nil, false
}

// foreignWrites08: the variables a call of a foreign function writes.
func (t *Translator) foreignWrites08(x *ast.CallExpr) []types.Object {
	fo := t.foreignOf(x)
	if fo == nil {
		return nil
	}
	var out []types.Object
	for i, a := range x.Args {
		if fo.writes[i] {
			if o, _ := t.rootObj(a); o != nil {
				out = append(out, o)
			}
		}
	}
	return out
}

func (t *Translator) assigned08(m ast.Node, set map[types.Object]bool) {
	if x, ok := m.(*ast.CallExpr); ok {
		for _, o := range t.foreignWrites08(x) {
			set[o] = true
		}
	}
}

// checkHandles08: an opaque handle is the receiver of at most one method call, and of none inside a loop.
func (t *Translator) checkHandles08(fi *funcInfo) {
	if t.x08 == nil || len(t.x08.foreign) == 0 || fi.decl.Body == nil {
		return
	}
	count := map[types.Object]int{}
	var walk func(n ast.Node, inLoop bool)
	walk = func(n ast.Node, inLoop bool) {
		ast.Inspect(n, func(m ast.Node) bool {
			switch x := m.(type) {
			case *ast.ForStmt:
				if x.Init != nil {
					walk(x.Init, inLoop)
				}
				for _, s := range []ast.Node{x.Cond, x.Post, x.Body} {
					if s != nil && !isNilNode08(s) {
						walk(s, true)
					}
				}
				return false
			case *ast.RangeStmt:
				walk(x.X, inLoop)
				walk(x.Body, true)
				return false
			case *ast.CallExpr:
				if fo := t.foreignOf(x); fo != nil && fo.method {
					sel := ast.Unparen(x.Fun).(*ast.SelectorExpr)
					o, deep := t.rootObj(sel.X)
					if o == nil || deep {
						t.fail(x, "call of the foreign method %s on something that is not a variable", fo.spec.Name)
					}
					count[o]++
					if inLoop {
						t.fail(x, "call of the foreign method %s inside a loop (the handle is translated as a value)", fo.spec.Name)
					}
					if count[o] > 1 {
						t.fail(x, "second method call on the foreign handle %s (the handle is translated as a value)", o.Name())
					}
				}
			}
			return true
		})
	}
	walk(fi.decl.Body, false)
}

func isNilNode08(n ast.Node) bool {
	switch x := n.(type) {
	case ast.Expr:
		return x == nil
	case ast.Stmt:
		return x == nil
	}
	return false
}

// ---- calls ------------------------------------------------------------------------------------------------------------

// errCall08: errors.New("text") / fmt.Errorf("text", pure args) -> the code of the text.
func (c *fctx) errCall08(x *ast.CallExpr, fn *types.Func) (string, bool) {
	t := c.t
	if t.x08 == nil || len(t.x08.spec.ErrCodes) == 0 || fn.Pkg() == nil {
		return "", false
	}
	q := fn.Pkg().Path() + "." + fn.Name()
	if q != "errors.New" && q != "fmt.Errorf" {
		return "", false
	}
	if len(x.Args) == 0 || (q == "errors.New" && len(x.Args) != 1) {
		t.fail(x, "%s with %d arguments", q, len(x.Args))
	}
	tv, ok := t.info.Types[x.Args[0]]
	if !ok || tv.Value == nil || tv.Value.Kind() != constant.String {
		t.fail(x, "%s with a text that is not a constant", q)
	}
	for _, a := range x.Args[1:] {
		if !c.pure(a) {
			t.fail(x, "%s with an argument whose evaluation may panic or assign", q)
		}
	}
	text := constant.StringVal(tv.Value)
	for _, e := range t.x08.spec.ErrCodes {
		if text == e.Text || (e.Prefix && strings.HasPrefix(text, e.Text)) {
			return fmt.Sprint(e.Code), true
		}
	}
	t.fail(x, "error text %q is not in the area's error table", text)
	return "", false
}

// foreignCall08: a call of a listed foreign function / method (false: not one; the core refuses it).
func (c *fctx) foreignCall08(x *ast.CallExpr, en *env, k func([]string) string) (string, bool) {
	t := c.t
	if t.x08 == nil {
		return "", false
	}
	sel, ok := ast.Unparen(x.Fun).(*ast.SelectorExpr)
	if !ok {
		return "", false
	}
	fn, ok := t.info.Uses[sel.Sel].(*types.Func)
	if !ok || fn.Pkg() == nil || fn.Pkg() == t.tpkg {
		return "", false
	}
	if code, ok := c.errCall08(x, fn); ok {
		return k([]string{code}), true
	}
	fo := t.x08.byObj[fn]
	if fo == nil {
		return "", false
	}
	return c.foreignApply08(fo, sel, x, en, k), true
}

// foreignApply08: the call x of the foreign function fo (split off for [ext:T09], which calls it for functions of the package).
func (c *fctx) foreignApply08(fo *foreignInfo, sel *ast.SelectorExpr, x *ast.CallExpr, en *env, k func([]string) string) string {
	t := c.t
	if len(x.Args) != len(fo.params) {
		t.fail(x, "call of %s with %d arguments", fo.spec.Name, len(x.Args))
	}
	type wr struct {
		base ast.Expr
		name string
		wrap string // [ext:T09] v[a:]: the format of v's new value
	}
	var writes []wr
	seenKey := map[string]bool{}
	emit := func(recv string, argv []string) string {
		app := fo.field + " ext'"
		if recv != "" {
			app += " " + recv
		}
		for _, a := range argv {
			app += " " + a
		}
		var parts []string
		for i := range writes {
			writes[i].name = c.fresh("d")
			parts = append(parts, writes[i].name)
		}
		var rs []string
		for range fo.res {
			rs = append(rs, c.fresh("v"))
		}
		if len(rs) > 0 {
			parts = append(parts, tuple(rs))
		}
		pat := nestPair(parts)
		if len(parts) == 0 {
			pat = "_"
		}
		if strings.HasPrefix(pat, "(") {
			pat = "'" + pat
		}
		var rec func(i int) string
		rec = func(i int) string {
			if i == len(writes) {
				return k(rs)
			}
			val := writes[i].name
			if writes[i].wrap != "" { // [ext:T09]
				val = fmt.Sprintf(writes[i].wrap, val)
			}
			return c.store(writes[i].base, val, en, func() string { return rec(i + 1) })
		}
		return fmt.Sprintf("do %s <- %s;;\n%s", pat, app, rec(0))
	}
	var argv []string
	var rec func(i int, recv string) string
	rec = func(i int, recv string) string {
		if i == len(x.Args) {
			return emit(recv, argv)
		}
		if !fo.writes[i] {
			if g := t.exprType(x.Args[i]); g.k == kStruct || g.k == kPlace || g.elem != nil || g.nest {
				t.fail(x.Args[i], "argument %d of %s", i, fo.spec.Name)
			}
			return c.expr(x.Args[i], en, func(v string) string {
				argv = append(argv[:len(argv):len(argv)], v)
				return rec(i+1, recv)
			})
		}
		base, high, ok := c.writeBase08(x.Args[i])
		var low ast.Expr
		if !ok {
			base, low, ok = c.writeBase09(x.Args[i]) // [ext:T09] v[a:]
		}
		if !ok {
			t.fail(x.Args[i], "argument %d of %s is written by the callee: only v, v[:] or v[:n] with v a variable or a field", i, fo.spec.Name)
		}
		key := c.sliceKey(base, en)
		if !c.deadAlias09(key, en, x) { // [ext:T09] sharing with variables that are dead behind the call
			c.checkWritable(key, en, x)
		}
		if seenKey[key] {
			t.fail(x, "%s writes two arguments that are the same variable", fo.spec.Name)
		}
		seenKey[key] = true
		writes = append(writes, wr{base: base})
		wi := len(writes) - 1
		return c.expr(base, en, func(b string) string {
			if low != nil { // [ext:T09] v[a:]
				return c.subWrite09(b, low, en, func(buf, n, wrap string) string {
					argv = append(argv[:len(argv):len(argv)], buf, n)
					writes[wi].wrap = wrap
					return rec(i+1, recv)
				})
			}
			if high == nil {
				argv = append(argv[:len(argv):len(argv)], b, "(zlen "+b+")")
				return rec(i+1, recv)
			}
			return c.expr(high, en, func(h string) string {
				argv = append(argv[:len(argv):len(argv)], b, h)
				return fmt.Sprintf("do _ <- m_slice %s 0 %s;;\n%s", b, h, rec(i+1, recv))
			})
		})
	}
	if fo.method {
		if g := t.exprType(sel.X); g.k != kOpaque {
			t.fail(x, "receiver of the foreign method %s", fo.spec.Name)
		}
		return c.expr(sel.X, en, func(r string) string { return rec(0, r) })
	}
	return rec(0, "")
}

// lhsType08: the type of an assignment target; a variable that a `:=` redeclares has no entry in info.Types.
func (c *fctx) lhsType08(lhs ast.Expr, en *env) gtype {
	if id, ok := ast.Unparen(lhs).(*ast.Ident); ok {
		o := c.t.info.Uses[id]
		if o == nil {
			o = c.t.info.Defs[id]
		}
		if v := en.lookup(o); v != nil {
			return v.ty
		}
	}
	return c.t.exprType(lhs)
}

// refuseNilOpaque08: the nil value of a foreign (interface / pointer) type has no translation.
func (c *fctx) refuseNilOpaque08(g gtype, e ast.Expr) {
	if g.k == kOpaque && nilIdent(e) != nil {
		c.t.fail(e, "nil of the foreign type %s", g.opq)
	}
}

func (c *fctx) refuseNilAssign08(lhs, rhs ast.Expr, en *env) {
	if nilIdent(rhs) == nil {
		return
	}
	if id, ok := ast.Unparen(lhs).(*ast.Ident); ok {
		if o := c.t.info.Uses[id]; o != nil {
			if v := en.lookup(o); v != nil {
				c.refuseNilOpaque08(v.ty, rhs)
			}
		}
	}
}
