// gen/codec.go — C07: the numeric shape of the escape codecs of strz/enc.go.
//
// For OctalParse / HexParse / UnicodeParse the escape width (the guard `len(src)-i < W`), the prefix length and bytes
// (`src[i+k] != 'c'`), the digit window `src[i+P:i+W]`, the base and bit size handed to parseUint and the two cursor
// increments (`i += P + j`, `i += W`) are read out of the function bodies and written to coq/Gen/Codec.v; the Coq model
// is instantiated with them, so a changed constant re-checks every proof.  For Utf16Parse the surrogate thresholds are
// emitted and the 6/2/16/16 shape is verified.  The Format functions, appendUint, parseUint's helpers and zeroPadding
// are fingerprinted by their integer / string literals.  Anything unexpected fails closed.
package main

import (
	"fmt"
	"go/ast"
	"go/token"
	"math/big"
	"strings"
)

type escShape struct {
	W, P, base, bits int64
	prefix           []int64
	incs             []string // the `i += ...` statements, rendered
	cmps             []string // comparisons of n/n1/n2 with constants, rendered "n1 < 55296"
}

func render(p *Pkg, e ast.Expr) string {
	switch x := e.(type) {
	case *ast.Ident:
		return x.Name
	case *ast.BasicLit, *ast.SelectorExpr:
		if v, err := Eval(e, p.Env, 0); err == nil {
			return v.String()
		}
	case *ast.BinaryExpr:
		return render(p, x.X) + " " + x.Op.String() + " " + render(p, x.Y)
	case *ast.ParenExpr:
		return "(" + render(p, x.X) + ")"
	}
	return "?"
}

// i + K  (or plain i: K = 0)
func offsetOfI(p *Pkg, e ast.Expr) (int64, bool) {
	if id, ok := e.(*ast.Ident); ok && id.Name == "i" {
		return 0, true
	}
	if b, ok := e.(*ast.BinaryExpr); ok && b.Op == token.ADD {
		if id, ok := b.X.(*ast.Ident); ok && id.Name == "i" {
			if v, err := Eval(b.Y, p.Env, 0); err == nil {
				return v.Int64(), true
			}
		}
	}
	return 0, false
}

func readEscShape(p *Pkg, name string) (*escShape, error) {
	fd := p.Func(name)
	if fd == nil {
		return nil, fmt.Errorf("%s not found", name)
	}
	s := &escShape{W: -1, P: -1}
	pre := map[int64]int64{}
	var err error
	fail := func(f string, a ...interface{}) {
		if err == nil {
			err = fmt.Errorf(name+": "+f, a...)
		}
	}
	ast.Inspect(fd.Body, func(n ast.Node) bool {
		switch x := n.(type) {
		case *ast.BinaryExpr:
			// len(src)-i < W
			if x.Op == token.LSS {
				if l, ok := x.X.(*ast.BinaryExpr); ok && l.Op == token.SUB && render(p, l.Y) == "i" {
					if c, ok := l.X.(*ast.CallExpr); ok {
						if id, ok := c.Fun.(*ast.Ident); ok && id.Name == "len" {
							v, e := Eval(x.Y, p.Env, 0)
							if e != nil {
								fail("guard constant: %v", e)
								return true
							}
							if s.W >= 0 && s.W != v.Int64() {
								fail("two different guard widths %d and %d", s.W, v.Int64())
							}
							s.W = v.Int64()
							return true
						}
					}
				}
			}
			// src[i+k] != 'c'
			if x.Op == token.NEQ {
				if ix, ok := x.X.(*ast.IndexExpr); ok && render(p, ix.X) == "src" {
					k, ok1 := offsetOfI(p, ix.Index)
					v, e := Eval(x.Y, p.Env, 0)
					if !ok1 || e != nil {
						fail("prefix test of unknown shape")
						return true
					}
					if old, seen := pre[k]; seen && old != v.Int64() {
						fail("prefix byte %d tested against two values", k)
					}
					pre[k] = v.Int64()
					return true
				}
			}
			// comparisons of the parsed value with constants
			if x.Op == token.LSS || x.Op == token.GEQ || x.Op == token.GTR || x.Op == token.LEQ {
				if id, ok := x.X.(*ast.Ident); ok && (id.Name == "n" || id.Name == "n1" || id.Name == "n2") {
					s.cmps = append(s.cmps, render(p, x))
				}
			}
		case *ast.CallExpr:
			if id, ok := x.Fun.(*ast.Ident); ok && id.Name == "parseUint" && len(x.Args) == 3 {
				sl, ok := x.Args[0].(*ast.SliceExpr)
				if !ok || render(p, sl.X) != "src" || sl.Low == nil || sl.High == nil || sl.Max != nil {
					fail("parseUint argument is not src[i+P:i+W]")
					return true
				}
				lo, ok1 := offsetOfI(p, sl.Low)
				hi, ok2 := offsetOfI(p, sl.High)
				b, e1 := Eval(x.Args[1], p.Env, 0)
				bs, e2 := Eval(x.Args[2], p.Env, 0)
				if !ok1 || !ok2 || e1 != nil || e2 != nil {
					fail("parseUint call of unknown shape")
					return true
				}
				if s.P >= 0 && (s.P != lo || s.base != b.Int64() || s.bits != bs.Int64()) {
					fail("two parseUint calls with different shapes")
				}
				s.P, s.base, s.bits = lo, b.Int64(), bs.Int64()
				if s.W >= 0 && hi != s.W {
					fail("digit window ends at i+%d but the guard width is %d", hi, s.W)
				}
			}
		case *ast.AssignStmt:
			if x.Tok == token.ADD_ASSIGN && len(x.Lhs) == 1 && render(p, x.Lhs[0]) == "i" {
				s.incs = append(s.incs, render(p, x.Rhs[0]))
			}
		case *ast.IncDecStmt:
			if render(p, x.X) == "i" {
				s.incs = append(s.incs, x.Tok.String())
			}
		}
		return true
	})
	if err != nil {
		return nil, err
	}
	if s.W < 0 || s.P < 0 {
		return nil, fmt.Errorf("%s: guard or parseUint call not found", name)
	}
	if int64(len(pre)) != s.P {
		return nil, fmt.Errorf("%s: %d prefix bytes tested but the digit window starts at i+%d", name, len(pre), s.P)
	}
	for k := int64(0); k < s.P; k++ {
		v, ok := pre[k]
		if !ok {
			return nil, fmt.Errorf("%s: prefix byte %d is not tested", name, k)
		}
		s.prefix = append(s.prefix, v)
	}
	return s, nil
}

func litsOf(p *Pkg, name string) (string, error) {
	fd := p.Func(name)
	if fd == nil {
		return "", fmt.Errorf("%s not found", name)
	}
	var parts []string
	ast.Inspect(fd.Body, func(n ast.Node) bool {
		if bl, ok := n.(*ast.BasicLit); ok {
			switch bl.Kind {
			case token.INT:
				v, _ := new(big.Int).SetString(strings.ReplaceAll(bl.Value, "_", ""), 0)
				parts = append(parts, v.String())
			case token.CHAR, token.STRING:
				parts = append(parts, bl.Value)
			}
		}
		return true
	})
	return strings.Join(parts, " "), nil
}

func init() {
	Register(Area{Name: "Codec", Gen: func(repo string) (string, error) {
		p, err := Load(repo, "strz")
		if err != nil {
			return "", err
		}
		var sb strings.Builder
		sb.WriteString("Local Open Scope Z_scope.\n(* strz/enc.go: shape of the escape parsers *)\n")
		for _, f := range []struct{ fn, pre string }{{"OctalParse", "oct"}, {"HexParse", "hex"}, {"UnicodeParse", "uni"}, {"Utf16Parse", "u16"}} {
			s, err := readEscShape(p, f.fn)
			if err != nil {
				return "", err
			}
			// cursor increments: i++ (prefix mismatch), i += P + j (bad digit), i += W (consumed / rejected)
			wantInc := map[string]bool{"++": true, fmt.Sprintf("%d + j", s.P): true, fmt.Sprint(s.W): true}
			for _, inc := range s.incs {
				if !wantInc[inc] {
					return "", fmt.Errorf("%s: unexpected cursor increment `i += %s` (P=%d, W=%d)", f.fn, inc, s.P, s.W)
				}
			}
			seen := map[string]bool{}
			for _, inc := range s.incs {
				seen[inc] = true
			}
			if len(seen) != 3 {
				return "", fmt.Errorf("%s: expected the three cursor increments ++, %d + j, %d; found %v", f.fn, s.P, s.W, s.incs)
			}
			sb.WriteString(CoqZ(f.pre+"_W", big.NewInt(s.W)))
			sb.WriteString(CoqZ(f.pre+"_P", big.NewInt(s.P)))
			sb.WriteString(CoqZList(f.pre+"_prefix", s.prefix))
			sb.WriteString(CoqZ(f.pre+"_base", big.NewInt(s.base)))
			sb.WriteString(CoqZ(f.pre+"_bits", big.NewInt(s.bits)))
			switch f.fn {
			case "OctalParse", "HexParse":
				if len(s.cmps) != 0 {
					return "", fmt.Errorf("%s: unexpected value tests %v", f.fn, s.cmps)
				}
			case "UnicodeParse":
				if strings.Join(s.cmps, "; ") != "n > 1114111; n < 128" {
					return "", fmt.Errorf("UnicodeParse: value tests are %v, expected n > utf8.MaxRune and n < utf8.RuneSelf", s.cmps)
				}
			case "Utf16Parse":
				want := "n1 < S1; n1 >= S3; n1 >= S1; n1 < S2; n2 >= S2; n2 < S3"
				if len(s.cmps) != 6 {
					return "", fmt.Errorf("Utf16Parse: value tests are %v, expected %s", s.cmps, want)
				}
				get := func(i int, op string) (string, error) {
					parts := strings.Split(s.cmps[i], " ")
					if len(parts) != 3 || parts[1] != op {
						return "", fmt.Errorf("Utf16Parse: value test %d is `%s`, expected the pattern %s", i, s.cmps[i], want)
					}
					return parts[0] + " " + parts[2], nil
				}
				var got [6]string
				ops := []string{"<", ">=", ">=", "<", ">=", "<"}
				for i := range ops {
					g, err := get(i, ops[i])
					if err != nil {
						return "", err
					}
					got[i] = g
				}
				val := func(s string) string { return strings.Split(s, " ")[1] }
				nam := func(s string) string { return strings.Split(s, " ")[0] }
				if nam(got[0]) != "n1" || nam(got[1]) != "n1" || nam(got[2]) != "n1" || nam(got[3]) != "n1" || nam(got[4]) != "n2" || nam(got[5]) != "n2" ||
					val(got[0]) != val(got[2]) || val(got[1]) != val(got[5]) || val(got[3]) != val(got[4]) {
					return "", fmt.Errorf("Utf16Parse: value tests are %v, expected %s", s.cmps, want)
				}
				for i, nm := range []string{"u16_surr1", "u16_surr2", "u16_surr3"} {
					v, _ := new(big.Int).SetString(val(got[[]int{0, 3, 1}[i]]), 10)
					sb.WriteString(CoqZ(nm, v))
				}
				if s.W != 6 || s.P != 2 || s.base != 16 || s.bits != 16 || fmt.Sprint(s.prefix) != "[92 117]" {
					return "", fmt.Errorf("Utf16Parse: shape (W=%d P=%d base=%d bits=%d prefix=%v) is not the \\uXXXX shape the model is written for", s.W, s.P, s.base, s.bits, s.prefix)
				}
			}
		}
		// fingerprints of the code whose constants the model writes out literally
		want := map[string]string{
			"OctalFormat":   `4 0 '\\' 1 4 8`,
			"HexFormat":     `4 0 '\\' 1 'x' 2 4 16`,
			"UnicodeFormat": `10 0 '\\' 1 'U' 2 10 16 "0000FFFD" 16`,
			"Utf16Format":   `0 6 0 '\\' 'u' '0' '0' '0' '0' 2 6 16 "FFFD" 0 0xd800 0xe000 0x10000 16 0x10000 16 '\\' 'u' '0' '0' '0' '0' 2 6 16 "FFFD"`,
			"appendUint":    `0`,
			"toUpper":       ``,
			"upper":         `6 5`,
			"lower":         `32`,
			"parseUint":     `1 1 1 0 '0' '9' '0' 'a' 'z' 'a' 10 0 0`,
		}
		for _, fn := range []string{"OctalFormat", "HexFormat", "UnicodeFormat", "Utf16Format", "appendUint", "toUpper", "upper", "lower", "parseUint"} {
			w := want[fn]
			got, err := litsOf(p, fn)
			if err != nil {
				return "", err
			}
			// integer literals are compared by value
			norm := func(s string) string {
				f := strings.Fields(s)
				for i, t := range f {
					if v, ok := new(big.Int).SetString(t, 0); ok {
						f[i] = v.String()
					}
				}
				return strings.Join(f, " ")
			}
			if norm(got) != norm(w) {
				return "", fmt.Errorf("%s: literals are [%s], the model was written for [%s]", fn, got, w)
			}
		}
		zp, ok := p.Env["zeroPadding"].(*ast.CompositeLit)
		if !ok || len(zp.Elts) < 8 {
			return "", fmt.Errorf("zeroPadding is not a literal of at least 8 bytes")
		}
		for _, e := range zp.Elts {
			v, err := Eval(e, p.Env, 0)
			if err != nil || v.Int64() != '0' {
				return "", fmt.Errorf("zeroPadding holds something else than '0'")
			}
		}
		mu, err := p.Int("maxUint64")
		if err != nil || mu.String() != "18446744073709551615" {
			return "", fmt.Errorf("maxUint64 is not 1<<64 - 1")
		}
		return sb.String(), nil
	}})
}
