// Self-test of the [ext:T08] extension (gen/trans_ext08.go): the functions of internal/sample/ext08.go are run natively
// against the real internal/ext08lib, and their translations are evaluated by coqc (vm_compute) on the same arguments with
// the Record Foreign instantiated by a Coq transcription of that library; results, final buffers, error codes and panics
// must agree.  internal/refused/ext08.go holds what must be refused.
package main

import (
	"fmt"
	"os"
	"os/exec"
	"path/filepath"
	"strings"
	"testing"

	"verifgen/internal/sample"
)

const ext08LibStub = `package ext08lib
const Block = 4
type Bytes interface{ ~string | ~[]byte }
type Mode interface { Crypt(dst, src []byte); Size() int }
func NewMode(key []byte) (Mode, error)
func Repeat(b []byte, n int) []byte
func Equal(a, b []byte) bool
func AppendSum(dst, src []byte) []byte
func Other(n int) int`

func ext08Spec(stub bool) TransSpec {
	spec := TransSpec{Dir: "internal/sample",
		Funcs:         []string{"init:pats", "Pat", "Encode", "EncodePrefix", "Sum", "Check", "Crypt1", "LenOf"},
		Globals:       []string{"pats"},
		Stubs:         map[string]string{"fmt": "package fmt\nfunc Errorf(format string, a ...any) error"},
		ModuleImports: true,
		Foreign: []ForeignSpec{{Name: "ext08lib.NewMode"}, {Name: "ext08lib.Mode.Crypt", Writes: []int{0}}, {Name: "ext08lib.Repeat"},
			{Name: "ext08lib.Equal"}, {Name: "ext08lib.AppendSum", Writes: []int{0}}},
		OutParams: map[string][]int{"Encode": {0}, "EncodePrefix": {0}, "Sum": {0}},
		ErrCodes:  []ErrCode{{Text: "mode error", Prefix: true, Code: 5}, {Text: "nothing to do", Code: 6}, {Text: "differs", Code: 7}},
	}
	if stub {
		spec.Stubs["verifgen/internal/ext08lib"] = ext08LibStub
	}
	return spec
}

// the Coq transcription of internal/ext08lib (a handle is the key byte)
const ext08Instance = `
Definition t_NewMode (key : list Z) : M (Z * Z) := Ret (match key with [] => (0, 1) | k :: _ => (k, 0) end).
Definition t_Crypt (h : Z) (buf : list Z) (n : Z) (src : list Z) : M (list Z) :=
  if n <? zlen src then Panic else Ret (gocopy buf (map (Z.lxor h) src)).
Definition t_Repeat (b : list Z) (n : Z) : M (list Z) := if n <? 0 then Panic else Ret (concat (repeat b (Z.to_nat n))).
Fixpoint leq (a b : list Z) : bool := match a, b with [], [] => true | x :: a', y :: b' => (x =? y) && leq a' b' | _, _ => false end.
Definition t_Equal (a b : list Z) : M bool := Ret (leq a b).
Definition t_AppendSum (buf : list Z) (n : Z) (src : list Z) : M (list Z * list Z) :=
  let out := src ++ [fold_left Z.add src 0 mod 256] in
  let k := Z.to_nat n in
  Ret (if (k + length out <=? length buf)%nat then firstn k buf ++ gocopy (skipn k buf) out else buf, firstn k buf ++ out).
Definition X : Foreign := mkForeign Z t_NewMode t_Crypt t_Repeat t_Equal t_AppendSum.
`

func errCode08(err error) string {
	switch {
	case err == nil:
		return "0"
	case strings.HasPrefix(err.Error(), "mode error"):
		return "5"
	case err.Error() == "nothing to do":
		return "6"
	case err.Error() == "differs":
		return "7"
	}
	return "?"
}

func exact(b []byte) []byte { return append(make([]byte, 0, len(b)), b...) }

func TestExt08AgainstNativeGo(t *testing.T) {
	if _, err := exec.LookPath("coqc"); err != nil {
		t.Skip("coqc not found")
	}
	body, err := Translate(".", ext08Spec(true))
	if err != nil {
		t.Fatal(err)
	}
	// the library type-checked from its source in the module (TransSpec.ModuleImports) gives the same translation
	body2, err := Translate(".", ext08Spec(false))
	if err != nil {
		t.Fatal(err)
	}
	if body != body2 {
		t.Errorf("stub and module import give different translations")
	}
	var ex []string
	add := func(call string, f func() string) {
		ex = append(ex, fmt.Sprintf("Example ex%d : %s = %s.\nProof. vm_compute. reflexivity. Qed.", len(ex), call, native(f)))
	}
	var rows []string
	for _, p := range sample.Pats() {
		rows = append(rows, bl(p))
	}
	tbl := "[" + strings.Join(rows, "; ") + "]"
	ex = append(ex, fmt.Sprintf("Example table : g_init_pats 50 X g0_pats = Ret %s.\nProof. vm_compute. reflexivity. Qed.", tbl))
	ex = append(ex, "Example table_fuel : g_init_pats 5 X g0_pats = NoFuel.\nProof. vm_compute. reflexivity. Qed.")
	for _, i := range []int{-1, 0, 1, 2, 4, 5, 9} {
		i := i
		add(fmt.Sprintf("g_Pat %s %s", tbl, zs(i)), func() string { return zs(sample.Pat(i)) })
	}
	bufs := [][]byte{nil, {9}, {1, 2, 3}, {250, 7, 7, 7}, {5, 6, 7, 8, 9, 10}, {0, 0, 0, 0, 0, 0, 0, 0, 0}}
	keys := [][]byte{nil, {0x5a}, {255, 1}}
	for _, dst := range bufs {
		for _, src := range bufs {
			dst, src := dst, src
			for _, key := range keys {
				key := key
				add(fmt.Sprintf("g_Encode X %s %s %s %s", tbl, bl(dst), bl(src), bl(key)), func() string {
					d := exact(dst)
					n, err := sample.Encode(d, exact(src), key)
					return fmt.Sprintf("(%s, (%s, %s))", bl(d), zs(n), errCode08(err))
				})
				for _, n := range []int{-1, 0, 1, 3, 6, 10} {
					n := n
					add(fmt.Sprintf("g_EncodePrefix X %s %s %s %s", bl(dst), bl(src), bl(key), zs(n)), func() string {
						d := exact(dst)
						err := sample.EncodePrefix(d, exact(src), key, n)
						return fmt.Sprintf("(%s, %s)", bl(d), errCode08(err))
					})
				}
			}
			add(fmt.Sprintf("g_Sum X %s %s", bl(dst), bl(src)), func() string {
				d := exact(dst)
				v, err := sample.Sum(d, exact(src))
				return fmt.Sprintf("(%s, (%s, %s))", bl(d), zs(v), errCode08(err))
			})
		}
		dst := dst
		for _, n := range []int{-1, 0, 1, 2, 3} {
			n := n
			add(fmt.Sprintf("g_Check X %s %s", bl(dst), zs(n)), func() string {
				r, err := sample.Check(dst, n)
				return fmt.Sprintf("(%s, %s)", bl(r), errCode08(err))
			})
		}
		add("g_LenOf "+bl(dst), func() string { return zs(sample.LenOf(dst)) })
		add("g_LenOf "+bl(dst), func() string { return zs(sample.LenOf(string(dst))) })
	}
	add("g_Check X [1; 2; 1; 2] 2", func() string {
		r, err := sample.Check([]byte{1, 2, 1, 2}, 2)
		return fmt.Sprintf("(%s, %s)", bl(r), errCode08(err))
	})
	for _, key := range keys {
		for _, b := range []int{0, 1, 0x5a, 200, 255} {
			key, b := key, b
			add(fmt.Sprintf("g_Crypt1 X %s %d", bl(key), b), func() string {
				v, err := sample.Crypt1(key, byte(b))
				return fmt.Sprintf("(%d, %s)", v, errCode08(err))
			})
		}
	}

	dir := t.TempDir()
	os.MkdirAll(filepath.Join(dir, "Lib"), 0755)
	os.MkdirAll(filepath.Join(dir, "Gen"), 0755)
	for _, f := range []string{"GoSem.v", "GoSemRec.v"} {
		sem, err := os.ReadFile("../coq/Lib/" + f)
		if err != nil {
			t.Fatal(err)
		}
		os.WriteFile(filepath.Join(dir, "Lib", f), sem, 0644)
	}
	text := "From Coq Require Import List ZArith Bool.\nImport ListNotations.\nFrom V Require Import Lib.GoSem Lib.GoSemRec.\nImport GoNotations.\nLocal Open Scope Z_scope.\n" +
		body + "\n" + ext08Instance + "\n" + strings.Join(ex, "\n") + "\n"
	os.WriteFile(filepath.Join(dir, "Gen", "SampleExt08.v"), []byte(text), 0644)
	if keep := os.Getenv("GO2V_KEEP08"); keep != "" {
		os.WriteFile(keep, []byte(text), 0644)
	}
	for _, f := range []string{"Lib/GoSem.v", "Lib/GoSemRec.v", "Gen/SampleExt08.v"} {
		cmd := exec.Command("timeout", "600", "coqc", "-Q", ".", "V", f)
		cmd.Dir = dir
		if out, err := cmd.CombinedOutput(); err != nil {
			t.Fatalf("coqc %s: %v\n%s", f, err, out)
		}
	}
	t.Logf("%d examples agree", len(ex))
}

// outside the extended subset: refused with a position
func TestExt08FailsClosed(t *testing.T) {
	spec := func(fn string) TransSpec {
		return TransSpec{Dir: "internal/refused", Structs: []string{"Box"}, Funcs: []string{fn}, Globals: []string{"tbl"},
			Stubs:     map[string]string{"verifgen/internal/ext08lib": ext08LibStub},
			Foreign:   []ForeignSpec{{Name: "ext08lib.NewMode"}, {Name: "ext08lib.Mode.Crypt", Writes: []int{0}}},
			OutParams: map[string][]int{"TwoCalls": {0}, "LoopCall": {0}, "WriteSliced": {0}, "OutFn": {0}},
			ErrCodes:  []ErrCode{{Text: "known text", Code: 1}}}
	}
	for _, fn := range []string{"TwoCalls", "LoopCall", "NilHandle", "UnknownErr", "WriteSliced", "WriteParam08", "CallOut", "NestedAppend", "ElemWrite", "Unlisted"} {
		_, err := Translate(".", spec(fn))
		if err == nil || !strings.Contains(err.Error(), "unsupported") || !strings.Contains(err.Error(), "ext08.go:") {
			t.Errorf("%s: expected `unsupported: ... at file:line`, got %v", fn, err)
		} else {
			t.Logf("%s: %v", fn, err)
		}
	}
	// without the extension's spec fields the same source is refused as before (foreign calls, the nested table)
	for _, fn := range []string{"Encode", "Check", "Pat"} {
		if _, err := Translate(".", TransSpec{Dir: "internal/sample", Funcs: []string{fn}}); err == nil || !strings.Contains(err.Error(), "unsupported") {
			t.Errorf("%s without [ext:T08] spec fields: expected a refusal, got %v", fn, err)
		}
	}
}
