// gen: the small translator.  Reads the Go sources of the tree given as argv[1] (go/ast only) and writes
// coq/Gen/<Area>.v files: the numeric / string constants, table initialisers and loop bounds the Coq models
// depend on, so that the theorems are re-checked against what the code says now.  An area that cannot find
// what it looks for fails closed (exit 1): the check then reports the tie as broken.
// Files are only rewritten when their content changes (keeps make incremental).
package main

import (
	"encoding/json"
	"fmt"
	"go/ast"
	"go/parser"
	"go/token"
	"math/big"
	"os"
	"path/filepath"
	"sort"
	"strconv"
	"strings"
)

type Area struct {
	Name string                            // coq/Gen/<Name>.v
	Gen  func(repo string) (string, error) // Coq source text (without header)
}

var areas []Area

func Register(a Area) { areas = append(areas, a) }

// ---- helpers -------------------------------------------------------------------------------

// ParseDir parses every non-test .go file of repo/dir.
func ParseDir(repo, dir string) (*token.FileSet, []*ast.File, error) {
	fset := token.NewFileSet()
	ents, err := os.ReadDir(filepath.Join(repo, dir))
	if err != nil {
		return nil, nil, err
	}
	var files []*ast.File
	for _, e := range ents {
		if !strings.HasSuffix(e.Name(), ".go") || strings.HasSuffix(e.Name(), "_test.go") {
			continue
		}
		f, err := parser.ParseFile(fset, filepath.Join(repo, dir, e.Name()), nil, parser.ParseComments)
		if err != nil {
			return nil, nil, err
		}
		files = append(files, f)
	}
	return fset, files, nil
}

// constDecls collects name -> expression for package-level const and var declarations with a value.
func constDecls(files []*ast.File) map[string]ast.Expr {
	m := map[string]ast.Expr{}
	for _, f := range files {
		for _, d := range f.Decls {
			g, ok := d.(*ast.GenDecl)
			if !ok || (g.Tok != token.CONST && g.Tok != token.VAR) {
				continue
			}
			for _, s := range g.Specs {
				vs := s.(*ast.ValueSpec)
				for i, n := range vs.Names {
					if i < len(vs.Values) {
						m[n.Name] = vs.Values[i]
					}
				}
			}
		}
	}
	return m
}

// Eval evaluates an integer constant expression over literals, named constants of the package, a few
// well-known library constants, and the operators + - * / % << >> & | ^ &^ and unary - ^.
func Eval(e ast.Expr, env map[string]ast.Expr, depth int) (*big.Int, error) {
	if depth > 50 {
		return nil, fmt.Errorf("constant expression too deep")
	}
	switch x := e.(type) {
	case *ast.BasicLit:
		switch x.Kind {
		case token.INT:
			v, ok := new(big.Int).SetString(strings.ReplaceAll(x.Value, "_", ""), 0)
			if !ok {
				return nil, fmt.Errorf("bad int literal %s", x.Value)
			}
			return v, nil
		case token.CHAR:
			r, _, _, err := strconv.UnquoteChar(x.Value[1:len(x.Value)-1], '\'')
			if err != nil {
				return nil, err
			}
			return big.NewInt(int64(r)), nil
		}
	case *ast.ParenExpr:
		return Eval(x.X, env, depth+1)
	case *ast.Ident:
		if d, ok := env[x.Name]; ok {
			return Eval(d, env, depth+1)
		}
	case *ast.SelectorExpr:
		if id, ok := x.X.(*ast.Ident); ok {
			switch id.Name + "." + x.Sel.Name {
			case "aes.BlockSize":
				return big.NewInt(16), nil
			case "utf8.RuneSelf":
				return big.NewInt(0x80), nil
			case "utf8.MaxRune":
				return big.NewInt(0x10FFFF), nil
			case "utf8.RuneError":
				return big.NewInt(0xFFFD), nil
			case "utf8.UTFMax":
				return big.NewInt(4), nil
			case "math.MaxUint32":
				return big.NewInt(1<<32 - 1), nil
			case "math.MaxInt32":
				return big.NewInt(1<<31 - 1), nil
			case "math.MaxInt64":
				return big.NewInt(1<<63 - 1), nil
			}
		}
	case *ast.CallExpr: // conversions like uint32(x), len("literal")
		if id, ok := x.Fun.(*ast.Ident); ok && len(x.Args) == 1 {
			if id.Name == "len" {
				if s, err := EvalString(x.Args[0], env, depth+1); err == nil {
					return big.NewInt(int64(len(s))), nil
				}
				if d, ok := x.Args[0].(*ast.Ident); ok {
					if cl, ok := env[d.Name].(*ast.CompositeLit); ok {
						return big.NewInt(int64(len(cl.Elts))), nil
					}
				}
				return nil, fmt.Errorf("len of non-constant")
			}
			switch id.Name {
			case "int", "int8", "int16", "int32", "int64", "uint", "uint8", "uint16", "uint32", "uint64", "byte", "rune", "uintptr":
				return Eval(x.Args[0], env, depth+1)
			}
		}
	case *ast.UnaryExpr:
		v, err := Eval(x.X, env, depth+1)
		if err != nil {
			return nil, err
		}
		switch x.Op {
		case token.SUB:
			return new(big.Int).Neg(v), nil
		case token.ADD:
			return v, nil
		case token.XOR:
			return new(big.Int).Not(v), nil
		}
	case *ast.BinaryExpr:
		a, err := Eval(x.X, env, depth+1)
		if err != nil {
			return nil, err
		}
		b, err := Eval(x.Y, env, depth+1)
		if err != nil {
			return nil, err
		}
		r := new(big.Int)
		switch x.Op {
		case token.ADD:
			return r.Add(a, b), nil
		case token.SUB:
			return r.Sub(a, b), nil
		case token.MUL:
			return r.Mul(a, b), nil
		case token.QUO:
			if b.Sign() == 0 {
				return nil, fmt.Errorf("division by zero")
			}
			return r.Quo(a, b), nil
		case token.REM:
			if b.Sign() == 0 {
				return nil, fmt.Errorf("division by zero")
			}
			return r.Rem(a, b), nil
		case token.SHL:
			return r.Lsh(a, uint(b.Int64())), nil
		case token.SHR:
			return r.Rsh(a, uint(b.Int64())), nil
		case token.AND:
			return r.And(a, b), nil
		case token.OR:
			return r.Or(a, b), nil
		case token.XOR:
			return r.Xor(a, b), nil
		case token.AND_NOT:
			return r.AndNot(a, b), nil
		}
	}
	return nil, fmt.Errorf("cannot evaluate constant expression %T", e)
}

// EvalString evaluates a string constant expression (literals, named constants, +).
func EvalString(e ast.Expr, env map[string]ast.Expr, depth int) (string, error) {
	if depth > 50 {
		return "", fmt.Errorf("too deep")
	}
	switch x := e.(type) {
	case *ast.BasicLit:
		if x.Kind == token.STRING {
			return strconv.Unquote(x.Value)
		}
	case *ast.Ident:
		if d, ok := env[x.Name]; ok {
			return EvalString(d, env, depth+1)
		}
	case *ast.ParenExpr:
		return EvalString(x.X, env, depth+1)
	case *ast.BinaryExpr:
		if x.Op == token.ADD {
			a, err := EvalString(x.X, env, depth+1)
			if err != nil {
				return "", err
			}
			b, err := EvalString(x.Y, env, depth+1)
			if err != nil {
				return "", err
			}
			return a + b, nil
		}
	case *ast.CallExpr: // []byte("...") / string(...)
		if len(x.Args) == 1 {
			return EvalString(x.Args[0], env, depth+1)
		}
	}
	return "", fmt.Errorf("cannot evaluate string expression %T", e)
}

// Pkg gives access to the constants of one package directory.
type Pkg struct {
	Fset  *token.FileSet
	Files []*ast.File
	Env   map[string]ast.Expr
}

func Load(repo, dir string) (*Pkg, error) {
	fset, files, err := ParseDir(repo, dir)
	if err != nil {
		return nil, err
	}
	return &Pkg{fset, files, constDecls(files)}, nil
}
func (p *Pkg) Int(name string) (*big.Int, error) {
	d, ok := p.Env[name]
	if !ok {
		return nil, fmt.Errorf("constant %s not found", name)
	}
	return Eval(d, p.Env, 0)
}
func (p *Pkg) Str(name string) (string, error) {
	d, ok := p.Env[name]
	if !ok {
		return "", fmt.Errorf("constant %s not found", name)
	}
	return EvalString(d, p.Env, 0)
}

// Func returns the declaration of a function or method ("Recv.Name" or "Name").
func (p *Pkg) Func(name string) *ast.FuncDecl {
	for _, f := range p.Files {
		for _, d := range f.Decls {
			fd, ok := d.(*ast.FuncDecl)
			if !ok {
				continue
			}
			n := fd.Name.Name
			if fd.Recv != nil && len(fd.Recv.List) == 1 {
				t := fd.Recv.List[0].Type
				if s, ok := t.(*ast.StarExpr); ok {
					t = s.X
				}
				if ix, ok := t.(*ast.IndexExpr); ok {
					t = ix.X
				}
				if ix, ok := t.(*ast.IndexListExpr); ok {
					t = ix.X
				}
				if id, ok := t.(*ast.Ident); ok {
					n = id.Name + "." + n
				}
			}
			if n == name {
				return fd
			}
		}
	}
	return nil
}

// IntLits lists every integer literal (and evaluable constant operand) appearing in a function body, in source order.
func (p *Pkg) IntLits(fd *ast.FuncDecl) []*big.Int {
	var out []*big.Int
	ast.Inspect(fd.Body, func(n ast.Node) bool {
		if bl, ok := n.(*ast.BasicLit); ok && bl.Kind == token.INT {
			v, _ := new(big.Int).SetString(strings.ReplaceAll(bl.Value, "_", ""), 0)
			out = append(out, v)
		}
		return true
	})
	return out
}

func CoqZ(name string, v *big.Int) string {
	if v.Sign() < 0 {
		return fmt.Sprintf("Definition %s : Z := (%s)%%Z.\n", name, v.String())
	}
	return fmt.Sprintf("Definition %s : Z := %s%%Z.\n", name, v.String())
}
func CoqZList(name string, vs []int64) string {
	s := make([]string, len(vs))
	for i, v := range vs {
		if v < 0 {
			s[i] = fmt.Sprintf("(%d)", v)
		} else {
			s[i] = fmt.Sprint(v)
		}
	}
	return fmt.Sprintf("Definition %s : list Z := [%s]%%Z.\n", name, strings.Join(s, "; "))
}
func CoqBytes(name string, b []byte) string {
	vs := make([]int64, len(b))
	for i, x := range b {
		vs[i] = int64(x)
	}
	return CoqZList(name, vs)
}

// runArea calls one extractor; a panic inside it is a failure like any other
func runArea(a Area, repo string) (body string, err error) {
	defer func() {
		if r := recover(); r != nil {
			err = fmt.Errorf("extractor panicked: %v", r)
		}
	}()
	return a.Gen(repo)
}

// gen REPO OUTDIR [STATUS.json] [-update-defaults]
//
// Every area is regenerated from the Go sources of REPO.  An area whose extractor no longer understands the shape of the
// source does NOT stop the run: the last validated output (gen/defaults/<Area>.v, committed; produced from the pristine
// tree with -update-defaults) is installed instead and the area is reported as degraded in STATUS.json.  The model then is
// "written by hand" as far as that area is concerned and the correspondence run alone ties it to the code.
func main() {
	if len(os.Args) < 3 {
		fmt.Fprintln(os.Stderr, "usage: gen REPO OUTDIR [STATUS.json] [-update-defaults]")
		os.Exit(2)
	}
	repo, out := os.Args[1], os.Args[2]
	status, update := "", false
	for _, a := range os.Args[3:] {
		if a == "-update-defaults" {
			update = true
		} else {
			status = a
		}
	}
	exe, _ := os.Executable()
	defaults := filepath.Join(filepath.Dir(filepath.Dir(exe)), "gen", "defaults")
	if d := os.Getenv("GEN_DEFAULTS"); d != "" {
		defaults = d
	}
	os.MkdirAll(out, 0755)
	sort.Slice(areas, func(i, j int) bool { return areas[i].Name < areas[j].Name })
	type st struct {
		Ok    bool   `json:"ok"`
		Error string `json:"error,omitempty"`
	}
	stat := map[string]st{}
	rc := 0
	forced := map[string]bool{} // areas whose generated Coq was rejected by coqc in this run (bin/check sets GEN_FORCE_DEFAULT)
	for _, n := range strings.Split(os.Getenv("GEN_FORCE_DEFAULT"), ",") {
		if n != "" {
			forced[n] = true
		}
	}
	for _, a := range areas {
		body, err := runArea(a, repo)
		if err == nil && forced[a.Name] {
			err = fmt.Errorf("the Coq text generated from the current source does not type-check (outside what the translator handles soundly)")
		}
		path := filepath.Join(out, a.Name+".v")
		var text string
		if err != nil {
			fmt.Fprintf(os.Stderr, "gen %s: %v\n", a.Name, err)
			def, derr := os.ReadFile(filepath.Join(defaults, a.Name+".v"))
			if derr != nil {
				stat[a.Name] = st{false, err.Error() + " (and no default output: " + derr.Error() + ")"}
				rc = 1
				continue
			}
			stat[a.Name] = st{false, err.Error()}
			text = string(def)
		} else {
			stat[a.Name] = st{Ok: true}
			text = "(* GENERATED by gen/ from the Go sources on every run. Do not edit. *)\nFrom Coq Require Import List ZArith.\nImport ListNotations.\n" + body
			if update {
				os.MkdirAll(defaults, 0755)
				os.WriteFile(filepath.Join(defaults, a.Name+".v"), []byte(text), 0644)
			}
		}
		old, _ := os.ReadFile(path)
		if string(old) != text {
			os.WriteFile(path, []byte(text), 0644)
		}
	}
	if status != "" {
		b, _ := json.MarshalIndent(stat, "", " ")
		os.WriteFile(status, b, 0644)
	}
	os.Exit(rc)
}
