// go2v extension [ext:T09] (added for the area CryptCode, C09; usable by any area).  Everything here is reached through
// one-line hooks marked `[ext:T09]` in trans.go / trans_expr.go / trans_ext08.go; an area that leaves TransSpec.T09 at its
// zero value translates exactly as before.  The extension builds on [ext:T08] (foreign calls as a Record) and adds what
// cryptz/crypt.go needs on top of cryptz/aes.go:
//
//	T09.CapLocals     CAPACITY of a scratch buffer.  The core models cap = len, so `buf := make([]byte, 0, c)` followed by
//	                  `buf = buf[:n]` (legal Go: n <= cap) is a panic in the model.  With CapLocals a local variable declared
//	                  `v := make([]T, n, c)` is normalised IN THE SOURCE (Go -> Go, before type checking) into its backing
//	                  array and an explicit length:
//	                      v := make([]T, n, c)   =>  v_len9 := n; v := make([]T, c); if v_len9 < 0 || v_len9 > len(v) { panic }
//	                      v = v[:e]              =>  v_hi9_k := e; if v_hi9_k < 0 || v_hi9_k > len(v) { panic }; v_len9 = v_hi9_k
//	                      len(v) / cap(v)        =>  v_len9 / len(v)
//	                      copy(v, x)             =>  copy(v[:v_len9], x)        copy(v[a:], x) => copy(v[a:v_len9], x)
//	                      copy(v[a:b], x)        =>  unchanged (b <= cap is legal in Go as well)
//	                      f(.., v, ..), copy(x, v)  =>  v[:v_len9]              (x, v[a:]) => v[a:v_len9]
//	                  The two programs are equal as Go programs (make zeroes the whole backing array; the slice header handed
//	                  to callees is the same).  Any other use of v (v[i], append, v = other, return v, &v, w := v, a second
//	                  declaration of the name) is refused.
//	T09.ForeignVars   package-level variables of foreign packages ("rand.Reader") whose type is an opaque type of the Record:
//	                  a field `rand_Reader : io_Reader` of `Record Foreign`.  Read only.
//	T09.SelfForeign   TransSpec.Foreign may list functions of the translated package itself ("cryptz.AESCBCEncrypt"): they
//	                  are then NOT translated here (another area does that) but called through the Record, like a library
//	                  function — the way the hand model of C09 takes the AES layer of C08 as given.
//	T09.Identity      functions of OTHER packages that are the identity on byte sequences (strz.UnsafeStrOrBytesToBytes:
//	                  the unsafe cast; the body is never looked at: trusted).
//	written `v[a:]`   a written argument of a foreign function may be `v[a:]`: the callee receives the buffer behind a
//	                  (`m_slice v a (zlen v)`, with cap = len everything it can reach) and its length; v becomes
//	                  `firstn a v ++ <new buffer>`.
//	T09.DeadAlias     a written argument of a foreign call may share its array with other variables when every such
//	                  variable is DEAD behind the call (never mentioned again; the call is not inside a loop).  The other
//	                  arguments of the call are passed by value (their content before the call, as in [ext:T08]).  What
//	                  is lost: if one of the dead aliases is a slice PARAMETER, the caller's array changes and the
//	                  translation does not say so (the generated function returns its results only).
package main

import (
	"fmt"
	"go/ast"
	"go/token"
	"go/types"
	"strconv"
	"strings"
)

type T09Spec struct {
	CapLocals   bool
	ForeignVars []string
	SelfForeign bool
	Identity    []string
	DeadAlias   bool
}

func (s T09Spec) on() bool {
	return s.CapLocals || len(s.ForeignVars) > 0 || s.SelfForeign || len(s.Identity) > 0 || s.DeadAlias
}

type fvar09 struct {
	field string
	obj   *types.Var
	ty    gtype
}

// ---- source normalisation: capacity-tracked locals ----------------------------------------------------------------

// rewrite09 is called between parsing and type checking.
func rewrite09(p *Pkg, spec TransSpec) {
	if !spec.T09.CapLocals {
		return
	}
	for _, f := range p.Files {
		for _, d := range f.Decls {
			if fd, ok := d.(*ast.FuncDecl); ok && fd.Body != nil {
				capLocals09(p.Fset, f, fd)
			}
		}
	}
}

func isMake3(e ast.Expr) *ast.CallExpr {
	c, ok := e.(*ast.CallExpr)
	if !ok || len(c.Args) != 3 {
		return nil
	}
	if id, ok := c.Fun.(*ast.Ident); !ok || id.Name != "make" {
		return nil
	}
	return c
}

func fail09(fset *token.FileSet, n ast.Node, format string, args ...interface{}) {
	p := fset.Position(n.Pos())
	panic(unsupported{fmt.Sprintf("unsupported: %s at %s:%d", fmt.Sprintf(format, args...), p.Filename, p.Line)})
}

func capLocals09(fset *token.FileSet, file *ast.File, fd *ast.FuncDecl) {
	// the variables: `v := make([]T, n, c)` as a statement of its own
	vars := map[string]bool{}
	ast.Inspect(fd.Body, func(n ast.Node) bool {
		if as, ok := n.(*ast.AssignStmt); ok && as.Tok == token.DEFINE && len(as.Lhs) == 1 && len(as.Rhs) == 1 {
			if id, ok := as.Lhs[0].(*ast.Ident); ok && isMake3(as.Rhs[0]) != nil {
				vars[id.Name] = true
			}
		}
		return true
	})
	if len(vars) == 0 {
		return
	}
	// fresh names must be fresh in the whole file
	names := map[string]bool{}
	ast.Inspect(file, func(n ast.Node) bool {
		if id, ok := n.(*ast.Ident); ok {
			names[id.Name] = true
		}
		return true
	})
	for v := range vars {
		for n := range names {
			if n == v+"_len9" || strings.HasPrefix(n, v+"_hi9_") {
				fail09(fset, fd, "the name %s is taken (capacity tracking of %s)", n, v)
			}
		}
		// the name is declared once: not a parameter / result, no second := / var
		decls := 0
		ast.Inspect(fd, func(n ast.Node) bool {
			switch x := n.(type) {
			case *ast.Field:
				for _, id := range x.Names {
					if id.Name == v {
						decls += 2
					}
				}
			case *ast.AssignStmt:
				if x.Tok == token.DEFINE {
					for _, l := range x.Lhs {
						if id, ok := l.(*ast.Ident); ok && id.Name == v {
							decls++
						}
					}
				}
			case *ast.ValueSpec:
				for _, id := range x.Names {
					if id.Name == v {
						decls += 2
					}
				}
			case *ast.RangeStmt:
				for _, e := range []ast.Expr{x.Key, x.Value} {
					if id, ok := e.(*ast.Ident); ok && id.Name == v {
						decls += 2
					}
				}
			case *ast.FuncLit:
				decls += 2
			}
			return true
		})
		if decls != 1 {
			fail09(fset, fd, "slice %s made with a capacity: the name is declared more than once in %s", v, fd.Name.Name)
		}
	}
	r := &capRw09{fset: fset, vars: vars, ok: map[*ast.Ident]bool{}}
	r.block(fd.Body)
	// every remaining mention of a tracked variable must be one the rewriting produced / accepted
	ast.Inspect(fd.Body, func(n ast.Node) bool {
		if id, ok := n.(*ast.Ident); ok && vars[id.Name] && !r.ok[id] {
			fail09(fset, id, "use of the slice %s, which was made with a capacity (only v = v[:e], len, cap, copy, passing it on)", id.Name)
		}
		return true
	})
}

type capRw09 struct {
	fset *token.FileSet
	vars map[string]bool
	ok   map[*ast.Ident]bool // mentions of tracked variables that are accounted for
	n    int
}

func (r *capRw09) isVar(e ast.Expr) (*ast.Ident, bool) {
	id, ok := e.(*ast.Ident)
	if ok && r.vars[id.Name] {
		return id, true
	}
	return nil, false
}

func id09(pos token.Pos, name string) *ast.Ident { return &ast.Ident{NamePos: pos, Name: name} }

func (r *capRw09) mention(pos token.Pos, name string) *ast.Ident {
	id := id09(pos, name)
	r.ok[id] = true
	return id
}

func lit09(pos token.Pos, v string) *ast.BasicLit {
	return &ast.BasicLit{ValuePos: pos, Kind: token.INT, Value: v}
}

// rangeCheck09: if x < 0 || x > len(v) { panic("...") }
func (r *capRw09) rangeCheck(pos token.Pos, x, v, msg string) ast.Stmt {
	lenV := &ast.CallExpr{Fun: id09(pos, "len"), Lparen: pos, Args: []ast.Expr{r.mention(pos, v)}, Rparen: pos}
	cond := &ast.BinaryExpr{
		X:     &ast.BinaryExpr{X: id09(pos, x), OpPos: pos, Op: token.LSS, Y: lit09(pos, "0")},
		OpPos: pos, Op: token.LOR,
		Y: &ast.BinaryExpr{X: id09(pos, x), OpPos: pos, Op: token.GTR, Y: lenV},
	}
	pan := &ast.ExprStmt{X: &ast.CallExpr{Fun: id09(pos, "panic"), Lparen: pos,
		Args: []ast.Expr{&ast.BasicLit{ValuePos: pos, Kind: token.STRING, Value: fmt.Sprintf("%q", msg)}}, Rparen: pos}}
	return &ast.IfStmt{If: pos, Cond: cond, Body: &ast.BlockStmt{Lbrace: pos, List: []ast.Stmt{pan}, Rbrace: pos}}
}

// view: v[:v_len9]
func (r *capRw09) view(id *ast.Ident) ast.Expr {
	r.ok[id] = true
	return &ast.SliceExpr{X: id, Lbrack: id.End(), High: id09(id.End(), id.Name+"_len9"), Rbrack: id.End()}
}

// expr rewrites an expression in place (returns the replacement).
func (r *capRw09) expr(e ast.Expr) ast.Expr {
	switch x := e.(type) {
	case nil:
		return nil
	case *ast.ParenExpr:
		x.X = r.expr(x.X)
	case *ast.BinaryExpr:
		x.X, x.Y = r.expr(x.X), r.expr(x.Y)
	case *ast.UnaryExpr:
		if x.Op == token.AND {
			return x // &v: left as a plain mention -> refused
		}
		x.X = r.expr(x.X)
	case *ast.StarExpr:
		x.X = r.expr(x.X)
	case *ast.SelectorExpr:
		x.X = r.expr(x.X)
	case *ast.IndexExpr:
		if _, ok := r.isVar(x.X); ok {
			return x // v[i]: refused
		}
		x.X, x.Index = r.expr(x.X), r.expr(x.Index)
	case *ast.SliceExpr:
		if id, ok := r.isVar(x.X); ok && !x.Slice3 { // only reached as an argument: v[a:] -> v[a:v_len9]; v[a:b] unchanged
			r.ok[id] = true
			x.Low, x.High = r.expr(x.Low), r.expr(x.High)
			if x.High == nil {
				x.High = id09(x.Rbrack, id.Name+"_len9")
			}
			return x
		}
		x.X, x.Low, x.High, x.Max = r.expr(x.X), r.expr(x.Low), r.expr(x.High), r.expr(x.Max)
	case *ast.CompositeLit:
		for i := range x.Elts {
			x.Elts[i] = r.expr(x.Elts[i])
		}
	case *ast.KeyValueExpr:
		x.Value = r.expr(x.Value)
	case *ast.CallExpr:
		if fn, ok := x.Fun.(*ast.Ident); ok && len(x.Args) == 1 && (fn.Name == "len" || fn.Name == "cap") {
			if id, ok := r.isVar(x.Args[0]); ok {
				if fn.Name == "len" {
					return id09(x.Pos(), id.Name+"_len9")
				}
				r.ok[id] = true
				return &ast.CallExpr{Fun: id09(x.Pos(), "len"), Lparen: x.Lparen, Args: []ast.Expr{id}, Rparen: x.Rparen}
			}
		}
		if fn, ok := x.Fun.(*ast.Ident); ok && (fn.Name == "append" || fn.Name == "make" || fn.Name == "new") {
			for i := range x.Args {
				if _, ok := r.isVar(x.Args[i]); !ok { // append(v, ..) stays a plain mention -> refused
					x.Args[i] = r.expr(x.Args[i])
				}
			}
			return x
		}
		x.Fun = r.expr(x.Fun)
		for i := range x.Args {
			if id, ok := r.isVar(x.Args[i]); ok {
				x.Args[i] = r.view(id)
			} else {
				x.Args[i] = r.expr(x.Args[i])
			}
		}
	}
	return e
}

func (r *capRw09) block(b *ast.BlockStmt) {
	if b != nil {
		b.List = r.list(b.List)
	}
}

func (r *capRw09) list(in []ast.Stmt) []ast.Stmt {
	var out []ast.Stmt
	for _, s := range in {
		out = append(out, r.stmt(s)...)
	}
	return out
}

func (r *capRw09) stmt(s ast.Stmt) []ast.Stmt {
	switch x := s.(type) {
	case *ast.AssignStmt:
		if len(x.Lhs) == 1 && len(x.Rhs) == 1 {
			if id, ok := r.isVar(x.Lhs[0]); ok {
				pos := x.Pos()
				if mk := isMake3(x.Rhs[0]); mk != nil && x.Tok == token.DEFINE { // v := make([]T, n, c)
					n, c := r.expr(mk.Args[1]), r.expr(mk.Args[2])
					r.ok[id] = true
					ln := id.Name + "_len9"
					mk.Args = []ast.Expr{mk.Args[0], c}
					out := []ast.Stmt{
						&ast.AssignStmt{Lhs: []ast.Expr{id09(pos, ln)}, TokPos: pos, Tok: token.DEFINE, Rhs: []ast.Expr{n}},
						x,
					}
					if l, isLit := n.(*ast.BasicLit); !(isLit && l.Value == "0") {
						out = append(out, r.rangeCheck(pos, ln, id.Name, "makeslice: len out of range"))
					}
					return out
				}
				if se, isSl := x.Rhs[0].(*ast.SliceExpr); isSl && x.Tok == token.ASSIGN && !se.Slice3 && se.Low == nil && se.High != nil {
					if id2, ok := r.isVar(se.X); ok && id2.Name == id.Name { // v = v[:e]
						r.n++
						hi := fmt.Sprintf("%s_hi9_%d", id.Name, r.n)
						return []ast.Stmt{
							&ast.AssignStmt{Lhs: []ast.Expr{id09(pos, hi)}, TokPos: pos, Tok: token.DEFINE, Rhs: []ast.Expr{r.expr(se.High)}},
							r.rangeCheck(pos, hi, id.Name, "slice bounds out of range"),
							&ast.AssignStmt{Lhs: []ast.Expr{id09(pos, id.Name+"_len9")}, TokPos: pos, Tok: token.ASSIGN, Rhs: []ast.Expr{id09(pos, hi)}},
						}
					}
				}
				return []ast.Stmt{s} // any other assignment to v: the mention stays unaccounted -> refused
			}
		}
		for i := range x.Rhs {
			x.Rhs[i] = r.expr(x.Rhs[i])
		}
		for i := range x.Lhs {
			if _, ok := x.Lhs[i].(*ast.Ident); !ok {
				x.Lhs[i] = r.expr(x.Lhs[i])
			}
		}
	case *ast.ExprStmt:
		if c, ok := x.X.(*ast.CallExpr); ok {
			if fn, ok := c.Fun.(*ast.Ident); ok && fn.Name == "copy" && len(c.Args) == 2 {
				r.copyArgs(c)
				return []ast.Stmt{s}
			}
		}
		x.X = r.expr(x.X)
	case *ast.DeclStmt:
		if g, ok := x.Decl.(*ast.GenDecl); ok {
			for _, sp := range g.Specs {
				if vs, ok := sp.(*ast.ValueSpec); ok {
					for i := range vs.Values {
						vs.Values[i] = r.expr(vs.Values[i])
					}
				}
			}
		}
	case *ast.IncDecStmt:
		x.X = r.expr(x.X)
	case *ast.ReturnStmt:
		for i := range x.Results {
			if _, ok := r.isVar(x.Results[i]); !ok {
				x.Results[i] = r.expr(x.Results[i])
			}
		}
	case *ast.BlockStmt:
		r.block(x)
	case *ast.IfStmt:
		if x.Init != nil {
			x.Init = r.one(x.Init)
		}
		x.Cond = r.expr(x.Cond)
		r.block(x.Body)
		if x.Else != nil {
			x.Else = r.one(x.Else)
		}
	case *ast.ForStmt:
		if x.Init != nil {
			x.Init = r.one(x.Init)
		}
		x.Cond = r.expr(x.Cond)
		if x.Post != nil {
			x.Post = r.one(x.Post)
		}
		r.block(x.Body)
	case *ast.RangeStmt:
		if _, ok := r.isVar(x.X); !ok {
			x.X = r.expr(x.X)
		}
		r.block(x.Body)
	case *ast.SwitchStmt:
		if x.Init != nil {
			x.Init = r.one(x.Init)
		}
		x.Tag = r.expr(x.Tag)
		for _, cc := range x.Body.List {
			if c, ok := cc.(*ast.CaseClause); ok {
				for i := range c.List {
					c.List[i] = r.expr(c.List[i])
				}
				c.Body = r.list(c.Body)
			}
		}
	case *ast.LabeledStmt:
		x.Stmt = r.one(x.Stmt)
	}
	return []ast.Stmt{s}
}

// one: a statement position that cannot hold several statements (a rewriting that needs more is wrapped in a block, which
// is only legal for else-branches and labelled statements; an init / post statement that would need it is refused).
func (r *capRw09) one(s ast.Stmt) ast.Stmt {
	out := r.stmt(s)
	if len(out) == 1 {
		return out[0]
	}
	fail09(r.fset, s, "a slice made with a capacity is resliced in an init / post / else position")
	return s
}

// copyArgs: copy(v, x) => copy(v[:v_len9], x); copy(v[a:], x) => copy(v[a:v_len9], x); a source v => v[:v_len9]
func (r *capRw09) copyArgs(c *ast.CallExpr) {
	for i := range c.Args {
		if id, ok := r.isVar(c.Args[i]); ok {
			c.Args[i] = r.view(id)
		} else {
			c.Args[i] = r.expr(c.Args[i])
		}
	}
}

// ---- setup, Record fields -------------------------------------------------------------------------------------------

type ext09 struct {
	spec09  T09Spec
	fvars09 []*fvar09
	ident09 map[*types.Func]bool
}

// selfPkg09: TransSpec.Foreign may name functions of the translated package.
func (t *Translator) selfPkg09(name string) *types.Package {
	if t.spec09.SelfForeign && t.tpkg != nil && t.tpkg.Name() == name {
		return t.tpkg
	}
	return nil
}

// setup09 runs after setup08 (the opaque types are registered).
func (t *Translator) setup09(spec TransSpec) {
	t.spec09 = spec.T09
	t.ident09 = map[*types.Func]bool{}
	if !spec.T09.on() {
		return
	}
	lookup := func(q string) types.Object {
		parts := strings.Split(q, ".")
		if len(parts) != 2 || cur08 == nil || cur08.byName[parts[0]] == nil {
			t.fail(nil, "%s: want pkg.Name of an imported package with a stub (or of the module)", q)
		}
		o := cur08.byName[parts[0]].Scope().Lookup(parts[1])
		if o == nil {
			t.fail(nil, "%s not found in package %s", q, parts[0])
		}
		return o
	}
	for _, q := range spec.T09.ForeignVars {
		v, ok := lookup(q).(*types.Var)
		if !ok {
			t.fail(nil, "%s is not a variable", q)
		}
		g := t.typeOf(v.Type(), nil)
		if g.k != kOpaque {
			t.fail(nil, "foreign variable %s: its type is not an opaque type of a listed foreign function", q)
		}
		f := &fvar09{field: coqIdent08(q), obj: v, ty: g}
		t.fvars09 = append(t.fvars09, f)
		t.global[f.field] = true
	}
	for _, q := range spec.T09.Identity {
		fn, ok := lookup(q).(*types.Func)
		if !ok {
			t.fail(nil, "%s is not a function", q)
		}
		sig := fn.Type().(*types.Signature)
		if sig.Params().Len() != 1 || sig.Results().Len() != 1 {
			t.fail(nil, "identity function %s: want one parameter and one result", q)
		}
		t.ident09[fn] = true
	}
}

// recordVars09: the fields for foreign variables (after the opaque types, before the functions).
func (t *Translator) recordVars09(b *strings.Builder) []string {
	var names []string
	for _, f := range t.fvars09 {
		fmt.Fprintf(b, "  %s : %s;   (* var %s.%s *)\n", f.field, recType08(f.ty), f.obj.Pkg().Name(), f.obj.Name())
		names = append(names, f.field)
	}
	return names
}

// selector09: a read of a listed foreign variable.
func (c *fctx) selector09(x *ast.SelectorExpr) (string, bool) {
	v, ok := c.t.info.Uses[x.Sel].(*types.Var)
	if !ok {
		return "", false
	}
	for _, f := range c.t.fvars09 {
		if f.obj == v {
			return "(" + f.field + " ext')", true
		}
	}
	return "", false
}

// usesForeignVar09: the function needs `ext'`.
func (t *Translator) usesForeignVar09(fi *funcInfo) bool {
	if len(t.fvars09) == 0 || fi.decl.Body == nil {
		return false
	}
	found := false
	ast.Inspect(fi.decl.Body, func(n ast.Node) bool {
		if id, ok := n.(*ast.Ident); ok {
			if v, ok := t.info.Uses[id].(*types.Var); ok {
				for _, f := range t.fvars09 {
					if f.obj == v {
						found = true
					}
				}
			}
		}
		return !found
	})
	return found
}

// ---- functions of the translated package called through the Record -------------------------------------------------------

func (t *Translator) selfForeign09(x *ast.CallExpr) *foreignInfo {
	if t.x08 == nil || !t.spec09.SelfForeign {
		return nil
	}
	fun := ast.Unparen(x.Fun)
	if ix, ok := fun.(*ast.IndexExpr); ok {
		fun = ix.X
	}
	if ix, ok := fun.(*ast.IndexListExpr); ok {
		fun = ix.X
	}
	id, ok := fun.(*ast.Ident)
	if !ok {
		return nil
	}
	fn, ok := t.info.Uses[id].(*types.Func)
	if !ok {
		return nil
	}
	return t.x08.byObj[fn.Origin()]
}

// call09: identity functions of other packages; functions of the package that the area lists as foreign.
func (c *fctx) call09(x *ast.CallExpr, en *env, k func([]string) string) (string, bool) {
	t := c.t
	if sel, ok := ast.Unparen(x.Fun).(*ast.SelectorExpr); ok && len(t.ident09) > 0 {
		if fn, ok := t.info.Uses[sel.Sel].(*types.Func); ok && t.ident09[fn.Origin()] {
			if len(x.Args) != 1 {
				t.fail(x, "call of the identity function %s", fn.Name())
			}
			if g := t.exprType(x.Args[0]); g.k != kSlice || g.elem != nil || g.nest {
				t.fail(x, "argument of the identity function %s is not a byte sequence", fn.Name())
			}
			return c.expr(x.Args[0], en, func(v string) string { return k([]string{v}) }), true
		}
	}
	if fo := t.selfForeign09(x); fo != nil {
		return c.foreignApply08(fo, nil, x, en, k), true
	}
	return "", false
}

// identSource09: the value of an identity call shares its array with the argument.
func (t *Translator) identArg09(x *ast.CallExpr) ast.Expr {
	if len(t.ident09) == 0 {
		return nil
	}
	if sel, ok := ast.Unparen(x.Fun).(*ast.SelectorExpr); ok {
		if fn, ok := t.info.Uses[sel.Sel].(*types.Func); ok && t.ident09[fn.Origin()] && len(x.Args) == 1 {
			return x.Args[0]
		}
	}
	return nil
}

// ---- written argument v[a:] ------------------------------------------------------------------------------------------------

// writeBase09: `v[a:]` with v a variable or a field.
func (c *fctx) writeBase09(arg ast.Expr) (base ast.Expr, low ast.Expr, ok bool) {
	if !c.t.spec09.on() {
		return nil, nil, false
	}
	se, isSl := ast.Unparen(arg).(*ast.SliceExpr)
	if !isSl || se.Slice3 || se.Low == nil || se.High != nil {
		return nil, nil, false
	}
	base = ast.Unparen(se.X)
	switch base.(type) {
	case *ast.Ident, *ast.SelectorExpr:
		return base, se.Low, true
	}
	return nil, nil, false
}

// subWrite09: b = the value of v; k receives the buffer handed over, its length and the format of v's new value.
func (c *fctx) subWrite09(b string, low ast.Expr, en *env, k func(buf, n, wrap string) string) string {
	return c.expr(low, en, func(l string) string {
		lo, s := c.fresh("lo"), c.fresh("s")
		return fmt.Sprintf("let %s := %s in\ndo %s <- m_slice %s %s (zlen %s);;\n%s", lo, l, s, b, lo, b,
			k(s, "(zlen "+s+")", "(firstn (Z.to_nat "+lo+") "+b+" ++ %s)"))
	})
}

// ---- dead aliases ----------------------------------------------------------------------------------------------------------

// deadAlias09: the written argument `key` of the foreign call x may share its array, but only with variables that are
// never mentioned behind the call.
func (c *fctx) deadAlias09(key string, en *env, x *ast.CallExpr) bool {
	if !c.t.spec09.DeadAlias || key == "" || !en.shared[key] || c.fi.decl.Body == nil {
		return false
	}
	inLoop := false
	var stack []ast.Node
	ast.Inspect(c.fi.decl.Body, func(n ast.Node) bool {
		if n == nil {
			stack = stack[:len(stack)-1]
			return true
		}
		if n == ast.Node(x) {
			for _, a := range stack {
				switch a.(type) {
				case *ast.ForStmt, *ast.RangeStmt:
					inLoop = true
				}
			}
		}
		stack = append(stack, n)
		return true
	})
	if inLoop {
		return false
	}
	for k := range en.shared {
		if k == key {
			continue
		}
		var obj types.Object
		for i := len(en.vars) - 1; i >= 0; i-- {
			if en.vars[i].name == k {
				obj = en.vars[i].obj
				break
			}
		}
		if obj == nil {
			return false
		}
		live := false
		ast.Inspect(c.fi.decl.Body, func(n ast.Node) bool {
			if id, ok := n.(*ast.Ident); ok && id.Pos() >= x.End() && (c.t.info.Uses[id] == obj || c.t.info.Defs[id] == obj) {
				live = true
			}
			return !live
		})
		if live {
			return false
		}
	}
	return true
}

// begin09: before type checking.
func (t *Translator) begin09(p *Pkg, spec TransSpec) {
	t.spec09 = spec.T09
	if spec.T09.on() {
		byteStrings09(p)
	}
	rewrite09(p, spec)
}

func (t *Translator) isSelfForeign09(fn *types.Func) bool {
	return t.x08 != nil && t.spec09.SelfForeign && t.x08.byObj[fn] != nil
}

// writesForeign09: with TransSpec.InPlace a slice parameter that is handed to a writing foreign function is written in place.
func (t *Translator) writesForeign09(x *ast.CallExpr, f func(e ast.Expr, call *ast.CallExpr)) {
	if !t.spec09.on() {
		return
	}
	if fo := t.foreignOf(x); fo != nil {
		for i, a := range x.Args {
			if fo.writes[i] {
				f(a, x)
			}
		}
	}
}

// byteStrings09: package-level `var x = []byte("literal")` => `var x = []byte{'l', 'i', ...}` (the same value; the table
// mechanism of [ext:T07] reads composite literals).
func byteStrings09(p *Pkg) {
	for _, f := range p.Files {
		for _, d := range f.Decls {
			g, ok := d.(*ast.GenDecl)
			if !ok || g.Tok != token.VAR {
				continue
			}
			for _, s := range g.Specs {
				vs := s.(*ast.ValueSpec)
				for i, v := range vs.Values {
					call, ok := v.(*ast.CallExpr)
					if !ok || len(call.Args) != 1 {
						continue
					}
					at, ok := call.Fun.(*ast.ArrayType)
					if !ok || at.Len != nil {
						continue
					}
					if el, ok := at.Elt.(*ast.Ident); !ok || (el.Name != "byte" && el.Name != "uint8") {
						continue
					}
					lit, ok := call.Args[0].(*ast.BasicLit)
					if !ok || lit.Kind != token.STRING {
						continue
					}
					str, err := strconv.Unquote(lit.Value)
					if err != nil {
						continue
					}
					cl := &ast.CompositeLit{Type: at, Lbrace: lit.Pos(), Rbrace: lit.End()}
					for _, b := range []byte(str) {
						cl.Elts = append(cl.Elts, lit09(lit.Pos(), fmt.Sprint(int(b))))
					}
					vs.Values[i] = cl
					if i < len(vs.Names) {
						p.Env[vs.Names[i].Name] = cl
					}
				}
			}
		}
	}
}

// foreignReadArg09: arg is an argument of the foreign call x that the callee does not write.
func (t *Translator) foreignReadArg09(x *ast.CallExpr, arg ast.Node) bool {
	if !t.spec09.on() {
		return false
	}
	if fo := t.foreignOf(x); fo != nil {
		for i, a := range x.Args {
			if ast.Node(a) == arg {
				return !fo.writes[i]
			}
		}
	}
	return false
}
