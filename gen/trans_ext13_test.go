// Self-test of the [ext13] front end (gen/trans_ext13.go) on the one file it was written for: the translation of the
// pristine listz/singly_list.go is the committed, Coq-validated default; a semantic edit of a loop condition still
// translates (the PROOF has to see it) and changes the text; a change of shape is refused (the area then degrades).
// There is no kernel-evaluated sample against native execution for this extension yet.
package main

import (
	"os"
	"path/filepath"
	"strings"
	"testing"
)

func slistRepo13(t *testing.T, edit func(string) string) string {
	src, err := os.ReadFile("/repo/listz/singly_list.go")
	if err != nil {
		t.Skip("no /repo")
	}
	dir := t.TempDir()
	os.MkdirAll(filepath.Join(dir, "listz"), 0755)
	text := edit(string(src))
	if text == string(src) && edit("x") != "x" {
		t.Fatal("the edit did not apply")
	}
	os.WriteFile(filepath.Join(dir, "listz", "singly_list.go"), []byte(text), 0644)
	return dir
}

func TestExt13Pristine(t *testing.T) {
	body, err := genSListCode(slistRepo13(t, func(s string) string { return s }))
	if err != nil {
		t.Fatal(err)
	}
	def, err := os.ReadFile("defaults/SListCode.v")
	if err != nil {
		t.Fatal(err)
	}
	// positions in comments are relative to the repository root, so the text is the same for a copy of the file
	if !strings.HasSuffix(string(def), body) {
		t.Errorf("the translation of the pristine file differs from gen/defaults/SListCode.v (run bin/gen --update-defaults after validating it)")
	}
	for _, w := range []string{"h_get (SNode_next h') e", "new_SNode h' v None", "ptr_eqb e (SList_tail l)", "while fuel"} {
		if !strings.Contains(body, w) {
			t.Errorf("missing %q", w)
		}
	}
}

func TestExt13Edits(t *testing.T) {
	pristine, _ := genSListCode(slistRepo13(t, func(s string) string { return s }))
	// semantic: translated, different text
	b, err := genSListCode(slistRepo13(t, func(s string) string {
		return strings.Replace(s, "index < i; index++ {\n\t\te = e.next", "index <= i; index++ {\n\t\te = e.next", 1)
	}))
	if err != nil || b == pristine || !strings.Contains(b, "(index <=? i)") {
		t.Errorf("index <= i: want a different translation, got err=%v", err)
	}
	b, err = genSListCode(slistRepo13(t, func(s string) string {
		return strings.Replace(s, "\tif e == l.tail {\n\t\tl.tail = before\n\t}\n", "", 1)
	}))
	if err != nil || b == pristine {
		t.Errorf("dropped tail update: want a different translation, got err=%v", err)
	}
	// shape: refused
	for name, ed := range map[string]func(string) string{
		"count-down loop": func(s string) string {
			return strings.Replace(s, "for index := 0; index < i; index++ {\n\t\te = e.next", "for steps := i; steps > 0; steps-- {\n\t\te = e.next", 1)
		},
		"renamed field": func(s string) string {
			return strings.ReplaceAll(strings.ReplaceAll(s, ".next", ".succ"), "\tnext  *SNode[T]", "\tsucc  *SNode[T]")
		},
		"break in a loop": func(s string) string {
			return strings.Replace(s, "\t\tbefore = before.next\n", "\t\tbefore = before.next\n\t\tif before == nil {\n\t\t\tbreak\n\t\t}\n", 1)
		},
		"receiver escapes": func(s string) string {
			return strings.Replace(s, "func (l *SList[T]) Len() int {\n\treturn l.len", "func (l *SList[T]) Len() int {\n\tm := l\n\treturn m.len", 1)
		},
	} {
		if _, err := genSListCode(slistRepo13(t, ed)); err == nil || !strings.Contains(err.Error(), "unsupported") {
			t.Errorf("%s: expected a refusal, got %v", name, err)
		} else {
			t.Logf("%s: %v", name, err)
		}
	}
}
