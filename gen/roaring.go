// gen area Roaring (C03): the numeric facts of setz/roaring_bitmap.go the Coq model depends on.
//
//	arr_max    the sparse/dense threshold     `len(ac.values) < 4096`        in arrayContainer.Add
//	conv_len   the hand-written cardinality   `newContainer.length = 4097`   in arrayContainer.Add
//	bmp_words  the dense container's words    `*(*[1024]uint64)(...)`        in arrayContainer.Add
//	buf_len    the scratch buffer             `buf [4096]uint16`             in RoaringBitmap
//	zero_words what setZero clears: `for i := 0; i < 1024; i += 32 { b.set[i+k] = 0 (k = 0..31) }`; accepted only when the
//	           offsets present cover 0..step-1 exactly (otherwise the model's "fresh zeroed bitmap" would be wrong)
//	key_shift  `num >> 16` in Add/Remove/Contains and `<<16` in Range/All/Value (all must agree)
//
// Every search is by shape; anything unexpected fails closed.
package main

import (
	"fmt"
	"go/ast"
	"go/token"
	"math/big"
	"sort"
)

func init() { Register(Area{Name: "Roaring", Gen: genRoaring}) }

func genRoaring(repo string) (string, error) {
	p, err := Load(repo, "setz")
	if err != nil {
		return "", err
	}
	// ---- buf [N]uint16 in struct RoaringBitmap
	var bufLen *big.Int
	for _, f := range p.Files {
		ast.Inspect(f, func(n ast.Node) bool {
			ts, ok := n.(*ast.TypeSpec)
			if !ok || ts.Name.Name != "RoaringBitmap" {
				return true
			}
			st, ok := ts.Type.(*ast.StructType)
			if !ok {
				return true
			}
			for _, fl := range st.Fields.List {
				for _, nm := range fl.Names {
					if nm.Name == "buf" {
						if at, ok := fl.Type.(*ast.ArrayType); ok && at.Len != nil {
							if v, e := Eval(at.Len, p.Env, 0); e == nil {
								bufLen = v
							}
						}
					}
				}
			}
			return false
		})
	}
	if bufLen == nil {
		return "", fmt.Errorf("RoaringBitmap.buf [N]uint16 not found")
	}
	// ---- arrayContainer.Add
	add := p.Func("arrayContainer.Add")
	if add == nil {
		return "", fmt.Errorf("arrayContainer.Add not found")
	}
	var arrMax, convLen, bmpWords []*big.Int
	var bad error
	ast.Inspect(add.Body, func(n ast.Node) bool {
		switch x := n.(type) {
		case *ast.BinaryExpr:
			// len(ac.values) < K   (only this comparison operator is accepted)
			if call, ok := x.X.(*ast.CallExpr); ok {
				if id, ok := call.Fun.(*ast.Ident); ok && id.Name == "len" && len(call.Args) == 1 {
					if sel, ok := call.Args[0].(*ast.SelectorExpr); ok && sel.Sel.Name == "values" {
						if v, e := Eval(x.Y, p.Env, 0); e == nil {
							if x.Op == token.LSS {
								arrMax = append(arrMax, v)
							} else if x.Op == token.LEQ {
								arrMax = append(arrMax, new(big.Int).Add(v, big.NewInt(1)))
							} else if x.Op != token.LAND && x.Op != token.EQL {
								bad = fmt.Errorf("arrayContainer.Add: unexpected comparison of len(ac.values) with operator %s", x.Op)
							}
						}
					}
				}
			}
		case *ast.AssignStmt:
			if len(x.Lhs) == 1 && len(x.Rhs) == 1 {
				if sel, ok := x.Lhs[0].(*ast.SelectorExpr); ok && sel.Sel.Name == "length" {
					if v, e := Eval(x.Rhs[0], p.Env, 0); e == nil {
						convLen = append(convLen, v)
					} else {
						bad = fmt.Errorf("arrayContainer.Add: .length is assigned a non-constant")
					}
				}
			}
		case *ast.ArrayType:
			if x.Len != nil {
				if id, ok := x.Elt.(*ast.Ident); ok && id.Name == "uint64" {
					if v, e := Eval(x.Len, p.Env, 0); e == nil {
						bmpWords = append(bmpWords, v)
					}
				}
			}
		}
		return true
	})
	if bad != nil {
		return "", bad
	}
	if len(arrMax) != 1 || len(convLen) != 1 || len(bmpWords) != 1 {
		return "", fmt.Errorf("arrayContainer.Add: expected one threshold, one length assignment, one [N]uint64; got %d, %d, %d", len(arrMax), len(convLen), len(bmpWords))
	}
	// ---- setZero coverage
	sz := p.Func("bitmapContainer.setZero")
	if sz == nil || len(sz.Body.List) != 1 {
		return "", fmt.Errorf("bitmapContainer.setZero: not found or not a single loop")
	}
	loop, ok := sz.Body.List[0].(*ast.ForStmt)
	if !ok {
		return "", fmt.Errorf("bitmapContainer.setZero: not a for loop")
	}
	var bound, step, start *big.Int
	if as, ok := loop.Init.(*ast.AssignStmt); ok && len(as.Rhs) == 1 {
		start, _ = Eval(as.Rhs[0], p.Env, 0)
	}
	if be, ok := loop.Cond.(*ast.BinaryExpr); ok && be.Op == token.LSS {
		bound, _ = Eval(be.Y, p.Env, 0)
	}
	switch post := loop.Post.(type) {
	case *ast.AssignStmt:
		if post.Tok == token.ADD_ASSIGN && len(post.Rhs) == 1 {
			step, _ = Eval(post.Rhs[0], p.Env, 0)
		}
	case *ast.IncDecStmt:
		if post.Tok == token.INC {
			step = big.NewInt(1)
		}
	}
	if bound == nil || step == nil || start == nil || start.Sign() != 0 || step.Sign() <= 0 {
		return "", fmt.Errorf("bitmapContainer.setZero: loop header not of the form i := 0; i < N; i += S")
	}
	offs := map[int64]bool{}
	for _, st := range loop.Body.List {
		as, ok := st.(*ast.AssignStmt)
		if !ok || len(as.Lhs) != 1 || len(as.Rhs) != 1 {
			return "", fmt.Errorf("bitmapContainer.setZero: unexpected statement in the loop")
		}
		if v, e := Eval(as.Rhs[0], p.Env, 0); e != nil || v.Sign() != 0 {
			return "", fmt.Errorf("bitmapContainer.setZero: assigns something other than 0")
		}
		ix, ok := as.Lhs[0].(*ast.IndexExpr)
		if !ok {
			return "", fmt.Errorf("bitmapContainer.setZero: assignment target is not an index expression")
		}
		switch e := ix.Index.(type) {
		case *ast.Ident:
			offs[0] = true
		case *ast.BinaryExpr:
			if _, ok := e.X.(*ast.Ident); !ok || e.Op != token.ADD {
				return "", fmt.Errorf("bitmapContainer.setZero: index is not i+k")
			}
			k, err := Eval(e.Y, p.Env, 0)
			if err != nil {
				return "", err
			}
			offs[k.Int64()] = true
		default:
			return "", fmt.Errorf("bitmapContainer.setZero: index is not i or i+k")
		}
	}
	var ks []int64
	for k := range offs {
		ks = append(ks, k)
	}
	sort.Slice(ks, func(i, j int) bool { return ks[i] < ks[j] })
	if int64(len(ks)) != step.Int64() || ks[0] != 0 || ks[len(ks)-1] != step.Int64()-1 {
		return "", fmt.Errorf("bitmapContainer.setZero: offsets %v do not cover 0..%d", ks, step.Int64()-1)
	}
	if new(big.Int).Rem(bound, step).Sign() != 0 {
		return "", fmt.Errorf("bitmapContainer.setZero: bound %s is not a multiple of the step %s (would index out of range)", bound, step)
	}
	if bound.Cmp(bmpWords[0]) != 0 {
		return "", fmt.Errorf("bitmapContainer.setZero clears %s words but the bitmap container has %s (the model's fresh zeroed bitmap would be wrong)", bound, bmpWords[0])
	}
	// ---- the key shift: every `>> K` / `<< K` applied to num / high in the RoaringBitmap methods and Value must agree
	shifts := map[int64]int{}
	for _, fn := range []string{"RoaringBitmap.Add", "RoaringBitmap.Remove", "RoaringBitmap.Contains", "RoaringBitmap.Range", "RoaringBitmap.All", "RoaringBitmapIter.Value"} {
		fd := p.Func(fn)
		if fd == nil {
			return "", fmt.Errorf("%s not found", fn)
		}
		found := false
		ast.Inspect(fd.Body, func(n ast.Node) bool {
			be, ok := n.(*ast.BinaryExpr)
			if !ok || (be.Op != token.SHR && be.Op != token.SHL) {
				return true
			}
			v, e := Eval(be.Y, p.Env, 0)
			if e != nil {
				return true
			}
			// skip the word arithmetic i<<6 and the bit mask 1<<j
			if v.Int64() == 6 {
				return true
			}
			shifts[v.Int64()]++
			found = true
			return true
		})
		if !found {
			return "", fmt.Errorf("%s: no key shift found", fn)
		}
	}
	if len(shifts) != 1 {
		return "", fmt.Errorf("key shifts disagree: %v", shifts)
	}
	var shift int64
	for k := range shifts {
		shift = k
	}
	n := func(name string, v *big.Int) string { return fmt.Sprintf("Definition %s : N := %s%%N.\n", name, v.String()) }
	out := "From Coq Require Import NArith.\n"
	out += "(* setz/roaring_bitmap.go *)\n"
	out += n("arr_max", arrMax[0])
	out += CoqZ("conv_len", convLen[0])
	out += n("bmp_words", bmpWords[0])
	out += n("buf_len", bufLen)
	out += n("zero_words", bound)
	out += n("key_shift", big.NewInt(shift))
	return out, nil
}
