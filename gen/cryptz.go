package main

// Area Cryptz (C08, C09): constants of cryptz/aes.go and cryptz/crypt.go the Coq models depend on.
//   aes.go   : blockSizeMask, gcmTagSize, nonceSize, the length of prePadPatterns (aes.BlockSize+1),
//              aes.BlockSize itself (standard library constant 16, through Eval)
//   crypt.go : _SALT_LEN, _KEY_LEN, _CRED_LEN, fixedSaltHeader ("Salted__"), the loop bound of fillCred (KDF rounds)
//              and the digest step `i*16` used there.
// Fails closed when a name disappears or fillCred no longer is `for i := 0; i < N; i++`.

import (
	"fmt"
	"go/ast"
	"go/token"
	"math/big"
)

func init() {
	Register(Area{Name: "Cryptz", Gen: genCryptz})
}

func genCryptz(repo string) (string, error) {
	p, err := Load(repo, "cryptz")
	if err != nil {
		return "", err
	}
	out := ""
	for _, nm := range [][2]string{
		{"blockSizeMask", "block_size_mask"}, {"gcmTagSize", "gcm_tag_size"}, {"nonceSize", "nonce_size"},
		{"_SALT_LEN", "salt_len"}, {"_KEY_LEN", "key_len"}, {"_CRED_LEN", "cred_len"},
	} {
		v, err := p.Int(nm[0])
		if err != nil {
			return "", fmt.Errorf("cryptz.%s: %v", nm[0], err)
		}
		out += CoqZ(nm[1], v)
	}
	// aes.BlockSize as the source spells it
	bs, err := Eval(&ast.SelectorExpr{X: ast.NewIdent("aes"), Sel: ast.NewIdent("BlockSize")}, p.Env, 0)
	if err != nil {
		return "", err
	}
	out += CoqZ("aes_block_size", bs)
	// var prePadPatterns [aes.BlockSize + 1][]byte
	var padLen *big.Int
	for _, f := range p.Files {
		for _, d := range f.Decls {
			g, ok := d.(*ast.GenDecl)
			if !ok || g.Tok != token.VAR {
				continue
			}
			for _, s := range g.Specs {
				vs := s.(*ast.ValueSpec)
				for _, n := range vs.Names {
					if n.Name == "prePadPatterns" {
						at, ok := vs.Type.(*ast.ArrayType)
						if !ok || at.Len == nil {
							return "", fmt.Errorf("prePadPatterns is no longer a fixed-size array")
						}
						padLen, err = Eval(at.Len, p.Env, 0)
						if err != nil {
							return "", fmt.Errorf("prePadPatterns length: %v", err)
						}
					}
				}
			}
		}
	}
	if padLen == nil {
		return "", fmt.Errorf("prePadPatterns not found")
	}
	out += CoqZ("pad_table_len", padLen)
	hdr, err := p.Str("fixedSaltHeader")
	if err != nil {
		return "", fmt.Errorf("fixedSaltHeader: %v", err)
	}
	out += CoqBytes("fixed_salt_header", []byte(hdr))
	// fillCred: for i := 0; i < N; i++ { ... copy(cred[i*S:], prevSum[:]) }
	fd := p.Func("fillCred")
	if fd == nil {
		return "", fmt.Errorf("fillCred not found")
	}
	var rounds, step *big.Int
	ast.Inspect(fd.Body, func(n ast.Node) bool {
		switch x := n.(type) {
		case *ast.ForStmt:
			if be, ok := x.Cond.(*ast.BinaryExpr); ok && be.Op == token.LSS {
				if v, err := Eval(be.Y, p.Env, 0); err == nil && rounds == nil {
					rounds = v
				}
			}
		case *ast.BinaryExpr:
			if x.Op == token.MUL {
				if id, ok := x.X.(*ast.Ident); ok && id.Name == "i" {
					if v, err := Eval(x.Y, p.Env, 0); err == nil && step == nil {
						step = v
					}
				}
			}
		}
		return true
	})
	if rounds == nil || step == nil {
		return "", fmt.Errorf("fillCred: loop `for i := 0; i < N; i++` with `i*S` not recognised")
	}
	out += CoqZ("kdf_rounds", rounds)
	out += CoqZ("kdf_step", step)
	return out, nil
}
