// go2v extension [ext:T20] (added for the Randz area, C20; usable by any area).  Everything here is reached through small
// hooks in trans.go / trans_expr.go / trans_stmt.go that are marked `[ext:T20]`; an area that sets none of the new
// TransSpec fields and uses none of the new types translates exactly as before.
//
//	strings            string -> list Z (bytes, immutable): s[i], s[a:b], len, string([]byte), []byte(string), string(b) for a
//	                   byte b (= the UTF-8 encoding of the rune b: GoSem.str_of_byte), append(bytes, s...), copy(bytes, s);
//	                   a package-level string constant becomes `Definition c_<Name> : list Z`, other constant strings a
//	                   list literal.  Refused: range over a string, comparison, +, []rune(s), string(rune), string([]rune).
//	arrays             [N]T of integers -> list Z (value semantics, which is what the list model has anyway);
//	                   `for i := range arr` iterates N times (the length of the TYPE); zero value repeat 0 N.
//	TransSpec.Globals  package-level variables as explicit state: a function that (transitively) reads one takes it as an
//	                   extra parameter (after fuel and the receiver, in TransSpec order), one that writes it returns it
//	                   (after the receiver, before the results); `Definition g0_<name>` is the zero value (an initialiser
//	                   is refused).  `func init()` bodies are addressed as "init:<global they assign>".
//	TransSpec.WrapSigned  int8/16/32/64 wrap (GoSem.swrap N) after + - * << unary - and / (unless the divisor is a
//	                   constant other than -1) and in narrowing / unsigned->signed conversions.  `int` stays unbounded.
//	receivers          a value receiver of a named integer type (type ID int64) is an ordinary first parameter; a receiver
//	                   of an untranslatable type that the body never mentions is dropped.
//	error              the type `error` -> Z: nil = 0; a package-level `var ErrX = errors.New("literal")` that no function
//	                   of the package assigns = `Definition err_ErrX : Z := <positive code>`; == and != only.
//	TransSpec.Frags    one top-level `for` statement of a function that cannot be translated as a whole becomes a function
//	                   of its free variables returning the variables it assigns.
package main

import (
	"fmt"
	"go/ast"
	"go/constant"
	"go/token"
	"go/types"
	"sort"
	"strings"
)

// FragSpec: the Nth (1-based) top-level `for` / `range` statement of Func, emitted as g_<Func>_loop<N>.
type FragSpec struct {
	Func string
	Nth  int
}

type globalInfo struct {
	obj   *types.Var
	name  string
	ty    gtype
	index int
}

type fragInfo struct {
	stmts   []ast.Stmt   // simple declarations directly in front of the loop (absorbed), then the loop
	params  []*types.Var // free variables of stmts, declaration order
	results []*types.Var // the variables the loop assigns that are declared outside the loop and used after it
}

type ext20 struct {
	spec     TransSpec
	pkg      *Pkg
	tpkg     *types.Package
	globs    []*globalInfo
	globOf   map[types.Object]*globalInfo
	initKeys map[string][]*ast.FuncDecl
	strNames map[string]string // Go constant name -> Coq definition name
	strDefs  []string
	errCodes map[types.Object]string
	errDefs  []string
}

func (t *Translator) setup20(p *Pkg, tpkg *types.Package, spec TransSpec) {
	t.spec, t.pkg, t.tpkg = spec, p, tpkg
	t.globOf, t.initKeys = map[types.Object]*globalInfo{}, map[string][]*ast.FuncDecl{}
	t.strNames, t.errCodes = map[string]string{}, map[types.Object]string{}
	for i, name := range spec.Globals {
		obj, _ := tpkg.Scope().Lookup(name).(*types.Var)
		if obj == nil {
			t.fail(nil, "package-level variable %s not found", name)
		}
		if _, has := p.Env[name]; has {
			t.fail(nil, "package-level variable %s with an initialiser", name)
		}
		ty := t.typeOf(obj.Type(), nil)
		if ty.k == kStruct || ty.k == kErr {
			t.fail(nil, "package-level variable %s of type %s", name, obj.Type())
		}
		g := &globalInfo{obj: obj, name: name, ty: ty, index: i}
		t.globs = append(t.globs, g)
		t.globOf[obj] = g
		t.global["g0_"+name] = true
	}
}

// keyInit20 registers an init() under "init:<g>" for every listed global g that it assigns.
func (t *Translator) keyInit20(fd *ast.FuncDecl) {
	set := map[types.Object]bool{}
	t.assigned(fd.Body, set)
	for _, g := range t.globs {
		if set[g.obj] {
			key := "init:" + g.name
			t.initKeys[key] = append(t.initKeys[key], fd)
			if len(t.initKeys[key]) == 1 {
				t.byName[key] = fd
			} else {
				delete(t.byName, key) // ambiguous: fails as "not found"
			}
		}
	}
}

func (t *Translator) basic20(x *types.Basic) (gtype, bool) {
	switch x.Kind() {
	case types.String, types.UntypedString:
		return gtype{k: kSlice, str: true}, true
	}
	if t.spec.WrapSigned {
		switch x.Kind() {
		case types.Int8:
			return gtype{k: kInt, bits: 8}, true
		case types.Int16:
			return gtype{k: kInt, bits: 16}, true
		case types.Int32:
			return gtype{k: kInt, bits: 32}, true
		case types.Int64:
			return gtype{k: kInt, bits: 64}, true
		}
	}
	return gtype{}, false
}

// signedConvWraps20: does a conversion from `from` to the wrapping signed type `to` need swrap?
func signedConvWraps20(to, from gtype) bool {
	switch {
	case from.k == kUint && from.bits < to.bits:
		return false
	case from.k == kInt && from.bits > 0 && from.bits <= to.bits:
		return false
	case from.k == kInt && from.bits == 0 && to.bits == 64: // int is a 64-bit type (kept unbounded, see TRANSLATOR.md limits)
		return false
	}
	return true
}

// recv20 handles the two new receiver forms; false = the classic struct receiver path.
func (t *Translator) recv20(fi *funcInfo, r *types.Var) bool {
	ty := r.Type()
	if p, ok := ty.(*types.Pointer); ok {
		ty = p.Elem()
	}
	if nm, ok := ty.(*types.Named); ok && t.structs[nm.Origin().Obj()] != nil {
		return false
	}
	if _, isPtr := r.Type().(*types.Pointer); !isPtr {
		if _, ok := r.Type().Underlying().(*types.Basic); ok {
			g := t.typeOf(r.Type(), fi.decl)
			if g.k == kInt || g.k == kUint {
				fi.recv, fi.recvT = r, g
				return true
			}
		}
	}
	// a receiver the body never mentions
	used := false
	ast.Inspect(fi.decl.Body, func(n ast.Node) bool {
		if id, ok := n.(*ast.Ident); ok && t.info.Uses[id] == types.Object(r) {
			used = true
		}
		return !used
	})
	if used {
		return false // the classic path reports the unsupported receiver type
	}
	fi.ignoredRecv = true
	return true
}

// globals20: one round of the read / write analysis of package-level state; true when something was added.
func (t *Translator) globals20(fi *funcInfo) bool {
	if len(t.globs) == 0 {
		return false
	}
	changed := false
	if fi.greads == nil {
		fi.greads, fi.gwrites = map[*globalInfo]bool{}, map[*globalInfo]bool{}
		ast.Inspect(fi.decl.Body, func(n ast.Node) bool {
			if id, ok := n.(*ast.Ident); ok {
				if g := t.globOf[t.info.Uses[id]]; g != nil && !fi.greads[g] {
					fi.greads[g], changed = true, true
				}
			}
			return true
		})
		set := map[types.Object]bool{}
		t.assigned(fi.decl.Body, set)
		for _, g := range t.globs {
			if set[g.obj] {
				fi.gwrites[g], fi.greads[g], changed = true, true, true
			}
		}
	}
	for c := range fi.callees {
		for g := range c.greads {
			if !fi.greads[g] {
				fi.greads[g], changed = true, true
			}
		}
		for g := range c.gwrites {
			if !fi.gwrites[g] {
				fi.gwrites[g], fi.greads[g], changed = true, true, true
			}
		}
	}
	return changed
}

func (t *Translator) ordered20(set map[*globalInfo]bool) []*globalInfo {
	var out []*globalInfo
	for g := range set {
		out = append(out, g)
	}
	sort.Slice(out, func(i, j int) bool { return out[i].index < out[j].index })
	return out
}

func (c *fctx) globalName20(g *globalInfo, en *env, at ast.Node) string {
	v := en.lookup(g.obj)
	if v == nil {
		c.t.fail(at, "package-level variable %s is not in scope here", g.name)
	}
	return v.name
}

// consts20: the definitions that precede the functions (zero values of the globals, string constants, error codes).
func (t *Translator) consts20() string {
	var b strings.Builder
	for _, g := range t.globs {
		fmt.Fprintf(&b, "\n(* var %s %s: its zero value *)\nDefinition g0_%s : %s := %s.\n", g.name, g.obj.Type(), g.name, g.ty.coq(), strings.Trim(g.ty.zero(), "()"))
	}
	for _, d := range t.strDefs {
		b.WriteString(d)
	}
	for _, d := range t.errDefs {
		b.WriteString(d)
	}
	return b.String()
}

func bytesLit(s string) string {
	p := make([]string, len(s))
	for i := 0; i < len(s); i++ {
		p[i] = fmt.Sprint(s[i])
	}
	return "[" + strings.Join(p, "; ") + "]"
}

// strConst20: a constant string expression; a package-level named constant gets its own definition.
func (c *fctx) strConst20(e ast.Expr, val string) (string, bool) {
	t := c.t
	if id, ok := ast.Unparen(e).(*ast.Ident); ok {
		if o, ok := t.info.Uses[id].(*types.Const); ok && o.Parent() == t.tpkg.Scope() {
			name, seen := t.strNames[o.Name()]
			if !seen {
				name = "c_" + o.Name()
				t.strNames[o.Name()] = name
				t.global[name] = true
				t.strDefs = append(t.strDefs, fmt.Sprintf("\n(* const %s = %q *)\nDefinition %s : list Z := %s.\n", o.Name(), val, name, bytesLit(val)))
			}
			return name, true
		}
	}
	return bytesLit(val), true
}

// sentinel20: a package-level error variable initialised by errors.New / fmt.Errorf of literals and never assigned.
func (c *fctx) sentinel20(id *ast.Ident, o types.Object) (string, bool) {
	t := c.t
	v, ok := o.(*types.Var)
	if !ok || v.Parent() != t.tpkg.Scope() {
		return "", false
	}
	// with the stub importer errors.New is undefined, so the variable's type is invalid unless it is declared `error`
	if v.Type() != types.Typ[types.Invalid] {
		if nm, ok := v.Type().(*types.Named); !ok || nm.Obj().Pkg() != nil || nm.Obj().Name() != "error" {
			return "", false
		}
	}
	if s, seen := t.errCodes[o]; seen {
		return s, true
	}
	ini, has := t.pkg.Env[v.Name()]
	call, isCall := ini.(*ast.CallExpr)
	if !has || !isCall {
		t.fail(id, "error variable %s without an errors.New(...) initialiser", v.Name())
	}
	sel, _ := call.Fun.(*ast.SelectorExpr)
	pk, _ := func() (*ast.Ident, bool) {
		if sel == nil {
			return nil, false
		}
		x, ok := sel.X.(*ast.Ident)
		return x, ok
	}()
	if pk == nil || !((pk.Name == "errors" && sel.Sel.Name == "New") || (pk.Name == "fmt" && sel.Sel.Name == "Errorf")) || len(call.Args) != 1 {
		t.fail(id, "error variable %s is not initialised by errors.New(\"...\")", v.Name())
	}
	if lit, ok := call.Args[0].(*ast.BasicLit); !ok || lit.Kind != token.STRING {
		t.fail(id, "error variable %s is not initialised from a string literal", v.Name())
	}
	for _, f := range t.pkg.Files {
		for _, d := range f.Decls {
			fd, ok := d.(*ast.FuncDecl)
			if !ok || fd.Body == nil {
				continue
			}
			set := map[types.Object]bool{}
			t.assigned(fd.Body, set)
			addr := false
			ast.Inspect(fd.Body, func(n ast.Node) bool {
				if u, ok := n.(*ast.UnaryExpr); ok && u.Op == token.AND {
					if ro, _ := t.rootObj(u.X); ro == o {
						addr = true
					}
				}
				return true
			})
			if set[o] || addr {
				t.fail(id, "error variable %s is assigned (or its address taken) in %s", v.Name(), fd.Name.Name)
			}
		}
	}
	name := "err_" + v.Name()
	t.errCodes[o] = name
	t.global[name] = true
	t.errDefs = append(t.errDefs, fmt.Sprintf("\n(* var %s = %s : a sentinel error (nil = 0) *)\nDefinition %s : Z := %d.\n", v.Name(), "errors.New(...)", name, len(t.errCodes)))
	return name, true
}

// asciiConst20: e is a constant string of ASCII characters only (its rune starts are exactly its byte indices)
func (c *fctx) asciiConst20(e ast.Expr) bool {
	tv, ok := c.t.info.Types[e]
	if !ok || tv.Value == nil || tv.Value.Kind() != constant.String {
		return false
	}
	s := constant.StringVal(tv.Value)
	for i := 0; i < len(s); i++ {
		if s[i] >= 0x80 {
			return false
		}
	}
	return true
}

func isByteSlice(ty types.Type) bool {
	s, ok := ty.Underlying().(*types.Slice)
	if !ok {
		return false
	}
	b, ok := s.Elem().Underlying().(*types.Basic)
	return ok && b.Kind() == types.Uint8
}

func isStringType(ty types.Type) bool {
	b, ok := ty.Underlying().(*types.Basic)
	return ok && b.Info()&types.IsString != 0
}

// strConv20: conversions that involve a string type.
func (c *fctx) strConv20(x *ast.CallExpr, to, from gtype, en *env, k func([]string) string) string {
	t := c.t
	tt, ft := t.info.Types[x].Type, t.info.Types[x.Args[0]].Type
	switch {
	case isStringType(tt) && (isStringType(ft) || isByteSlice(ft)), isByteSlice(tt) && isStringType(ft):
		return c.expr(x.Args[0], en, func(a string) string { return k([]string{a}) })
	case isStringType(tt) && from.k == kUint && from.bits == 8:
		return c.expr(x.Args[0], en, func(a string) string { return k([]string{"(str_of_byte " + a + ")"}) })
	}
	t.fail(x, "conversion from %s to %s", ft, tt)
	return ""
}

// ---- the nil error: go/types records `nil` as untyped nil in every context, so the context marks it
func nilIdent(e ast.Expr) *ast.Ident {
	if id, ok := ast.Unparen(e).(*ast.Ident); ok && id.Name == "nil" {
		return id
	}
	return nil
}

func (c *fctx) markNilAs20(e ast.Expr) {
	if id := nilIdent(e); id != nil {
		if _, ok := c.t.info.Uses[id].(*types.Nil); ok {
			if c.nilErr == nil {
				c.nilErr = map[*ast.Ident]bool{}
			}
			c.nilErr[id] = true
		}
	}
}

// markNil20: e is nil and `other` has type error
func (c *fctx) markNil20(e, other ast.Expr) {
	if nilIdent(e) == nil || nilIdent(other) != nil {
		return
	}
	if tv, ok := c.t.info.Types[other]; ok && tv.Type != nil {
		if nm, ok := tv.Type.(*types.Named); ok && nm.Obj().Pkg() == nil && nm.Obj().Name() == "error" {
			c.markNilAs20(e)
		}
	}
}

func (c *fctx) isNilErr20(e ast.Expr) bool {
	id := nilIdent(e)
	return id != nil && c.nilErr[id]
}

func nestPair(parts []string) string {
	if len(parts) == 0 {
		return "tt"
	}
	r := parts[len(parts)-1]
	for i := len(parts) - 2; i >= 0; i-- {
		r = "(" + parts[i] + ", " + r + ")"
	}
	return r
}

func nestPairType(parts []string) string {
	if len(parts) == 0 {
		return "unit"
	}
	r := parts[len(parts)-1]
	for i := len(parts) - 2; i >= 0; i-- {
		r = "(" + parts[i] + " * " + r + ")"
	}
	return r
}

// ---- loop fragments ---------------------------------------------------------------------------------------------

func (t *Translator) addFrags20(spec TransSpec) {
	for _, fs := range spec.Frags {
		fd := t.byName[fs.Func]
		if fd == nil {
			t.fail(nil, "function %s (of a loop fragment) not found", fs.Func)
		}
		var st ast.Stmt
		n := 0
		for _, s := range fd.Body.List {
			switch s.(type) {
			case *ast.ForStmt, *ast.RangeStmt:
				n++
				if n == fs.Nth {
					st = s
				}
			}
		}
		if st == nil {
			t.fail(fd, "function %s has no top-level loop number %d", fs.Func, fs.Nth)
		}
		ast.Inspect(st, func(m ast.Node) bool {
			if r, ok := m.(*ast.ReturnStmt); ok {
				t.fail(r, "return inside a loop fragment")
			}
			return true
		})
		// absorb the simple declarations directly in front of the loop (`var bits int`, `l := len(r)`): whether a counter is
		// declared in the loop header or just before the loop then makes no difference to the fragment's interface
		idx := 0
		for i, s := range fd.Body.List {
			if s == st {
				idx = i
			}
		}
		first := idx
		for first > 0 && t.simpleDecl20(fd.Body.List[first-1]) {
			first--
		}
		fr := &fragInfo{stmts: fd.Body.List[first : idx+1]}
		inFrag := func(pos token.Pos) bool { return pos >= fr.stmts[0].Pos() && pos < st.End() }
		// free variables: identifiers used inside the fragment whose declaration lies outside it (locals / parameters)
		seen := map[types.Object]bool{}
		for _, fs := range fr.stmts {
			ast.Inspect(fs, func(m ast.Node) bool {
				id, ok := m.(*ast.Ident)
				if !ok {
					return true
				}
				v, ok := t.info.Uses[id].(*types.Var)
				if !ok || v.IsField() || seen[v] || v.Parent() == t.tpkg.Scope() || inFrag(v.Pos()) {
					return true
				}
				seen[v] = true
				fr.params = append(fr.params, v)
				return true
			})
		}
		sort.Slice(fr.params, func(i, j int) bool { return fr.params[i].Pos() < fr.params[j].Pos() })
		// results: assigned by the loop, declared outside the loop statement, used after it
		set := map[types.Object]bool{}
		t.assigned(st, set)
		usedAfter := map[types.Object]bool{}
		for _, s := range fd.Body.List[idx+1:] {
			ast.Inspect(s, func(m ast.Node) bool {
				if id, ok := m.(*ast.Ident); ok {
					if o := t.info.Uses[id]; o != nil {
						usedAfter[o] = true
					}
				}
				return true
			})
		}
		var res []*types.Var
		for o := range set {
			if v, ok := o.(*types.Var); ok && !v.IsField() && v.Parent() != t.tpkg.Scope() && !(v.Pos() >= st.Pos() && v.Pos() < st.End()) && usedAfter[o] {
				res = append(res, v)
			}
		}
		sort.Slice(res, func(i, j int) bool { return res[i].Pos() < res[j].Pos() })
		fr.results = res
		key := fmt.Sprintf("%s.loop%d", fs.Func, fs.Nth)
		name := "g_" + strings.NewReplacer(".", "_", ":", "_").Replace(key)
		decl := &ast.FuncDecl{Name: ast.NewIdent(name), Type: fd.Type, Body: &ast.BlockStmt{Lbrace: st.Pos(), List: fr.stmts, Rbrace: st.End()}}
		obj := types.NewFunc(st.Pos(), t.tpkg, name, types.NewSignatureType(nil, nil, nil, nil, nil, false))
		fi := &funcInfo{decl: decl, obj: obj, goName: key, name: name, callees: map[*funcInfo]bool{}, frag: fr}
		for _, v := range fr.results {
			fi.results = append(fi.results, t.typeOf(v.Type(), st))
		}
		t.funcs[obj] = fi
		t.global[name] = true
	}
}

// simpleDecl20: `var x T`, `var x = e`, `x := e` with e built from variables, constants, operators, len/cap/min/max and
// conversions to integer types only.
func (t *Translator) simpleDecl20(s ast.Stmt) bool {
	var rhs []ast.Expr
	switch x := s.(type) {
	case *ast.DeclStmt:
		gd, ok := x.Decl.(*ast.GenDecl)
		if !ok || gd.Tok != token.VAR {
			return false
		}
		for _, sp := range gd.Specs {
			rhs = append(rhs, sp.(*ast.ValueSpec).Values...)
		}
	case *ast.AssignStmt:
		if x.Tok != token.DEFINE {
			return false
		}
		rhs = x.Rhs
	default:
		return false
	}
	ok := true
	for _, e := range rhs {
		ast.Inspect(e, func(n ast.Node) bool {
			switch y := n.(type) {
			case *ast.CallExpr:
				if tv, isT := t.info.Types[y.Fun]; isT && tv.IsType() {
					if b, isB := tv.Type.Underlying().(*types.Basic); !isB || b.Info()&types.IsInteger == 0 {
						ok = false
					}
				} else if id, isId := ast.Unparen(y.Fun).(*ast.Ident); isId {
					if bi, isBi := t.info.Uses[id].(*types.Builtin); !isBi || !(bi.Name() == "len" || bi.Name() == "cap" || bi.Name() == "min" || bi.Name() == "max") {
						ok = false
					}
				} else {
					ok = false
				}
			case *ast.CompositeLit, *ast.FuncLit, *ast.IndexExpr, *ast.SliceExpr, *ast.StarExpr, *ast.TypeAssertExpr:
				ok = false
			case *ast.UnaryExpr:
				if y.Op == token.AND || y.Op == token.ARROW {
					ok = false
				}
			}
			return ok
		})
	}
	return ok
}

// emitFrag20: the Definition for a loop fragment (called from emitFunc after fuel and the globals have been declared).
func (t *Translator) emitFrag20(c *fctx, fi *funcInfo, en *env, params []string) string {
	loop := fi.frag.stmts[len(fi.frag.stmts)-1]
	for _, v := range fi.frag.params {
		g := t.typeOf(v.Type(), loop)
		if g.k == kStruct {
			t.fail(loop, "loop fragment with the struct variable %s", v.Name())
		}
		var name string
		en, name = c.declare(en, v, g)
		params = append(params, fmt.Sprintf("(%s : %s)", name, g.coq()))
		if g.k == kSlice && !g.str && !g.isArr {
			en = en.share(name)
		}
	}
	var rts []string
	for _, g := range fi.results {
		rts = append(rts, g.coq())
	}
	rt := tupleType(rts)
	if strings.Contains(rt, " ") && !strings.HasPrefix(rt, "(") {
		rt = "(" + rt + ")"
	}
	lc := &lctx{ret: func(v string) string { return "Ret " + v }}
	body := c.stmts(fi.frag.stmts, en, lc, kont{f: func(e *env) string {
		var vs []string
		for _, v := range fi.frag.results {
			vs = append(vs, e.lookup(v).name)
		}
		return "Ret " + tuple(vs)
	}, cheap: true})
	return fmt.Sprintf("(* loop fragment %s   (%s) *)\nDefinition %s %s : M %s :=\n%s.\n", fi.goName, t.pos(fi.frag.stmts[0]),
		fi.name, strings.Join(params, " "), rt, strings.TrimRight(indentCoq(body), "\n"))
}
