// go2v extension [ext:T15] (added for the area StrconvCode, C15: strz/std_strconv.go, strz/std_hex.go; usable by any area).
// Everything here is reached through one-line hooks marked `[ext:T15]` in trans.go / trans_expr.go / trans_stmt.go; an area
// that leaves TransSpec.T15 at its zero value translates exactly as before.
//
//	T15.ByteSeq     a type parameter whose constraint has the type set {~string, ~[]byte} (typez.StrOrBytes) is translated
//	                as its byte-list instantiation: `list Z`, immutable (Go forbids s[i] = v on such a T anyway).
//	T15.Imports     packages of the SAME MODULE that are parsed and type-checked for real instead of being stubbed
//	                ("typez": the constraint StrOrBytes, the constant WordBits = 64 on the 64-bit sizes go/types assumes).
//	T15.ErrKinds    error values built in function bodies: fmt.Errorf(<constant format>, operands...) and
//	                errors.New(<constant>) are the value `errk_<Name>` of the ONE kind whose Substr occurs in the format
//	                (none or several: refused); the operands are evaluated left to right (they may panic) and dropped,
//	                except the operand number Arg (1-based), which is carried: the value is Code + 16 * operand with Code in
//	                1..15, so that kinds never collide with each other or with nil = 0.  A kind with Foreign = "hex.ErrLength"
//	                is the sentinel variable of another package.  `==` / `!=` on errors then needs nil or a sentinel on one
//	                side (two errors built by fmt.Errorf are never equal in Go, whatever their text).
//	T15.OutParams   a parameter of slice type that the body writes in place (p[i] = v, copy(p, ..), passing it on as such a
//	                parameter) is returned in front of the results, as the receiver of a writing method is: that is the
//	                effect the caller sees.  Reading: the argument shares its array with no other argument — a call site in
//	                translated code must pass a local variable that is not shared and does not occur in another argument;
//	                assigning the parameter as a whole is refused.
//	switch with a tag  `switch e { case a, b: … default: … }` with an integer / bool tag (evaluated once) becomes the
//	                tagless switch `case e == a || e == b` (then the if / else-if chain of trans_seq.go).
//	hex.EncodedLen(n) = n * 2, hex.DecodedLen(n) = n / 2 (encoding/hex; only with T15.StdHexLen).
//	T15.Loops / T15.Consts  the shape the area's proof scripts cover (loops per function, tables read); another shape is
//	                refused: the area degrades with a NOTE (DESIGN 0.9) instead of raising an alarm about a proof.
package main

import (
	"fmt"
	"go/ast"
	"go/constant"
	"go/parser"
	"go/token"
	"go/types"
	"os"
	"path/filepath"
	"strings"
)

// ErrKind: one class of error values built by the translated code (see the header).
type ErrKind struct {
	Name    string // errk_<Name>
	Code    int    // 1..15
	Substr  string // the constant format of fmt.Errorf / errors.New contains this text
	Arg     int    // 1-based number of the operand (after the format) that the value carries; 0 = none
	Foreign string // "pkg.Var": a sentinel error variable of an imported package instead of a format
}

// T15Spec: the [ext:T15] part of TransSpec.
type T15Spec struct {
	ByteSeq   bool
	Imports   []string
	ErrKinds  []ErrKind
	OutParams bool
	StdHexLen bool
	// Shape: what the proof scripts of the area were written for.  Loops: function -> number of for / range statements in
	// its body; Consts: the package-level string constants (tables) the translated functions may read.  Source that
	// translates but has another shape (a second loop as a fast path, a new lookup table) is REFUSED, so that the area
	// degrades to its last validated output with a NOTE instead of failing a proof that was never written for it.
	Loops  map[string]int
	Consts []string
}

func (s T15Spec) active() bool {
	return s.ByteSeq || len(s.Imports) > 0 || len(s.ErrKinds) > 0 || s.OutParams || s.StdHexLen
}

type ext15 struct {
	errkUsed map[string]bool
	errkDefs []string
}

// ---- imports ------------------------------------------------------------------------------------------------------

type importer15 struct {
	t     *Translator
	spec  T15Spec
	next  types.Importer
	mod   string
	cache map[string]*types.Package
}

// importer15 wraps the stub importer: real packages of the module (T15.Imports), typed stubs for fmt.Errorf and the three
// names of encoding/hex that the area uses.
func (t *Translator) importer15(spec TransSpec, next types.Importer) types.Importer {
	if !spec.T15.active() {
		return next
	}
	t.spec = spec
	im := &importer15{t: t, spec: spec.T15, next: next, cache: map[string]*types.Package{}}
	if b, err := os.ReadFile(filepath.Join(t.repo, "go.mod")); err == nil {
		for _, line := range strings.Split(string(b), "\n") {
			if f := strings.Fields(line); len(f) == 2 && f[0] == "module" {
				im.mod = f[1]
			}
		}
	}
	return im
}

func (im *importer15) Import(path string) (*types.Package, error) {
	if p := im.cache[path]; p != nil {
		return p, nil
	}
	errT := types.Universe.Lookup("error").Type()
	intT := types.Typ[types.Int]
	mkFunc := func(p *types.Package, name string, params []types.Type, variadic bool, results ...types.Type) {
		var ps, rs []*types.Var
		for _, ty := range params {
			ps = append(ps, types.NewVar(token.NoPos, p, "", ty))
		}
		for _, ty := range results {
			rs = append(rs, types.NewVar(token.NoPos, p, "", ty))
		}
		p.Scope().Insert(types.NewFunc(token.NoPos, p, name, types.NewSignatureType(nil, nil, nil, types.NewTuple(ps...), types.NewTuple(rs...), variadic)))
	}
	switch path {
	case "fmt":
		p := types.NewPackage(path, "fmt")
		mkFunc(p, "Errorf", []types.Type{types.Typ[types.String], types.NewSlice(types.Universe.Lookup("any").Type())}, true, errT)
		p.MarkComplete()
		im.cache[path] = p
		return p, nil
	case "encoding/hex":
		p := types.NewPackage(path, "hex")
		p.Scope().Insert(types.NewVar(token.NoPos, p, "ErrLength", errT))
		mkFunc(p, "EncodedLen", []types.Type{intT}, false, intT)
		mkFunc(p, "DecodedLen", []types.Type{intT}, false, intT)
		p.MarkComplete()
		im.cache[path] = p
		return p, nil
	}
	for _, d := range im.spec.Imports {
		if im.mod != "" && path == im.mod+"/"+d {
			ents, err := os.ReadDir(filepath.Join(im.t.repo, d))
			if err != nil {
				return nil, err
			}
			var files []*ast.File
			for _, e := range ents {
				if !strings.HasSuffix(e.Name(), ".go") || strings.HasSuffix(e.Name(), "_test.go") {
					continue
				}
				f, err := parser.ParseFile(im.t.fset, filepath.Join(im.t.repo, d, e.Name()), nil, 0)
				if err != nil {
					return nil, err
				}
				files = append(files, f)
			}
			conf := types.Config{Importer: im, Error: func(error) {}}
			p, _ := conf.Check(path, im.t.fset, files, nil)
			if p == nil {
				return nil, fmt.Errorf("type checking %s failed", path)
			}
			im.cache[path] = p
			return p, nil
		}
	}
	return im.next.Import(path)
}

// ---- type parameters over byte sequences ---------------------------------------------------------------------------------

// byteSeqTerms: every type of the type set of constraint type ty is a string or a []byte (methods: refused)
func byteSeqTerms(ty types.Type, depth int) (n int, ok bool) {
	if depth > 10 {
		return 0, false
	}
	switch x := ty.(type) {
	case *types.Union:
		for i := 0; i < x.Len(); i++ {
			k, ok := byteSeqTerms(x.Term(i).Type(), depth+1)
			if !ok {
				return 0, false
			}
			n += k
		}
		return n, true
	case *types.Named:
		if _, isI := x.Underlying().(*types.Interface); isI {
			return byteSeqTerms(x.Underlying(), depth+1)
		}
		return byteSeqTerms(x.Underlying(), depth+1)
	case *types.Interface:
		if x.NumExplicitMethods() > 0 {
			return 0, false
		}
		for i := 0; i < x.NumEmbeddeds(); i++ {
			k, ok := byteSeqTerms(x.EmbeddedType(i), depth+1)
			if !ok {
				return 0, false
			}
			n += k
		}
		return n, true
	case *types.Basic:
		return 1, x.Info()&types.IsString != 0
	case *types.Slice:
		return 1, isByteSlice(x)
	}
	return 0, false
}

func (t *Translator) typeParam15(x *types.TypeParam) (gtype, bool) {
	if !t.spec.T15.ByteSeq {
		return gtype{}, false
	}
	if n, ok := byteSeqTerms(x.Constraint(), 0); ok && n > 0 {
		return gtype{k: kSlice, str: true}, true
	}
	return gtype{}, false
}

// ---- error kinds -------------------------------------------------------------------------------------------------------

func (t *Translator) setup15(spec TransSpec) {
	t.errkUsed = map[string]bool{}
	seen := map[int]bool{}
	for _, k := range spec.T15.ErrKinds {
		if k.Code < 1 || k.Code > 15 || seen[k.Code] || k.Name == "" || (k.Substr == "") == (k.Foreign == "") {
			t.fail(nil, "error kind %q: a name, a code 1..15 used once, and either Substr or Foreign", k.Name)
		}
		seen[k.Code] = true
		t.global["errk_"+k.Name] = true
	}
}

func (t *Translator) useKind15(k ErrKind) string {
	name := "errk_" + k.Name
	if !t.errkUsed[name] {
		t.errkUsed[name] = true
		switch {
		case k.Foreign != "":
			t.errkDefs = append(t.errkDefs, fmt.Sprintf("\n(* %s: a sentinel error of an imported package (nil = 0) *)\nDefinition %s : Z := %d.\n", k.Foreign, name, k.Code))
		case k.Arg > 0:
			t.errkDefs = append(t.errkDefs, fmt.Sprintf("\n(* an error built from a format that contains %q, carrying its operand %d (nil = 0) *)\nDefinition %s (a : Z) : Z := %d + 16 * a.\n", k.Substr, k.Arg, name, k.Code))
		default:
			t.errkDefs = append(t.errkDefs, fmt.Sprintf("\n(* an error built from a format that contains %q (nil = 0) *)\nDefinition %s : Z := %d.\n", k.Substr, name, k.Code))
		}
		t.errkDefs = append(t.errkDefs, fmt.Sprintf("#[export] Hint Unfold %s : go2v.\n", name))
	}
	return name
}

func (t *Translator) consts15() string { return strings.Join(t.errkDefs, "") }

// pkgSel: pkg.Name for a selector whose left side is an imported package
func (t *Translator) pkgSel(e ast.Expr) (string, string) {
	if s, ok := ast.Unparen(e).(*ast.SelectorExpr); ok {
		if id, ok := s.X.(*ast.Ident); ok {
			if pn, ok := t.info.Uses[id].(*types.PkgName); ok {
				return pn.Imported().Path(), s.Sel.Name
			}
		}
	}
	return "", ""
}

// foreign15: a sentinel error variable of an imported package (hex.ErrLength)
func (c *fctx) foreign15(x *ast.SelectorExpr) (string, bool) {
	path, name := c.t.pkgSel(x)
	if path == "" {
		return "", false
	}
	for _, k := range c.t.spec.T15.ErrKinds {
		if k.Foreign == filepath.Base(path)+"."+name {
			return c.t.useKind15(k), true
		}
	}
	return "", false
}

// call15: fmt.Errorf / errors.New with a constant format; hex.EncodedLen / hex.DecodedLen
func (c *fctx) call15(x *ast.CallExpr, en *env, k func([]string) string) (string, bool) {
	t := c.t
	if !t.spec.T15.active() {
		return "", false
	}
	path, name := t.pkgSel(x.Fun)
	switch {
	case len(t.spec.T15.ErrKinds) > 0 && ((path == "fmt" && name == "Errorf") || (path == "errors" && name == "New")):
		if len(x.Args) == 0 {
			t.fail(x, "%s.%s without a format", path, name)
		}
		tv, ok := t.info.Types[x.Args[0]]
		if !ok || tv.Value == nil || tv.Value.Kind() != constant.String {
			t.fail(x, "%s.%s with a format that is not a constant", filepath.Base(path), name)
		}
		format := constant.StringVal(tv.Value)
		var hit []ErrKind
		for _, ek := range t.spec.T15.ErrKinds {
			if ek.Substr != "" && strings.Contains(format, ek.Substr) {
				hit = append(hit, ek)
			}
		}
		if len(hit) != 1 {
			t.fail(x, "error text %q belongs to %d of the area's error kinds (exactly one is needed)", format, len(hit))
		}
		ek := hit[0]
		if ek.Arg > len(x.Args)-1 {
			t.fail(x, "error kind %s carries operand %d, but the call has %d", ek.Name, ek.Arg, len(x.Args)-1)
		}
		if ek.Arg > 0 {
			if g := t.exprType(x.Args[ek.Arg]); g.k != kInt && g.k != kUint {
				t.fail(x, "error kind %s carries operand %d, which is not an integer", ek.Name, ek.Arg)
			}
		}
		// the operands are evaluated (left to right: they may panic); only the carried one is kept
		return c.args(x.Args[1:], en, func(vs []string) string {
			term := t.useKind15(ek)
			if ek.Arg > 0 {
				term = "(" + term + " " + vs[ek.Arg-1] + ")"
			}
			return k([]string{term})
		}), true
	case t.spec.T15.StdHexLen && path == "encoding/hex" && (name == "EncodedLen" || name == "DecodedLen") && len(x.Args) == 1:
		return c.expr(x.Args[0], en, func(a string) string {
			if name == "EncodedLen" {
				return k([]string{"(" + a + " * 2)"})
			}
			return k([]string{"(Z.quot " + a + " 2)"})
		}), true
	}
	return "", false
}

// errCmp15: with error kinds in use, == / != on errors needs nil or a sentinel on one side
func (c *fctx) errCmp15(x *ast.BinaryExpr) {
	t := c.t
	if len(t.spec.T15.ErrKinds) == 0 || (x.Op != token.EQL && x.Op != token.NEQ) {
		return
	}
	isErr := func(e ast.Expr) bool {
		tv, ok := t.info.Types[e]
		if !ok || tv.Type == nil {
			return false
		}
		nm, ok := tv.Type.(*types.Named)
		return ok && nm.Obj().Pkg() == nil && nm.Obj().Name() == "error"
	}
	if !isErr(x.X) && !isErr(x.Y) {
		return
	}
	fixed := func(e ast.Expr) bool {
		if nilIdent(e) != nil {
			return true
		}
		if s, ok := ast.Unparen(e).(*ast.SelectorExpr); ok {
			_, ok := c.foreign15(s)
			return ok
		}
		if id, ok := ast.Unparen(e).(*ast.Ident); ok {
			if v, ok := t.info.Uses[id].(*types.Var); ok && v.Parent() == t.tpkg.Scope() {
				return true // a package-level sentinel (checked by sentinel20)
			}
		}
		return false
	}
	if !fixed(x.X) && !fixed(x.Y) {
		t.fail(x, "comparison of two error values neither of which is nil or a sentinel (errors built by fmt.Errorf are never equal)")
	}
}

// sentinelClash15: in-package sentinels are numbered 1, 2, ... by [ext:T20]; together with error kinds the codes could collide
func (c *fctx) sentinelClash15(id *ast.Ident) {
	if len(c.t.spec.T15.ErrKinds) > 0 {
		c.t.fail(id, "package-level sentinel error %s in an area with error kinds (list it as a kind)", id.Name)
	}
}

// ---- switch with a tag -------------------------------------------------------------------------------------------------

// switch15 rewrites `switch tag { case a, b: }` into the tagless `switch { case tag == a || tag == b: }` (then the
// if / else-if chain of trans_seq.go).  A tag free of side effects and panics is repeated in every comparison (evaluating
// it once per comparison is evaluating it once); any other tag is evaluated once, before the cases, into a temporary.
func (c *fctx) switch15(x *ast.SwitchStmt, en *env, lc *lctx, next kont) string {
	if x.Tag == nil {
		return c.switchStmt(x, en, lc, next)
	}
	t := c.t
	if !t.spec.T15.active() {
		t.fail(x, "switch with a tag")
	}
	g := t.exprType(x.Tag)
	if g.k != kInt && g.k != kUint && g.k != kBool {
		t.fail(x, "switch with a tag that is not an integer or a bool")
	}
	untag := func(tag ast.Expr, init ast.Stmt) *ast.SwitchStmt {
		body := &ast.BlockStmt{Lbrace: x.Body.Lbrace, Rbrace: x.Body.Rbrace}
		for _, s := range x.Body.List {
			cc := s.(*ast.CaseClause)
			nc := &ast.CaseClause{Case: cc.Case, Colon: cc.Colon, Body: cc.Body}
			for _, e := range cc.List {
				eq := &ast.BinaryExpr{X: tag, OpPos: e.Pos(), Op: token.EQL, Y: e}
				t.info.Types[eq] = types.TypeAndValue{Type: types.Typ[types.Bool]}
				nc.List = append(nc.List, eq)
			}
			body.List = append(body.List, nc)
		}
		return &ast.SwitchStmt{Switch: x.Switch, Init: init, Body: body}
	}
	if c.pure(x.Tag) {
		return c.switchStmt(untag(x.Tag, x.Init), en, lc, next)
	}
	if x.Init != nil {
		t.fail(x, "switch with an init statement and a tag whose evaluation may panic, loop or assign")
	}
	c.checkOrder(x.Tag)
	return c.expr(x.Tag, en, func(v string) string {
		name := c.fresh("t")
		obj := types.NewVar(x.Tag.Pos(), t.tpkg, name, t.info.Types[x.Tag].Type)
		id := &ast.Ident{NamePos: x.Tag.Pos(), Name: name}
		t.info.Uses[id] = obj
		t.info.Types[id] = types.TypeAndValue{Type: t.info.Types[x.Tag].Type}
		en2 := c.taintCalls(x.Tag, en).with(varInfo{obj: obj, name: name, ty: g})
		return fmt.Sprintf("let %s := %s in\n%s", name, v, c.switchStmt(untag(id, nil), en2, lc, scoped(en, next)))
	})
}

// ---- slice parameters written in place ------------------------------------------------------------------------------------

func (t *Translator) sliceParam15(fi *funcInfo, i int) *types.Var {
	sig := fi.obj.Type().(*types.Signature)
	p := sig.Params().At(i)
	if _, ok := p.Type().Underlying().(*types.Slice); !ok {
		return nil
	}
	if _, isTP := p.Type().(*types.TypeParam); isTP {
		return nil
	}
	if g := t.typeOf(p.Type(), fi.decl); g.k != kSlice || g.elem != nil || g.str {
		return nil
	}
	return p
}

func (fi *funcInfo) isOut15(i int) bool {
	for _, j := range fi.outs15 {
		if i == j {
			return true
		}
	}
	return false
}

func (t *Translator) identObj(e ast.Expr) types.Object {
	if id, ok := ast.Unparen(e).(*ast.Ident); ok {
		if o := t.info.Uses[id]; o != nil {
			return o
		}
		return t.info.Defs[id]
	}
	return nil
}

// outs15: one round of the analysis "which slice parameters does fi write in place"; true when one was added
func (t *Translator) outs15(fi *funcInfo) bool {
	if !t.spec.T15.OutParams || fi.frag != nil || fi.decl.Body == nil {
		return false
	}
	sig := fi.obj.Type().(*types.Signature)
	changed := false
	for i := 0; i < sig.Params().Len(); i++ {
		p := t.sliceParam15(fi, i)
		if p == nil || fi.isOut15(i) {
			continue
		}
		written := false
		indexed := func(e ast.Expr) bool { // p[i] (possibly p[a:b][i]): an element of p's array
			e = ast.Unparen(e)
			ix, ok := e.(*ast.IndexExpr)
			if !ok {
				return false
			}
			o, _ := t.rootObj(ix.X)
			return o == types.Object(p)
		}
		ast.Inspect(t.body(fi), func(m ast.Node) bool {
			switch x := m.(type) {
			case *ast.AssignStmt:
				for _, l := range x.Lhs {
					if indexed(l) {
						written = true
					}
				}
			case *ast.IncDecStmt:
				if indexed(x.X) {
					written = true
				}
			case *ast.CallExpr:
				if id, ok := ast.Unparen(x.Fun).(*ast.Ident); ok && len(x.Args) > 0 {
					if b, ok := t.info.Uses[id].(*types.Builtin); ok && b.Name() == "copy" {
						if o, _ := t.rootObj(x.Args[0]); o == types.Object(p) {
							written = true
						}
					}
				}
				if fn, _ := t.calleeOf(x); fn != nil {
					if ci := t.funcs[fn]; ci != nil {
						for _, j := range ci.outs15 {
							if j < len(x.Args) && t.identObj(x.Args[j]) == types.Object(p) {
								written = true
							}
						}
					}
				}
			}
			return true
		})
		if written {
			fi.outs15 = append(fi.outs15, i)
			changed = true
		}
	}
	if changed {
		for a := 0; a < len(fi.outs15); a++ { // keep parameter order
			for b := a + 1; b < len(fi.outs15); b++ {
				if fi.outs15[b] < fi.outs15[a] {
					fi.outs15[a], fi.outs15[b] = fi.outs15[b], fi.outs15[a]
				}
			}
		}
	}
	return changed
}

// outVars15: the out-parameters of fi as variables; also refuses a whole assignment to one of them
func (t *Translator) outVars15(fi *funcInfo) []*types.Var {
	if len(fi.outs15) == 0 {
		return nil
	}
	sig := fi.obj.Type().(*types.Signature)
	var vs []*types.Var
	for _, i := range fi.outs15 {
		vs = append(vs, sig.Params().At(i))
	}
	return vs
}

func (t *Translator) checkOuts15(fi *funcInfo) {
	for _, p := range t.outVars15(fi) {
		ast.Inspect(t.body(fi), func(m ast.Node) bool {
			if as, ok := m.(*ast.AssignStmt); ok {
				for _, l := range as.Lhs {
					if t.identObj(l) == types.Object(p) {
						t.fail(as, "assignment to the slice parameter %s, which the function also writes in place (the caller would not see the new slice)", p.Name())
					}
				}
			}
			return true
		})
	}
}

// outNames15: the current names of fi's out-parameters (for `return`)
func (c *fctx) outNames15(en *env) []string {
	var ns []string
	for _, p := range c.t.outVars15(c.fi) {
		ns = append(ns, en.lookup(p).name)
	}
	return ns
}

// outArgs15: at a call of fi, the variables that receive the written slices back; refuses aliasing between arguments
func (c *fctx) outArgs15(fi *funcInfo, x *ast.CallExpr, en *env) []string {
	var ns []string
	for _, j := range fi.outs15 {
		a := ast.Unparen(x.Args[j])
		id, ok := a.(*ast.Ident)
		var v *varInfo
		if ok {
			v = en.lookup(c.t.identObj(id))
		}
		if v == nil || v.ty.k != kSlice || v.ty.str || v.ty.elem != nil {
			c.t.fail(x, "call of %s: the argument for its slice parameter written in place must be a local slice variable", fi.goName)
		}
		c.checkWritable(v.name, en, x)
		for i, b := range x.Args {
			if i == j {
				continue
			}
			hit := false
			ast.Inspect(b, func(m ast.Node) bool {
				if bid, ok := m.(*ast.Ident); ok && c.t.identObj(bid) == v.obj {
					hit = true
				}
				return !hit
			})
			if hit {
				c.t.fail(x, "call of %s: %s is written in place and also occurs in another argument (aliasing is not modelled)", fi.goName, v.name)
			}
		}
		ns = append(ns, v.name)
	}
	return ns
}

// outAssigned15: the variables a call assigns through out-parameters (for join points, loop states, evaluation order)
func (t *Translator) outAssigned15(x *ast.CallExpr, f func(types.Object)) {
	if fn, _ := t.calleeOf(x); fn != nil {
		if fi := t.funcs[fn]; fi != nil {
			for _, j := range fi.outs15 {
				if j < len(x.Args) {
					if o := t.identObj(x.Args[j]); o != nil {
						f(o)
					}
				}
			}
		}
	}
}

// lhsIsSlice15: the left-hand side is a slice-typed variable or field.  (For an identifier that `:=` merely re-uses,
// go/types records a use but no type, so the variable's own type is consulted.)
func (c *fctx) lhsIsSlice15(lhs ast.Expr, en *env) bool {
	if o := c.t.identObj(lhs); o != nil {
		if v := en.lookup(o); v != nil {
			return v.ty.k == kSlice
		}
	}
	return c.t.exprType(lhs).k == kSlice
}

// notKept15: argument i of a call of fn is a slice the callee writes in place and cannot keep: it has no slice result, no
// receiver or package-level state that it (transitively) writes.  Such a call does not make the argument shared.
func (t *Translator) notKept15(fn *types.Func, i int) bool {
	fi := t.funcs[fn]
	if fi == nil || !fi.isOut15(i) || (fi.recv != nil && fi.writes) || len(fi.gwrites) > 0 {
		return false
	}
	for _, g := range fi.results {
		if g.k == kSlice || g.k == kStruct {
			return false
		}
	}
	return true
}

// shape15: the loop count of the listed functions and the set of package-level string constants read (see T15Spec)
func (t *Translator) shape15() {
	for name, want := range t.spec.T15.Loops {
		fd := t.byName[name]
		if fd == nil {
			continue
		}
		n := 0
		ast.Inspect(fd.Body, func(m ast.Node) bool {
			switch m.(type) {
			case *ast.ForStmt, *ast.RangeStmt:
				n++
			}
			return true
		})
		if n != want {
			t.fail(fd, "%s has %d loops, the proof scripts of the area cover %d (restructured code: not a translation failure, the area degrades)", name, n, want)
		}
	}
	if t.spec.T15.Consts != nil {
		for name := range t.strNames {
			ok := false
			for _, c := range t.spec.T15.Consts {
				ok = ok || c == name
			}
			if !ok {
				t.fail(nil, "package-level string constant %s is read, which the proof scripts of the area do not know (restructured code: the area degrades)", name)
			}
		}
	}
}
