package main

import (
	"fmt"
	"go/ast"
	"math/big"
)

// Area Trie (C05/C06): constants of algz/trie.go the Coq model depends on.
//   invalid_byte_base : the value offset decodeRune gives an invalid byte (utf8.MaxRune + 1)
//   rune_self         : the ASCII fast-path bound used by decodeRune (utf8.RuneSelf)
//   queue_init_cap    : the argument of queue.Init(..) in BuildFailureLinks
//   queue_grow_factor : the factor in `q.cap = q.cap * 2` of trieNodeQueue.Push
func init() {
	Register(Area{Name: "Trie", Gen: func(repo string) (string, error) {
		p, err := Load(repo, "algz")
		if err != nil {
			return "", err
		}
		base, err := p.Int("invalidByteBase")
		if err != nil {
			return "", err
		}
		// decodeRune: `if b := s[i]; b < utf8.RuneSelf`
		dr := p.Func("decodeRune")
		if dr == nil {
			return "", fmt.Errorf("decodeRune not found")
		}
		var self *big.Int
		ast.Inspect(dr.Body, func(n ast.Node) bool {
			if ifs, ok := n.(*ast.IfStmt); ok && self == nil {
				if be, ok := ifs.Cond.(*ast.BinaryExpr); ok && be.Op.String() == "<" {
					if v, err := Eval(be.Y, p.Env, 0); err == nil {
						self = v
					}
				}
			}
			return true
		})
		if self == nil {
			return "", fmt.Errorf("decodeRune: ASCII fast-path bound not found")
		}
		// BuildFailureLinks: queue.Init(<n>)
		bf := p.Func("Trie.BuildFailureLinks")
		if bf == nil {
			return "", fmt.Errorf("Trie.BuildFailureLinks not found")
		}
		var initCap *big.Int
		ast.Inspect(bf.Body, func(n ast.Node) bool {
			if ce, ok := n.(*ast.CallExpr); ok {
				if se, ok := ce.Fun.(*ast.SelectorExpr); ok && se.Sel.Name == "Init" && len(ce.Args) == 1 {
					if v, err := Eval(ce.Args[0], p.Env, 0); err == nil {
						initCap = v
					}
				}
			}
			return true
		})
		if initCap == nil {
			return "", fmt.Errorf("BuildFailureLinks: queue.Init(n) not found")
		}
		// trieNodeQueue.Push: q.cap = q.cap * <k>
		pu := p.Func("trieNodeQueue.Push")
		if pu == nil {
			return "", fmt.Errorf("trieNodeQueue.Push not found")
		}
		var factor *big.Int
		ast.Inspect(pu.Body, func(n ast.Node) bool {
			if as, ok := n.(*ast.AssignStmt); ok && len(as.Lhs) == 1 && len(as.Rhs) == 1 {
				if l, ok := as.Lhs[0].(*ast.SelectorExpr); ok && l.Sel.Name == "cap" {
					if be, ok := as.Rhs[0].(*ast.BinaryExpr); ok && be.Op.String() == "*" {
						if v, err := Eval(be.Y, p.Env, 0); err == nil {
							factor = v
						}
					}
				}
			}
			return true
		})
		if factor == nil {
			return "", fmt.Errorf("trieNodeQueue.Push: growth factor not found")
		}
		return CoqZ("invalid_byte_base", base) + CoqZ("rune_self", self) +
			CoqZ("queue_init_cap", initCap) + CoqZ("queue_grow_factor", factor), nil
	}})
}
