// go2v — a translator from a subset of Go to Gallina (see gen/TRANSLATOR.md).
//
// trans.go      : package loading + type checking (go/types with a stub importer), type mapping, struct -> Record,
//
//	call graph / effect analysis (does a method write its receiver? does a function loop?), emission.
//
// trans_expr.go : expressions (continuation-passing: every sub-expression that can panic becomes a bind).
// trans_stmt.go : statements, join points, loops.
//
// The output is a shallow embedding in the result monad M of coq/Lib/GoSem.v (Ret / Panic / NoFuel).
// Everything outside the supported subset fails closed: `unsupported: <what> at file:line`.
package main

import (
	"fmt"
	"go/ast"
	"go/token"
	"go/types"
	"path/filepath"
	"sort"
	"strings"
)

// TransSpec says what to translate.
type TransSpec struct {
	Dir       string                   // package directory below the repository root
	Structs   []string                 // struct types that become Records
	Funcs     []string                 // "Recv.Name" or "Name"; callees inside the package are pulled in automatically
	Extern    []string                 // [seq] functions translated by another area (its Gen file is imported by the caller's header): analysed, not emitted
	Expect    map[string][]ExpectField // [stable] struct -> its pristine fields (name, Go type) in order: stable Record names (trans_stable.go)
	TimedTail []string                 // [seq] functions whose body is translated up to the first statement using package time (trans_seq.go)
	// [ext:T20] (gen/trans_ext20.go) -------------------------------------------------------------------------------
	Globals    []string // package-level variables treated as explicit state: read -> extra parameter, written -> extra result
	WrapSigned bool     // int8/16/32/64 wrap around (swrap N) instead of being unbounded; `int` stays unbounded
	Frags      []FragSpec
	InPlace    bool     // [ext:T07] byte-buffer code: slice parameters written in place are handed back, bytestring type parameters, package-level tables, range over a slice written in place (gen/trans_ext07.go)
	Std        []string // [ext:T07] standard-library functions translated through their models in Lib/GoSemStd.v (gen/trans_ext07.go)
	Identity   []string // [ext:T07] functions of the package translated as the identity on byte lists (unsafe string <-> []byte casts)
	Str17      bool     // [ext:T17] rune-aware string code: + / == on strings, range over a string, []rune, strings.Repeat, strings.Builder (gen/trans_ext17.go)
	T15        T15Spec  // [ext:T15] (gen/trans_ext15.go) byte-sequence type parameters, real imports, error kinds, out-parameters
	// [ext:T08] (gen/trans_ext08.go) -------------------------------------------------------------------------------
	Stubs         map[string]string // import path -> declarations (Go source) of a foreign package, as far as the code uses it
	ModuleImports bool              // packages of the translated module are type-checked from their source in the tree
	Foreign       []ForeignSpec     // functions / methods of other packages: fields of the generated `Record Foreign`
	OutParams     map[string][]int  // function -> slice parameters that are output buffers (returned in front of the results)
	ErrCodes      []ErrCode         // errors.New / fmt.Errorf texts -> error codes
	// [func] (gen/trans_func.go) InOut (opt-in, see "In-out slice parameters" in TRANSLATOR.md): a slice parameter that a
	// function only indexes, measures, ranges over or passes on in the same way, and whose elements it writes, is returned
	// to the caller (after the receiver, before the results) and the caller rebinds the variable / field it passed.
	InOut bool
	// [ext:T03] (gen/trans_ext03.go) -------------------------------------------------------------------------------
	Ext03  bool                // struct-typed / pointer-to-struct / embedded fields, struct twins (type B A), composite literals, unsafe reads, slice out-params
	Ifaces map[string][]string // interface -> the translated structs whose pointers implement it (a sum type; result position only)
	Heads  []string            // functions of which only the leading simple declarations are translated: g_<Func>_head
	T09    T09Spec             // [ext:T09] (gen/trans_ext09.go) capacity of scratch buffers, foreign variables, functions of the package taken as foreign, dead aliases
}

type unsupported struct{ msg string }

type kind int

const (
	kInt    kind = iota // Go int / int64 / untyped integer constant -> Z, unbounded
	kUint               // uintN -> Z in [0, 2^bits)
	kBool               // bool
	kElem               // a type parameter -> Z, zero value 0
	kSlice              // []int-like / []T -> list Z
	kStruct             // a translated struct (or a pointer to it) -> its Record
	kPlace              // [seq] h := &s[i], s a slice of translated structs -> the index (trans_seq.go)
	kErr                // [ext:T20] error -> Z: nil = 0, a sentinel `var ErrX = errors.New(..)` = a positive code
	kOpaque             // [ext:T08] a value of a foreign type: `<type> ext'`, a field of the Record Foreign
	kFunc               // [func] a function-typed parameter / field (trans_func.go) -> a Gallina function
)

type gtype struct {
	k     kind
	bits  int
	st    *structInfo
	ptr   bool
	elem  *structInfo // [seq] kSlice: the element struct of a []S (nil: list Z)
	str   bool        // [ext:T20] kSlice that is a Go string (immutable bytes)
	arr   int64       // [ext:T20] kSlice that is a Go array [arr]T (isArr)
	isArr bool
	ifc   *ifaceInfo // [ext:T03] kIface
	nest  bool       // [ext:T08] kSlice whose elements are slices of integers: list (list Z)
	opq   string     // [ext:T08] kOpaque: the Record field that is its type
	fn    *funcSig   // [func] kFunc
}

func (g gtype) coq() string {
	switch g.k {
	case kBool:
		return "bool"
	case kSlice:
		if g.elem != nil { // [seq]
			return "list " + g.elem.name
		}
		if g.nest { // [ext:T08]
			return "list (list Z)"
		}
		return "list Z"
	case kStruct:
		return g.st.name
	case kIface: // [ext:T03]
		return g.ifc.name
	case kOpaque: // [ext:T08]
		return "(" + g.opq + " ext')"
	case kFunc:
		return g.fn.coq()
	}
	return "Z"
}
func (g gtype) zero() string {
	switch g.k {
	case kBool:
		return "false"
	case kSlice:
		if g.isArr && g.nest { // [ext:T08]
			return fmt.Sprintf("(repeat [] %d)", g.arr)
		}
		if g.isArr { // [ext:T20]
			return fmt.Sprintf("(repeat 0 %d)", g.arr)
		}
		return "[]"
	case kStruct:
		return "zero_" + g.st.name
	case kFunc:
		return "nil_func_is_not_modelled" // never emitted: declarations needing it are refused (trans_func.go)
	}
	return "0"
}

type structInfo struct {
	name    string
	obj     *types.TypeName
	fields  []string
	ftypes  []gtype
	goNames []string // [stable] the Go name of each field (fields: the emitted names), same order
}

type funcInfo struct {
	decl    *ast.FuncDecl
	obj     *types.Func
	name    string // Coq name
	goName  string
	recv    *types.Var
	recvT   gtype
	results []gtype
	writes  bool // pointer receiver whose fields are assigned (directly or through calls): the receiver is returned
	loops   bool // contains a loop (directly or through calls): takes `fuel`
	callees map[*funcInfo]bool
	named   []*types.Var // [BitsCode] named results (all or none)
	done    bool
	// [ext:T20]
	greads, gwrites map[*globalInfo]bool // package-level state read / written (directly or through calls)
	ignoredRecv     bool                 // a receiver of an untranslatable type that the body never mentions
	frag            *fragInfo            // a loop fragment of a function instead of a whole function
	outs07          []int                // [ext:T07] indices of the slice parameters written in place: their new contents are returned
	nExtra03        int                  // [ext:T03] extra parameters (memory read through unsafe.Pointer)
	// [ext:T08]
	foreign bool  // calls a foreign function (directly or through calls): takes `ext' : Foreign`
	outs    []int // slice parameters that are output buffers
	// [func] (trans_func.go)
	noesc  []bool // per parameter: a slice the function neither keeps, reslices, returns nor reassigns
	inout  []bool // per parameter: noesc and written in place (directly or through calls): returned to the caller
	outs15 []int  // [ext:T15] indices of the slice parameters written in place (returned before the results)
}

type Translator struct {
	fset    *token.FileSet
	repo    string
	info    *types.Info
	structs map[*types.TypeName]*structInfo
	funcs   map[*types.Func]*funcInfo
	byName  map[string]*ast.FuncDecl
	order   []*funcInfo
	global  map[string]bool // Coq names that locals must not shadow
	seq     *seqState       // [seq] sequential reading of atomics, places, timed tails (trans_seq.go)
	ext20                   // [ext:T20] state of gen/trans_ext20.go
	ext07                   // [ext:T07] state of gen/trans_ext07.go
	ext03                   // [ext:T03] state of gen/trans_ext03.go
	ext08                   // [ext:T08] state of gen/trans_ext08.go
	inOut   bool            // [func] TransSpec.InOut
	ext15                   // [ext:T15] state of gen/trans_ext15.go
	ext09                   // [ext:T09] state of gen/trans_ext09.go
}

type stubImporter struct{}

func (stubImporter) Import(path string) (*types.Package, error) {
	if p := seqStubPackage(path); p != nil { // [seq] sync/atomic, runtime, time: typed stubs
		return p, nil
	}
	if path == "unsafe" { // [ext:T03] unsafe.Pointer is typed by go/types itself
		return types.Unsafe, nil
	}
	if p := import08(path); p != nil { // [ext:T08] TransSpec.Stubs, packages of the translated module
		return p, nil
	}
	if p := stubPackage17(path); p != nil { // [ext:T17] strings.Repeat, strings.Builder: typed stubs
		return p, nil
	}
	if p := stubPackage07(path); p != nil { // [ext:T07] typez.StrOrBytes, strconv.AppendUint, unicode/utf8, unicode/utf16: typed stubs
		return p, nil
	}
	p := types.NewPackage(path, filepath.Base(path))
	if path == "math/bits" { // [BitsCode] the population counts of math/bits are typed, so that calls to them translate
		declareOnesCount(p)
	}
	if path == "errors" { // [ext:T20] errors.New has a type, so that `var ErrX = errors.New("..")` and `err == ErrX` are typed
		sig := types.NewSignatureType(nil, nil, nil, types.NewTuple(types.NewVar(token.NoPos, p, "text", types.Typ[types.String])),
			types.NewTuple(types.NewVar(token.NoPos, p, "", types.Universe.Lookup("error").Type())), false)
		p.Scope().Insert(types.NewFunc(token.NoPos, p, "New", sig))
	}
	p.MarkComplete()
	return p, nil
}

func (t *Translator) pos(n ast.Node) string {
	if n == nil {
		return "?"
	}
	p := t.fset.Position(n.Pos())
	rel, err := filepath.Rel(t.repo, p.Filename)
	if err != nil {
		rel = p.Filename
	}
	return fmt.Sprintf("%s:%d", rel, p.Line)
}

func (t *Translator) fail(n ast.Node, format string, args ...interface{}) {
	panic(unsupported{fmt.Sprintf("unsupported: %s at %s", fmt.Sprintf(format, args...), t.pos(n))})
}

func nodeDesc(n ast.Node) string { return strings.TrimPrefix(fmt.Sprintf("%T", n), "*ast.") }

// ---- types ------------------------------------------------------------------------------------

func (t *Translator) typeOf(ty types.Type, n ast.Node) gtype {
	if ty == nil {
		t.fail(n, "expression without a type")
	}
	if g, ok := t.type08(ty, n); ok { // [ext:T08] opaque foreign types, [][]byte, byte-like type parameters
		return g
	}
	switch x := ty.(type) {
	case *types.Basic:
		if g, ok := t.basic20(x); ok { // [ext:T20] string; intN when TransSpec.WrapSigned
			return g
		}
		switch x.Kind() {
		case types.Int, types.Int64, types.UntypedInt, types.UntypedRune:
			return gtype{k: kInt}
		case types.Uint8:
			return gtype{k: kUint, bits: 8}
		case types.Uint16:
			return gtype{k: kUint, bits: 16}
		case types.Uint32:
			return gtype{k: kUint, bits: 32}
		case types.Uint64, types.Uint, types.Uintptr:
			return gtype{k: kUint, bits: 64}
		case types.Bool, types.UntypedBool:
			return gtype{k: kBool}
		case types.UntypedNil:
			return gtype{k: kSlice}
		}
	case *types.Array: // [ext:T20]
		e := t.typeOf(x.Elem(), n)
		if (e.k == kInt || e.k == kUint) && x.Len() >= 0 {
			return gtype{k: kSlice, isArr: true, arr: x.Len()}
		}
	case *types.TypeParam:
		if g, ok := t.typeParam07(x); ok { // [ext:T07] T constrained to ~string | ~[]byte: a byte list
			return g
		}
		if g, ok := t.typeParam15(x); ok { // [ext:T15] T ~string | ~[]byte -> its byte-list instantiation
			return g
		}
		return gtype{k: kElem}
	case *types.Slice:
		e := t.typeOf(x.Elem(), n)
		if e.k == kInt || e.k == kUint || e.k == kElem {
			return gtype{k: kSlice}
		}
		if e.k == kStruct && !e.ptr { // [seq] []S for a translated struct S
			return gtype{k: kSlice, elem: e.st}
		}
	case *types.Pointer:
		if nm, ok := x.Elem().(*types.Named); ok {
			if si := t.structs[nm.Origin().Obj()]; si != nil {
				return gtype{k: kStruct, st: si, ptr: true}
			}
		}
	case *types.Signature:
		if fs := t.funcSigOf(x, n); fs != nil {
			return gtype{k: kFunc, fn: fs}
		}
	case *types.Named:
		if si := t.structs[x.Origin().Obj()]; si != nil {
			return gtype{k: kStruct, st: si}
		}
		if g, ok := t.iface03(x); ok { // [ext:T03] an interface listed in TransSpec.Ifaces
			return g
		}
		if x.Obj().Pkg() == nil && x.Obj().Name() == "error" { // [ext:T20]
			return gtype{k: kErr}
		}
		if _, ok := x.Underlying().(*types.Basic); ok {
			return t.typeOf(x.Underlying(), n)
		}
	}
	t.fail(n, "type %s", ty.String())
	return gtype{}
}

func (t *Translator) exprType(e ast.Expr) gtype {
	tv, ok := t.info.Types[e]
	if !ok || tv.Type == nil || tv.Type == types.Typ[types.Invalid] {
		t.fail(e, "%s without a valid type", nodeDesc(e))
	}
	return t.typeOf(tv.Type, e)
}

// ---- loading ------------------------------------------------------------------------------------

var coqReserved = strings.Fields(`as at cofix else end exists exists2 fix for forall fun if IF in let match mod Prop return Set then
 Type using where with Z nat list bool unit option true false tt fst snd inl inr negb andb orb xorb eqb repeat length app
 fuel bind Ret Panic NoFuel lift lift_fuel mmap zlen wrap m_rem m_quot m_shl m_shr m_get m_set m_slice m_make m_make_cap
 m_copy copy_all gocopy gorem goquot get_at set_at slice upd while ctl Next Break Return M Some None S O
 swrap str_of_byte ones_count`)

func funcKey(fd *ast.FuncDecl) string {
	n := fd.Name.Name
	if fd.Recv != nil && len(fd.Recv.List) == 1 {
		ty := fd.Recv.List[0].Type
		if s, ok := ty.(*ast.StarExpr); ok {
			ty = s.X
		}
		if ix, ok := ty.(*ast.IndexExpr); ok {
			ty = ix.X
		}
		if ix, ok := ty.(*ast.IndexListExpr); ok {
			ty = ix.X
		}
		if id, ok := ty.(*ast.Ident); ok {
			n = id.Name + "." + n
		}
	}
	return n
}

// Translate produces the Coq text (Records + Definitions) for spec; it fails closed.
func Translate(repo string, spec TransSpec) (out string, err error) {
	p, e := Load(repo, spec.Dir)
	if e != nil {
		return "", e
	}
	t := &Translator{fset: p.Fset, repo: repo, structs: map[*types.TypeName]*structInfo{}, funcs: map[*types.Func]*funcInfo{},
		byName: map[string]*ast.FuncDecl{}, global: map[string]bool{}, inOut: spec.InOut}
	defer func() {
		if r := recover(); r != nil {
			if u, ok := r.(unsupported); ok {
				out, err = "", fmt.Errorf("%s", u.msg)
				return
			}
			panic(r)
		}
	}()
	t.info = &types.Info{Types: map[ast.Expr]types.TypeAndValue{}, Defs: map[*ast.Ident]types.Object{},
		Uses: map[*ast.Ident]types.Object{}, Selections: map[*ast.SelectorExpr]*types.Selection{}}
	defer begin08(repo, spec)() // [ext:T08] import context (stubs of foreign packages)
	t.begin09(p, spec)          // [ext:T09] source normalisation (capacity-tracked scratch buffers), before type checking
	conf := types.Config{Importer: stubImporter{}, Error: func(error) {}}
	conf.Importer = t.importer15(spec, conf.Importer) // [ext:T15] real packages of the module, typed fmt.Errorf / encoding/hex stubs
	tpkg, _ := conf.Check(spec.Dir, p.Fset, p.Files, t.info)
	if tpkg == nil {
		return "", fmt.Errorf("type checking %s failed", spec.Dir)
	}
	for _, w := range coqReserved {
		t.global[w] = true
	}
	t.seqInit(spec, tpkg, p.Files) // [seq]
	t.setup20(p, tpkg, spec)       // [ext:T20]
	t.setup07(spec)                // [ext:T07]
	t.setup17(spec)                // [ext:T17]
	t.setup08(spec)                // [ext:T08]
	t.setup09(spec)                // [ext:T09]
	t.setup15(spec)                // [ext:T15]
	for _, f := range p.Files {
		for _, d := range f.Decls {
			if fd, ok := d.(*ast.FuncDecl); ok && fd.Body != nil {
				if fd.Recv == nil && fd.Name.Name == "init" { // [ext:T20] several init() may exist: keyed by the global they assign
					t.keyInit20(fd)
					continue
				}
				t.byName[funcKey(fd)] = fd
			}
		}
	}
	// structs
	var sb strings.Builder
	for _, sn := range spec.Structs {
		obj, _ := tpkg.Scope().Lookup(sn).(*types.TypeName)
		if obj == nil {
			return "", fmt.Errorf("struct type %s not found in %s", sn, spec.Dir)
		}
		st, ok := obj.Type().Underlying().(*types.Struct)
		if !ok {
			return "", fmt.Errorf("%s is not a struct type", sn)
		}
		si := &structInfo{name: sn, obj: obj}
		t.structs[obj] = si
		for i := 0; i < st.NumFields(); i++ {
			f := st.Field(i)
			if f.Embedded() && !spec.Ext03 { // [ext:T03] an embedded translated struct is a field named like its type
				t.fail(nil, "embedded field %s of struct %s", f.Name(), sn)
			}
			ft := func() (g gtype) {
				defer func() {
					if r := recover(); r != nil {
						panic(unsupported{fmt.Sprintf("unsupported: field %s.%s of type %s", sn, f.Name(), f.Type())})
					}
				}()
				return t.typeOf(f.Type(), nil)
			}()
			if ft.k == kStruct && !spec.Ext03 { // [ext:T03]
				t.fail(nil, "struct-typed field %s.%s", sn, f.Name())
			}
			si.fields = append(si.fields, f.Name())
			si.ftypes = append(si.ftypes, ft)
			si.goNames = append(si.goNames, f.Name())
		}
		{ // [stable] emit the expected names in the expected order when only names / order changed
			var tys []string
			for i := 0; i < st.NumFields(); i++ {
				tys = append(tys, fieldTypeString(st.Field(i).Type()))
			}
			if order, names, ok := stableFields(si.goNames, tys, spec.Expect[sn]); ok {
				var gn []string
				var ft []gtype
				for _, j := range order {
					gn, ft = append(gn, si.goNames[j]), append(ft, si.ftypes[j])
				}
				si.fields, si.goNames, si.ftypes = names, gn, ft
			}
		}
		t.global[sn], t.global["mk"+sn], t.global["zero_"+sn] = true, true, true
		for _, f := range si.fields {
			t.global[sn+"_"+f], t.global["set_"+sn+"_"+f] = true, true
		}
		sb.WriteString(si.emit())
	}
	sb.WriteString(t.setup03(tpkg, spec)) // [ext:T03] struct twins, interface sums
	// functions: roots, then callees discovered by the analysis
	for _, fn := range spec.Funcs {
		if t.addFunc(fn) == nil {
			return "", fmt.Errorf("function %s not found in %s (or it has no body)", fn, spec.Dir)
		}
	}
	t.addFrags20(spec) // [ext:T20]
	t.addHeads03(spec) // [ext:T03] leading declarations of functions that cannot be translated as a whole
	t.analyse()
	var fb strings.Builder // [ext:T20] functions first (they register the constants they use), constants emitted before them
	for _, fi := range t.order {
		if t.seq.extern[fi.goName] { // [seq] emitted by another area
			continue
		}
		fb.WriteString("\n" + t.emitFunc(fi))
		// proofs unfold generated definitions through this hint database, so that a helper function that appears
		// in the source later is unfolded without touching the proof scripts
		fmt.Fprintf(&fb, "#[export] Hint Unfold %s : go2v.\n", fi.name)
		fb.WriteString(t.auxHint07(fi)) // [ext:T07] helpers the area does not list: a second database, so that proofs can open them and nothing else
	}
	sb.WriteString(t.consts20())
	sb.WriteString(t.consts07()) // [ext:T07] package-level tables
	sb.WriteString(t.record08()) // [ext:T08] Record Foreign
	sb.WriteString(t.consts15()) // [ext:T15] error kinds
	t.shape15()                  // [ext:T15] the shape the area's proof scripts cover (else: degrade)
	sb.WriteString(fb.String())
	return sb.String(), nil
}

func (si *structInfo) emit() string {
	var b strings.Builder
	fmt.Fprintf(&b, "\n(* type %s struct%s *)\nRecord %s : Type := mk%s {", si.name, si.renameNote(), si.name, si.name)
	for i, f := range si.fields {
		if i > 0 {
			b.WriteString(";")
		}
		fmt.Fprintf(&b, " %s_%s : %s", si.name, f, si.ftypes[i].coq())
	}
	b.WriteString(" }.\n")
	for i, f := range si.fields {
		fmt.Fprintf(&b, "Definition set_%s_%s (s : %s) (x : %s) : %s := mk%s", si.name, f, si.name, si.ftypes[i].coq(), si.name, si.name)
		for j, g := range si.fields {
			if i == j {
				b.WriteString(" x")
			} else {
				fmt.Fprintf(&b, " (%s_%s s)", si.name, g)
			}
		}
		b.WriteString(".\n")
	}
	if si.hasFunc() { // a nil function value is not modelled: no zero value (declarations needing one are refused)
		fmt.Fprintf(&b, "#[export] Hint Unfold")
	} else {
		fmt.Fprintf(&b, "Definition zero_%s : %s := mk%s", si.name, si.name, si.name)
		for _, ft := range si.ftypes {
			b.WriteString(" " + ft.zero())
		}
		b.WriteString(".\n")
		fmt.Fprintf(&b, "#[export] Hint Unfold zero_%s", si.name)
	}
	for _, f := range si.fields {
		fmt.Fprintf(&b, " set_%s_%s %s_%s", si.name, f, si.name, f)
	}
	b.WriteString(" : go2v.\n")
	return b.String()
}

func (t *Translator) addFunc(key string) *funcInfo {
	fd := t.byName[key]
	if fd == nil {
		return nil
	}
	obj, _ := t.info.Defs[fd.Name].(*types.Func)
	if obj == nil {
		return nil
	}
	if fi := t.funcs[obj]; fi != nil {
		return fi
	}
	fi := &funcInfo{decl: fd, obj: obj, goName: key, name: "g_" + strings.NewReplacer(".", "_", ":", "_").Replace(key), callees: map[*funcInfo]bool{}}
	t.funcs[obj] = fi
	t.global[fi.name] = true
	sig := obj.Type().(*types.Signature)
	if sig.Variadic() {
		t.fail(fd, "variadic function %s", key)
	}
	if r := sig.Recv(); r != nil {
		if !t.recv20(fi, r) { // [ext:T20] value receiver of a named integer type; unused receiver of an untranslatable type
			fi.recv = r
			fi.recvT = t.typeOf(r.Type(), fd)
			if fi.recvT.k != kStruct {
				t.fail(fd, "receiver type %s", r.Type())
			}
		}
	}
	for i := 0; i < sig.Params().Len(); i++ {
		if g := t.typeOf(sig.Params().At(i).Type(), fd); g.k == kStruct && g.ptr {
			t.fail(fd, "pointer parameter of %s", key)
		}
	}
	for i := 0; i < sig.Results().Len(); i++ {
		rv := sig.Results().At(i)
		if rv.Name() == "_" {
			t.fail(fd, "blank named result of %s", key)
		}
		if rv.Name() != "" { // [BitsCode] named results: locals initialised to zero; a bare return yields their values
			fi.named = append(fi.named, rv)
		}
		g := t.typeOf(rv.Type(), fd)
		if g.k == kStruct && g.ptr {
			t.fail(fd, "pointer result of %s", key)
		}
		if g.k == kFunc {
			t.fail(fd, "function-typed result of %s", key)
		}
		fi.results = append(fi.results, g)
	}
	t.outs08(fi, key, sig) // [ext:T08] output parameters
	return fi
}

// calleeOf resolves a call expression to a function of the package (nil: builtin, conversion or foreign).
func (t *Translator) calleeOf(call *ast.CallExpr) (*types.Func, ast.Expr) {
	if t.selfForeign09(call) != nil { // [ext:T09] a function of the package that the area takes as foreign
		return nil, nil
	}
	fun := ast.Unparen(call.Fun)
	if ix, ok := fun.(*ast.IndexExpr); ok { // explicit instantiation f[T](...)
		fun = ix.X
	}
	if ix, ok := fun.(*ast.IndexListExpr); ok {
		fun = ix.X
	}
	switch f := fun.(type) {
	case *ast.Ident:
		if fn, ok := t.info.Uses[f].(*types.Func); ok {
			return fn.Origin(), nil
		}
	case *ast.SelectorExpr:
		if sel := t.info.Selections[f]; sel != nil && sel.Kind() == types.MethodVal {
			if fn, ok := sel.Obj().(*types.Func); ok && (t.seq == nil || fn.Pkg() == t.seq.pkg) { // [seq] not methods of stub packages
				return fn.Origin(), f.X
			}
		}
	}
	return nil, nil
}

func (t *Translator) funcFor(fn *types.Func, at ast.Node) *funcInfo {
	if fi := t.funcs[fn]; fi != nil {
		return fi
	}
	for key, fd := range t.byName {
		if t.info.Defs[fd.Name] == types.Object(fn) {
			return t.addFunc(key)
		}
	}
	t.fail(at, "call to %s, which is not a function of the translated package", fn.FullName())
	return nil
}

// rootObj strips index / slice / field / paren layers: the variable an lvalue (or a receiver expression) lives in.
func (t *Translator) rootObj(e ast.Expr) (types.Object, bool) {
	deep := false
	for {
		switch x := e.(type) {
		case *ast.ParenExpr:
			e = x.X
		case *ast.IndexExpr:
			e, deep = x.X, true
		case *ast.SliceExpr:
			e, deep = x.X, true
		case *ast.SelectorExpr:
			e, deep = x.X, true
		case *ast.StarExpr:
			e, deep = x.X, true
		case *ast.CallExpr: // [ext:T03] a conversion (*T)(p) names the storage of p
			a := t.convArg03(x)
			if a == nil {
				return nil, deep
			}
			e = a
		case *ast.Ident:
			if o := t.info.Uses[x]; o != nil {
				return o, deep
			}
			return t.info.Defs[x], deep
		default:
			return nil, deep
		}
	}
}

// assigned collects the variables a piece of code may assign (directly, through copy, or through a call of a method
// that writes its receiver).
func (t *Translator) assigned(n ast.Node, set map[types.Object]bool) {
	if n == nil {
		return
	}
	ast.Inspect(n, func(m ast.Node) bool {
		t.seqAssigned(m, set) // [seq] writes through h := &s[i] and atomic stores
		t.assigned07(m, set)  // [ext:T07] slice arguments written in place by the callee
		t.assigned08(m, set)  // [ext:T08] slice arguments a foreign function writes
		switch x := m.(type) {
		case *ast.AssignStmt:
			for _, l := range x.Lhs {
				if o, _ := t.rootObj(l); o != nil {
					set[o] = true
				}
			}
		case *ast.IncDecStmt:
			if o, _ := t.rootObj(x.X); o != nil {
				set[o] = true
			}
		case *ast.RangeStmt:
			for _, l := range []ast.Expr{x.Key, x.Value} {
				if l != nil {
					if o, _ := t.rootObj(l); o != nil {
						set[o] = true
					}
				}
			}
		case *ast.CallExpr:
			if id, ok := ast.Unparen(x.Fun).(*ast.Ident); ok && len(x.Args) > 0 {
				if b, ok := t.info.Uses[id].(*types.Builtin); ok && b.Name() == "copy" {
					if o, _ := t.rootObj(x.Args[0]); o != nil {
						set[o] = true
					}
				}
			}
			if fn, recv := t.calleeOf(x); fn != nil && recv != nil {
				if fi := t.funcs[fn]; fi != nil && fi.writes {
					if o, _ := t.rootObj(recv); o != nil {
						set[o] = true
					}
				}
			}
			for _, a := range t.writtenArgs(x) { // [func] in-out slice arguments (trans_func.go)
				if o, _ := t.rootObj(a); o != nil {
					set[o] = true
				}
			}
			if fn, _ := t.calleeOf(x); fn != nil { // [ext:T20] package-level state written by the callee
				if fi := t.funcs[fn]; fi != nil {
					for g := range fi.gwrites {
						set[g.obj] = true
					}
				}
			}
			t.outAssigned15(x, func(o types.Object) { set[o] = true }) // [ext:T15] slices written through out-parameters
		}
		return true
	})
}

func hasLoop(n ast.Node) bool {
	found := false
	ast.Inspect(n, func(m ast.Node) bool {
		switch m.(type) {
		case *ast.ForStmt, *ast.RangeStmt:
			found = true
		}
		return !found
	})
	return found
}

// analyse discovers callees, computes writes / loops by fixpoint and orders the functions callees first.
func (t *Translator) analyse() {
	seen := map[*funcInfo]bool{}
	for {
		var todo []*funcInfo
		for _, fi := range t.funcs {
			if !seen[fi] {
				todo = append(todo, fi)
			}
		}
		if len(todo) == 0 {
			break
		}
		for _, fi := range todo {
			seen[fi] = true
			ast.Inspect(t.body(fi), func(m ast.Node) bool { // [seq] t.body: without a timed tail
				if c, ok := m.(*ast.CallExpr); ok {
					if fn, _ := t.calleeOf(c); fn != nil && !t.identCall07(c) { // [ext:T07] not: TransSpec.Identity
						fi.callees[t.funcFor(fn, c)] = true
					}
				}
				if id, ok := m.(*ast.Ident); ok { // a package function used as a value (trans_func.go)
					if fn := t.funcValueRef(id); fn != nil && !t.ident07[fn.Name()] && !t.isSelfForeign09(fn) { // [ext:T07] not: TransSpec.Identity; [ext:T09] not: functions taken as foreign
						fi.callees[t.funcFor(fn, id)] = true
					}
				}
				return true
			})
			fi.loops = hasLoop(t.body(fi))
		}
	}
	t.analyseInOut()
	for changed := true; changed; {
		changed = false
		for _, fi := range t.funcs {
			if fi.recv != nil && fi.recvT.ptr && !fi.writes {
				set := map[types.Object]bool{}
				t.assigned(t.body(fi), set)
				if set[fi.recv] {
					fi.writes, changed = true, true
				}
			}
			for c := range fi.callees {
				if c.loops && !fi.loops {
					fi.loops, changed = true, true
				}
			}
			if t.globals20(fi) { // [ext:T20]
				changed = true
			}
			if t.outParams07(fi) { // [ext:T07]
				changed = true
			}
			if t.outs15(fi) { // [ext:T15] slice parameters written in place
				changed = true
			}
			if t.foreign08(fi) { // [ext:T08]
				changed = true
			}
		}
	}
	var all []*funcInfo
	for _, fi := range t.funcs {
		all = append(all, fi)
	}
	sort.Slice(all, func(i, j int) bool { return all[i].decl.Pos() < all[j].decl.Pos() })
	state := map[*funcInfo]int{}
	var visit func(fi *funcInfo)
	visit = func(fi *funcInfo) {
		switch state[fi] {
		case 1:
			t.fail(fi.decl, "recursion through %s", fi.goName)
		case 2:
			return
		}
		state[fi] = 1
		var cs []*funcInfo
		for c := range fi.callees {
			cs = append(cs, c)
		}
		sort.Slice(cs, func(i, j int) bool { return cs[i].decl.Pos() < cs[j].decl.Pos() })
		for _, c := range cs {
			visit(c)
		}
		state[fi] = 2
		t.order = append(t.order, fi)
	}
	for _, fi := range all {
		visit(fi)
	}
}

// ---- output helpers -----------------------------------------------------------------------------

func tuple(vs []string) string {
	switch len(vs) {
	case 0:
		return "tt"
	case 1:
		return vs[0]
	}
	return "(" + strings.Join(vs, ", ") + ")"
}

func tupleType(ts []string) string {
	switch len(ts) {
	case 0:
		return "unit"
	case 1:
		return ts[0]
	}
	return "(" + strings.Join(ts, " * ") + ")"
}

// indentCoq re-indents generated text by parenthesis / match depth.
func indentCoq(s string) string {
	var b strings.Builder
	depth := 0
	for _, line := range strings.Split(s, "\n") {
		l := strings.TrimSpace(line)
		if l == "" {
			continue
		}
		d := depth
		if strings.HasPrefix(l, ")") || strings.HasPrefix(l, "end") || strings.HasPrefix(l, "|") || strings.HasPrefix(l, "else") {
			d--
		}
		if d < 0 {
			d = 0
		}
		b.WriteString(strings.Repeat("  ", d+1) + l + "\n")
		for _, w := range strings.FieldsFunc(l, func(r rune) bool { return r == ' ' }) {
			switch {
			case w == "match":
				depth++
			case w == "end" || w == "end)" || w == "end.":
				depth--
			}
		}
		depth += strings.Count(l, "(") - strings.Count(l, ")")
	}
	return b.String()
}

// ---- [BitsCode] math/bits.OnesCount* ---------------------------------------------------------------------------------
// The stub importer gives math/bits typed declarations of OnesCount, OnesCount8/16/32/64 (func(uintN) int); a call
// translates to `ones_count N x` of Lib/GoSem.v (the number of set bits among positions 0..N-1: the function by its
// specification; the standard library is not translated).
var onesCountBits = map[string]int{"OnesCount": 64, "OnesCount8": 8, "OnesCount16": 16, "OnesCount32": 32, "OnesCount64": 64}
var onesCountArg = map[string]types.BasicKind{"OnesCount": types.Uint, "OnesCount8": types.Uint8, "OnesCount16": types.Uint16,
	"OnesCount32": types.Uint32, "OnesCount64": types.Uint64}

func declareOnesCount(p *types.Package) {
	for name, k := range onesCountArg {
		sig := types.NewSignatureType(nil, nil, nil,
			types.NewTuple(types.NewVar(token.NoPos, p, "x", types.Typ[k])),
			types.NewTuple(types.NewVar(token.NoPos, p, "", types.Typ[types.Int])), false)
		p.Scope().Insert(types.NewFunc(token.NoPos, p, name, sig))
	}
}

// onesCountCall: is the call math/bits.OnesCountN(x)?  Returns N (0: no).
func (t *Translator) onesCountCall(call *ast.CallExpr) int {
	sel, ok := ast.Unparen(call.Fun).(*ast.SelectorExpr)
	if !ok {
		return 0
	}
	fn, ok := t.info.Uses[sel.Sel].(*types.Func)
	if !ok || fn.Pkg() == nil || fn.Pkg().Path() != "math/bits" || len(call.Args) != 1 {
		return 0
	}
	return onesCountBits[fn.Name()]
}
