// Area CodecCode (C07): the Go -> Gallina translation (gen/trans.go + gen/trans_ext07.go) of the backslash-escape codecs of
// strz/enc.go — OctalFormat / OctalParse, HexFormat / HexParse with their helpers appendUint, toUpper (enc.go) and parseUint,
// lower, upper (std_strconv.go).  coq/Proofs/CodecCode.v proves each generated function equal to the hand-written model
// function of Model/Codec.v on every run.  The older extractor gen/codec.go (widths, prefixes, bases -> Gen/Codec.v) stays.
// Fails closed on anything outside the subset.
package main

func init() { Register(Area{Name: "CodecCode", Gen: genCodecCode}) }

func genCodecCode(repo string) (string, error) {
	body, err := Translate(repo, TransSpec{
		Dir: "strz",
		Funcs: []string{"lower", "upper", "parseUint", "appendUint", "toUpper", "OctalFormat", "OctalParse", "HexFormat", "HexParse",
			"UnicodeFormat", "UnicodeParse", "Utf16Format", "Utf16Parse"},
		Std: []string{"strconv.AppendUint", "unicode/utf8.RuneCountInString", "unicode/utf8.DecodeRuneInString", "unicode/utf8.EncodeRune",
			"unicode/utf16.EncodeRune", "unicode/utf16.DecodeRune"},
		Identity:   []string{"UnsafeStrOrBytesToString"},
		WrapSigned: true,
		InPlace:    true,
	})
	if err != nil {
		return "", err
	}
	return "From Coq Require Import Bool.\nFrom V Require Import Lib.GoSem Lib.GoSemStd.\nImport GoNotations.\nLocal Open Scope Z_scope.\n" + body, nil
}
