// go2v extension [ext:T07] (added for the area CodecCode, C07: strz/enc.go; usable by any area).  Everything here is reached
// through one-line hooks in trans.go / trans_expr.go / trans_stmt.go that are marked `[ext:T07]`; an area that uses none of
// the constructs below translates exactly as before.  Target definitions: coq/Lib/GoSemStd.v.
//
//	written slice parameters   a function that writes a []T parameter IN PLACE (p[i] = v, copy(p[a:b], ..), a call that passes
//	                   p or p[a:b] on to such a function) returns the new contents of that parameter (after the receiver and
//	                   the package-level state, before the results); the caller rebinds the variable it passed, or, for an
//	                   argument v[a:b], writes the slice back: v := splice v a b new.  Assumption (stated in TRANSLATOR.md):
//	                   the array of a written parameter is reachable through that parameter only — distinct slice arguments
//	                   of one call do not overlap (checked at translated call sites, assumed for entry points).
//	bytestring type parameter  T constrained to ~string | ~[]byte (typez.StrOrBytes) -> list Z, immutable like a string.
//	TransSpec.Std      standard-library functions with a model in Lib/GoSemStd.v: strconv.AppendUint, utf8.DecodeRune(InString),
//	                   utf8.RuneCount(InString), utf8.EncodeRune, utf8.AppendRune, utf16.EncodeRune, utf16.DecodeRune.
//	                   Append-style ones, X := F(V[a:b], ..): X = V[a:b] ++ bytes, and the bytes are written into V behind b
//	                   when they fit into len(V) (append_in_place).  X is then a VIEW of V: X is never written, and V is
//	                   written only where X is dead (no use of X textually after the write; not inside a loop X outlives).
//	TransSpec.Identity functions translated as the identity on byte lists (the unsafe string <-> []byte casts of strz).
//	tables             a package-level `var t = []byte{constants}` that no function of the package assigns, writes or lets
//	                   escape -> Definition v_<name> : list Z.
//	range, in place    for i, v := range s { s[i] = f(v) }: the element is read from the CURRENT s (s only written in place).
package main

import (
	"fmt"
	"go/ast"
	"go/constant"
	"go/parser"
	"go/token"
	"go/types"
	"sort"
	"strings"
)

// ---- typed stubs of the packages whose functions have models ---------------------------------------------------------

var stubSrc07 = map[string]string{
	"github.com/welllog/golib/typez": `package typez
type StrOrBytes interface{ ~string | ~[]byte }
`,
	"strconv": `package strconv
func AppendUint(dst []byte, i uint64, base int) []byte { return nil }
`,
	"unicode/utf8": `package utf8
const (
	RuneError = '\uFFFD'
	RuneSelf  = 0x80
	MaxRune   = '\U0010FFFF'
	UTFMax    = 4
)
func DecodeRune(p []byte) (rune, int) { return 0, 0 }
func DecodeRuneInString(s string) (rune, int) { return 0, 0 }
func RuneCount(p []byte) int { return 0 }
func RuneCountInString(s string) int { return 0 }
func EncodeRune(p []byte, r rune) int { return 0 }
func AppendRune(p []byte, r rune) []byte { return nil }
`,
	"unicode/utf16": `package utf16
func EncodeRune(r rune) (r1, r2 rune) { return 0, 0 }
func DecodeRune(r1, r2 rune) rune { return 0 }
`,
}

var stubPkgs07 = map[string]*types.Package{}

func stubPackage07(path string) *types.Package {
	if p, ok := stubPkgs07[path]; ok {
		return p
	}
	src, ok := stubSrc07[path]
	if !ok {
		return nil
	}
	fset := token.NewFileSet()
	f, err := parser.ParseFile(fset, path+".go", src, 0)
	if err != nil {
		panic(err)
	}
	conf := types.Config{Error: func(error) {}}
	p, _ := conf.Check(path, fset, []*ast.File{f}, nil)
	stubPkgs07[path] = p
	return p
}

// ---- standard-library models ------------------------------------------------------------------------------------------

const (
	stdPure07   = iota // a total function of its arguments
	stdAppend07        // F(dst, args..) = dst ++ bytes(args..): the model gives the appended bytes, M (list Z)
	stdOut07           // F(p, args..) writes p in place and returns one value: the model gives M (list Z * Z)
)

type std07 struct {
	coq  string
	kind int
	nres int
}

var stdFuncs07 = map[string]std07{
	"strconv.AppendUint":              {"std_strconv_AppendUint", stdAppend07, 1},
	"unicode/utf8.AppendRune":         {"std_utf8_AppendRune", stdAppend07, 1},
	"unicode/utf8.DecodeRune":         {"std_utf8_DecodeRune", stdPure07, 2},
	"unicode/utf8.DecodeRuneInString": {"std_utf8_DecodeRune", stdPure07, 2},
	"unicode/utf8.RuneCount":          {"std_utf8_RuneCount", stdPure07, 1},
	"unicode/utf8.RuneCountInString":  {"std_utf8_RuneCount", stdPure07, 1},
	"unicode/utf8.EncodeRune":         {"std_utf8_EncodeRune", stdOut07, 1},
	"unicode/utf16.EncodeRune":        {"std_utf16_EncodeRune", stdPure07, 2},
	"unicode/utf16.DecodeRune":        {"std_utf16_DecodeRune", stdPure07, 1},
}

var globals07 = strings.Fields(`splice append_in_place std_digit_char std_fmt_digits std_strconv_AppendUint std_utf8_DecodeRune
 std_utf8_RuneCount std_utf8_EncodeRune std_utf8_AppendRune std_utf16_EncodeRune std_utf16_DecodeRune`)

type ext07 struct {
	std07on     map[string]bool
	ident07     map[string]bool
	tables07    map[types.Object]string
	tableDefs07 []string
}

func (t *Translator) setup07(spec TransSpec) {
	t.std07on, t.ident07, t.tables07 = map[string]bool{}, map[string]bool{}, map[types.Object]string{}
	for _, s := range spec.Std {
		if _, ok := stdFuncs07[s]; !ok {
			t.fail(nil, "standard-library function %s has no model", s)
		}
		t.std07on[s] = true
	}
	for _, s := range spec.Identity {
		t.ident07[s] = true
	}
	for _, w := range globals07 {
		t.global[w] = true
	}
}

// stdName07: "import/path.Func" of a call through a package name.
func (t *Translator) stdName07(x *ast.CallExpr) (string, bool) {
	sel, ok := ast.Unparen(x.Fun).(*ast.SelectorExpr)
	if !ok {
		return "", false
	}
	id, ok := ast.Unparen(sel.X).(*ast.Ident)
	if !ok {
		return "", false
	}
	pn, ok := t.info.Uses[id].(*types.PkgName)
	if !ok {
		return "", false
	}
	name := pn.Imported().Path() + "." + sel.Sel.Name
	if !t.std07on[name] {
		return "", false
	}
	return name, true
}

// identCall07: a call of a function listed in TransSpec.Identity.
func (t *Translator) identCall07(x *ast.CallExpr) bool {
	if len(t.ident07) == 0 || len(x.Args) != 1 {
		return false
	}
	fun := ast.Unparen(x.Fun)
	if ix, ok := fun.(*ast.IndexExpr); ok {
		fun = ix.X
	}
	id, ok := fun.(*ast.Ident)
	if !ok {
		return false
	}
	fn, ok := t.info.Uses[id].(*types.Func)
	return ok && fn.Pkg() == t.tpkg && t.ident07[fn.Name()]
}

// ---- bytestring type parameters ---------------------------------------------------------------------------------------

// typeParam07: a type parameter whose type set consists of string and []byte types only.
func (t *Translator) typeParam07(x *types.TypeParam) (gtype, bool) {
	if !t.spec.InPlace {
		return gtype{}, false
	}
	iface, ok := x.Constraint().Underlying().(*types.Interface)
	if !ok {
		return gtype{}, false
	}
	n, good := 0, true
	var walk func(ty types.Type, depth int)
	walk = func(ty types.Type, depth int) {
		if depth > 8 {
			good = false
			return
		}
		switch y := ty.(type) {
		case *types.Union:
			for i := 0; i < y.Len(); i++ {
				walk(y.Term(i).Type(), depth+1)
			}
		case *types.Interface:
			if y.NumExplicitMethods() > 0 || y.NumEmbeddeds() == 0 {
				good = false
			}
			for i := 0; i < y.NumEmbeddeds(); i++ {
				walk(y.EmbeddedType(i), depth+1)
			}
		case *types.Named:
			walk(y.Underlying(), depth+1)
		case *types.Basic:
			if y.Info()&types.IsString == 0 {
				good = false
			}
			n++
		case *types.Slice:
			if b, ok := y.Elem().Underlying().(*types.Basic); !ok || b.Kind() != types.Uint8 {
				good = false
			}
			n++
		default:
			good = false
		}
	}
	walk(iface, 0)
	if !good || n == 0 {
		return gtype{}, false
	}
	return gtype{k: kSlice, str: true}, true
}

// ---- written slice parameters: analysis -------------------------------------------------------------------------------

func (fi *funcInfo) isOut07(i int) bool {
	for _, j := range fi.outs07 {
		if i == j {
			return true
		}
	}
	return false
}

// writesInPlace07 calls f with every expression that the node m writes in place (not: whole-variable assignment).
func (t *Translator) writesInPlace07(m ast.Node, f func(e ast.Expr, call *ast.CallExpr)) {
	isIndex := func(e ast.Expr) bool { _, ok := ast.Unparen(e).(*ast.IndexExpr); return ok }
	switch x := m.(type) {
	case *ast.AssignStmt:
		for _, l := range x.Lhs {
			if isIndex(l) {
				f(l, nil)
			}
		}
	case *ast.IncDecStmt:
		if isIndex(x.X) {
			f(x.X, nil)
		}
	case *ast.RangeStmt:
		for _, l := range []ast.Expr{x.Key, x.Value} {
			if l != nil && isIndex(l) {
				f(l, nil)
			}
		}
	case *ast.CallExpr:
		if id, ok := ast.Unparen(x.Fun).(*ast.Ident); ok && len(x.Args) > 0 {
			if b, ok := t.info.Uses[id].(*types.Builtin); ok && b.Name() == "copy" {
				f(x.Args[0], x)
			}
		}
		if fn, _ := t.calleeOf(x); fn != nil {
			if fi := t.funcs[fn]; fi != nil {
				for _, i := range fi.outs07 {
					if i < len(x.Args) {
						f(x.Args[i], x)
					}
				}
			}
		}
		t.writesForeign09(x, f) // [ext:T09] a slice handed to a foreign function that writes it (TransSpec.Foreign.Writes)
		if name, ok := t.stdName07(x); ok && len(x.Args) > 0 {
			switch stdFuncs07[name].kind {
			case stdOut07:
				f(x.Args[0], x)
			case stdAppend07:
				if _, isSlice := ast.Unparen(x.Args[0]).(*ast.SliceExpr); isSlice {
					f(x.Args[0], x)
				}
			}
		}
	}
}

// assigned07: the variables a call writes through a written slice argument (hook of Translator.assigned).
func (t *Translator) assigned07(m ast.Node, set map[types.Object]bool) {
	if x, ok := m.(*ast.CallExpr); ok {
		t.writesInPlace07(x, func(e ast.Expr, call *ast.CallExpr) {
			if o, _ := t.rootObj(e); o != nil {
				set[o] = true
			}
		})
	}
}

// order07: the same for checkOrder (a statement must not read elsewhere what one of its calls writes).
func (t *Translator) order07(x *ast.CallExpr, written map[types.Object]bool, calls *[]*ast.CallExpr) {
	if id, ok := ast.Unparen(x.Fun).(*ast.Ident); ok {
		if b, ok := t.info.Uses[id].(*types.Builtin); ok && b.Name() == "copy" {
			return // the core has it
		}
	}
	t.writesInPlace07(x, func(e ast.Expr, call *ast.CallExpr) {
		if o, _ := t.rootObj(e); o != nil {
			written[o] = true
			*calls = append(*calls, x)
		}
	})
}

// outParams07: one round of the analysis "which slice parameters does fi write in place"; true when one was added.
func (t *Translator) outParams07(fi *funcInfo) bool {
	if fi.frag != nil || !t.spec.InPlace {
		return false
	}
	sig := fi.obj.Type().(*types.Signature)
	changed := false
	for i := 0; i < sig.Params().Len(); i++ {
		p := sig.Params().At(i)
		if fi.isOut07(i) {
			continue
		}
		if _, ok := p.Type().Underlying().(*types.Slice); !ok {
			continue
		}
		hit := false
		ast.Inspect(t.body(fi), func(m ast.Node) bool {
			t.writesInPlace07(m, func(e ast.Expr, call *ast.CallExpr) {
				if o, _ := t.rootObj(e); o == types.Object(p) {
					hit = true
				}
			})
			return !hit
		})
		if hit {
			if g := t.typeOf(p.Type(), fi.decl); g.k != kSlice || g.elem != nil || g.str || g.isArr {
				t.fail(fi.decl, "parameter %s of %s is written in place and is not a slice of integers", p.Name(), fi.goName)
			}
			fi.outs07 = append(fi.outs07, i)
			sort.Ints(fi.outs07)
			changed = true
		}
	}
	return changed
}

// checkOuts07: a parameter that is written in place must keep its array (and length): no whole-variable assignment.
func (t *Translator) checkOuts07(fi *funcInfo) {
	if len(fi.outs07) == 0 {
		return
	}
	sig := fi.obj.Type().(*types.Signature)
	outs := map[types.Object]bool{}
	for _, i := range fi.outs07 {
		outs[sig.Params().At(i)] = true
	}
	isOut := func(e ast.Expr) (string, bool) {
		if id, ok := ast.Unparen(e).(*ast.Ident); ok {
			if o := t.info.Uses[id]; o != nil && outs[o] {
				return id.Name, true
			}
		}
		return "", false
	}
	ast.Inspect(fi.decl.Body, func(m ast.Node) bool {
		switch x := m.(type) {
		case *ast.AssignStmt:
			for _, l := range x.Lhs {
				if n, ok := isOut(l); ok {
					t.fail(x, "slice parameter %s is written in place and also assigned as a whole", n)
				}
			}
		case *ast.RangeStmt:
			for _, l := range []ast.Expr{x.Key, x.Value} {
				if l != nil {
					if n, ok := isOut(l); ok {
						t.fail(x, "slice parameter %s is written in place and also assigned as a whole", n)
					}
				}
			}
		case *ast.UnaryExpr:
			if x.Op == token.AND {
				if o, _ := t.rootObj(x.X); o != nil && outs[o] {
					t.fail(x, "address of (an element of) a slice parameter that is written in place")
				}
			}
		}
		return true
	})
}

func (t *Translator) outTypes07(fi *funcInfo) []string {
	var ts []string
	for range fi.outs07 {
		ts = append(ts, "list Z")
	}
	return ts
}

// outNames07: the current names of the written slice parameters (part of every `return`).
func (c *fctx) outNames07(en *env) []string {
	var ns []string
	sig, ok := c.fi.obj.Type().(*types.Signature)
	if !ok {
		return nil
	}
	for _, i := range c.fi.outs07 {
		v := en.lookup(sig.Params().At(i))
		if v == nil {
			c.t.fail(c.fi.decl, "written slice parameter %s is not in scope at a return", sig.Params().At(i).Name())
		}
		ns = append(ns, v.name)
	}
	return ns
}

// noRetain07: a callee that can neither keep nor return a slice argument: a plain function that writes no receiver and no
// package-level state and has no slice-typed result (pointers, closures, channels and maps are outside the subset).
func (t *Translator) noRetain07(fn *types.Func) bool {
	fi := t.funcs[fn]
	if !t.spec.InPlace || fi == nil || fi.recv != nil || fi.writes || len(fi.gwrites) > 0 {
		return false
	}
	for _, g := range fi.results {
		if g.k == kSlice || g.k == kStruct {
			return false
		}
	}
	return true
}

// ---- per-function static information: parents, views -------------------------------------------------------------------

type fstate07 struct {
	parent   map[ast.Node]ast.Node
	views    map[types.Object][]types.Object  // X -> the variables X may be a view of (X := F(V[a:b], ..), F append-style)
	viewDef  map[types.Object][]*ast.CallExpr // X -> the calls that make it one (same order)
	appendOK map[*ast.CallExpr]bool           // append-style calls whose result goes directly into a plain variable
}

func (c *fctx) st07() *fstate07 {
	if c.x07 != nil {
		return c.x07
	}
	t := c.t
	st := &fstate07{parent: map[ast.Node]ast.Node{}, views: map[types.Object][]types.Object{}, viewDef: map[types.Object][]*ast.CallExpr{}, appendOK: map[*ast.CallExpr]bool{}}
	c.x07 = st
	var stack []ast.Node
	ast.Inspect(c.fi.decl.Body, func(n ast.Node) bool {
		if n == nil {
			stack = stack[:len(stack)-1]
			return true
		}
		if len(stack) > 0 {
			st.parent[n] = stack[len(stack)-1]
		}
		stack = append(stack, n)
		return true
	})
	note := func(lhs ast.Expr, rhs ast.Expr) {
		call, ok := ast.Unparen(rhs).(*ast.CallExpr)
		if !ok {
			return
		}
		name, ok := t.stdName07(call)
		if !ok || stdFuncs07[name].kind != stdAppend07 || len(call.Args) == 0 {
			return
		}
		id, ok := ast.Unparen(lhs).(*ast.Ident)
		if !ok || id.Name == "_" {
			return
		}
		xo := t.info.Defs[id]
		if xo == nil {
			xo = t.info.Uses[id]
		}
		if xo == nil {
			return
		}
		st.appendOK[call] = true
		if vo, _ := t.rootObj(call.Args[0]); vo != nil && vo != xo {
			st.views[xo] = append(st.views[xo], vo)
			st.viewDef[xo] = append(st.viewDef[xo], call)
		}
	}
	ast.Inspect(c.fi.decl.Body, func(n ast.Node) bool {
		switch x := n.(type) {
		case *ast.AssignStmt:
			if len(x.Lhs) == len(x.Rhs) && (x.Tok == token.ASSIGN || x.Tok == token.DEFINE) {
				for i := range x.Lhs {
					note(x.Lhs[i], x.Rhs[i])
				}
			}
		case *ast.ValueSpec:
			if len(x.Names) == len(x.Values) {
				for i := range x.Names {
					note(x.Names[i], x.Values[i])
				}
			}
		}
		return true
	})
	// a view may only be read: len, element read, source of a copy, range, argument of a callee that cannot keep it
	if len(st.views) > 0 {
		ast.Inspect(c.fi.decl.Body, func(n ast.Node) bool {
			if id, ok := n.(*ast.Ident); ok {
				if o := t.info.Uses[id]; o != nil && st.views[o] != nil && !c.readOnlyUse07(id) {
					t.fail(id, "%s may share its array with another variable (result of an append-style call) and is used other than by len, index, copy-from, range", id.Name)
				}
			}
			return true
		})
	}
	return st
}

// readOnlyUse07: the occurrence id of a variable can neither write its array nor let it escape.
func (c *fctx) readOnlyUse07(id *ast.Ident) bool {
	t, st := c.t, c.st07()
	var child ast.Node = id
	p := st.parent[id]
	for {
		if pe, ok := p.(*ast.ParenExpr); ok {
			child, p = pe, st.parent[pe]
			continue
		}
		break
	}
	isCopySrc := func(call *ast.CallExpr, arg ast.Node) bool {
		return c.builtin(call) == "copy" && len(call.Args) == 2 && call.Args[1] == arg
	}
	switch x := p.(type) {
	case *ast.CallExpr:
		if c.builtin(x) == "len" {
			return true
		}
		if isCopySrc(x, child) {
			return true
		}
		if t.foreignReadArg09(x, child) { // [ext:T09] an argument a listed foreign function only reads (foreign functions do not retain)
			return true
		}
		if fn, _ := t.calleeOf(x); fn != nil && t.noRetain07(fn) {
			fi := t.funcs[fn]
			for i, a := range x.Args {
				if a == child {
					return !fi.isOut07(i)
				}
			}
		}
	case *ast.IndexExpr:
		if x.X != child {
			return true // used as an index: not a slice at all
		}
		switch pp := st.parent[x].(type) {
		case *ast.AssignStmt:
			for _, l := range pp.Lhs {
				if l == ast.Expr(x) {
					return false
				}
			}
		case *ast.IncDecStmt:
			return false
		case *ast.UnaryExpr:
			if pp.Op == token.AND {
				return false
			}
		}
		return true
	case *ast.SliceExpr:
		if x.X != child {
			return true
		}
		if call, ok := st.parent[x].(*ast.CallExpr); ok && isCopySrc(call, x) {
			return true
		}
	case *ast.RangeStmt:
		return x.X == child
	case *ast.AssignStmt:
		for _, l := range x.Lhs {
			if l == child {
				return true // redefinition of the variable itself
			}
		}
	}
	return false
}

// viewCheck07 (hook of checkWritable): the variable `key` is about to be written in place at `at`.
func (c *fctx) viewCheck07(key string, en *env, at ast.Node) {
	t, st := c.t, c.st07()
	var vo types.Object
	for i := len(en.vars) - 1; i >= 0; i-- {
		if en.vars[i].name == key {
			vo = en.vars[i].obj
			break
		}
	}
	if vo == nil {
		return
	}
	if st.views[vo] != nil {
		t.fail(at, "in-place write to %s, which may share its array with another variable (result of an append-style call)", key)
	}
	for xo, vs := range st.views {
		isView := false
		for i, v := range vs {
			if v == vo && ast.Node(st.viewDef[xo][i]) != at { // not: the call that creates the view
				isView = true
			}
		}
		if !isView {
			continue
		}
		// inside a loop the view must be born in the same iteration
		for n := st.parent[at]; n != nil; n = st.parent[n] {
			switch n.(type) {
			case *ast.ForStmt, *ast.RangeStmt:
				if !(xo.Pos() >= n.Pos() && xo.Pos() < n.End()) {
					t.fail(at, "in-place write to %s inside a loop while %s (declared outside the loop) may be a view of it", key, xo.Name())
				}
			}
		}
		ast.Inspect(c.fi.decl.Body, func(n ast.Node) bool {
			if id, ok := n.(*ast.Ident); ok && t.info.Uses[id] == xo && id.Pos() >= at.End() {
				if as, ok := st.parent[id].(*ast.AssignStmt); ok { // a later redefinition of the view is not a read
					for _, l := range as.Lhs {
						if l == ast.Expr(id) {
							return true
						}
					}
				}
				t.fail(at, "in-place write to %s while %s, which may be a view of it, is still used afterwards (%s)", key, xo.Name(), t.pos(id))
			}
			return true
		})
	}
}

// ---- written slice arguments: call sites ---------------------------------------------------------------------------------

// outArg07 evaluates a slice argument that the callee writes in place; k receives the term to pass and a function that
// stores the contents the callee hands back.
func (c *fctx) outArg07(arg ast.Expr, en *env, at ast.Node, k func(term string, back func(newv string, k2 func() string) string) string) string {
	t := c.t
	arg = ast.Unparen(arg)
	if se, ok := arg.(*ast.SliceExpr); ok {
		if se.Slice3 {
			t.fail(se, "3-index slice expression")
		}
		base := ast.Unparen(se.X)
		key := c.sliceKey(base, en)
		c.checkWritable(key, en, at)
		if g := t.exprType(base); g.k != kSlice || g.elem != nil || g.str || (g.isArr && !t.spec09.on()) { // [ext:T09] arr[a:b] of a local array: the same write-back
			t.fail(arg, "a slice of something that is not a slice of integers is written in place by the callee")
		}
		return c.expr(base, en, func(d string) string {
			lo := func(k2 func(string) string) string {
				if se.Low == nil {
					return k2("0")
				}
				return c.expr(se.Low, en, k2)
			}
			hi := func(k2 func(string) string) string {
				if se.High == nil {
					return k2("(zlen " + d + ")")
				}
				return c.expr(se.High, en, k2)
			}
			return lo(func(l string) string {
				return hi(func(h string) string {
					lv, hv, sv := c.fresh("lo"), c.fresh("hi"), c.fresh("v")
					head := fmt.Sprintf("let %s := %s in\nlet %s := %s in\ndo %s <- m_slice %s %s %s;;\n", lv, l, hv, h, sv, d, lv, hv)
					return head + k(sv, func(nv string, k2 func() string) string {
						// the base is re-read here: only the callee ran in between, and it cannot reach the variable
						return c.expr(base, en, func(d2 string) string {
							nd := c.fresh("d")
							return fmt.Sprintf("let %s := splice %s %s %s %s in\n", nd, d2, lv, hv, nv) + c.store(base, nd, en, k2)
						})
					})
				})
			})
		})
	}
	key := c.sliceKey(arg, en)
	c.checkWritable(key, en, at)
	if g := t.exprType(arg); g.k != kSlice || g.elem != nil || g.str || g.isArr {
		t.fail(arg, "something that is not a slice of integers is written in place by the callee")
	}
	return c.expr(arg, en, func(a string) string {
		return k(a, func(nv string, k2 func() string) string { return c.store(arg, nv, en, k2) })
	})
}

// writeBack07: what a call with written slice arguments still has to do after the callee returned.
type writeBack07 struct {
	temps []string
	backs []func(newv string, k2 func() string) string
}

func (w *writeBack07) names() []string {
	if w == nil {
		return nil
	}
	return w.temps
}

func (w *writeBack07) code(k func() string) string {
	if w == nil {
		return k()
	}
	var rec func(i int) string
	rec = func(i int) string {
		if i == len(w.backs) {
			return k()
		}
		return w.backs[i](w.temps[i], func() string { return rec(i + 1) })
	}
	return rec(0)
}

// disjoint07: no other argument (or the receiver) of the call may share the array of a written argument.
func (c *fctx) disjoint07(x *ast.CallExpr, outs []int, recv ast.Expr, en *env) {
	t, st := c.t, c.st07()
	for _, i := range outs {
		if i >= len(x.Args) {
			continue
		}
		key, _ := c.aliasSource(x.Args[i], en)
		oi, _ := t.rootObj(x.Args[i])
		others := append([]ast.Expr{}, x.Args...)
		if recv != nil {
			others = append(others, recv)
		}
		for j, a := range others {
			if j == i {
				continue
			}
			oj, _ := t.rootObj(a)
			if oj != nil && oi != nil && oj == oi {
				t.fail(x, "call that writes %s in place and also receives (a part of) it as another argument (overlapping arguments are not modelled)", key)
			}
			if oj != nil && oi != nil {
				for _, v := range st.views[oj] {
					if v == oi {
						t.fail(x, "call that writes %s in place and also receives %s, which may be a view of it", key, oj.Name())
					}
				}
			}
		}
	}
}

// argsOut07: the arguments of a call of fi (which writes some of its slice parameters in place), left to right.
func (c *fctx) argsOut07(fi *funcInfo, x *ast.CallExpr, recv ast.Expr, en *env, wb **writeBack07, k func([]string) string) string {
	c.disjoint07(x, fi.outs07, recv, en)
	w := &writeBack07{}
	*wb = w
	var vs []string
	var rec func(i int) string
	rec = func(i int) string {
		if i == len(x.Args) {
			return k(vs)
		}
		if fi.isOut07(i) {
			return c.outArg07(x.Args[i], en, x, func(term string, back func(string, func() string) string) string {
				vs = append(vs[:i:i], term)
				w.temps = append(w.temps[:len(w.backs):len(w.backs)], c.fresh("o"))
				w.backs = append(w.backs, back)
				return rec(i + 1)
			})
		}
		return c.expr(x.Args[i], en, func(v string) string {
			vs = append(vs[:i:i], v)
			return rec(i + 1)
		})
	}
	return rec(0)
}

// ---- calls of modelled standard-library functions and of identity functions ------------------------------------------------

func (c *fctx) call07(x *ast.CallExpr, en *env, k func([]string) string) (string, bool) {
	t := c.t
	if t.identCall07(x) {
		from, to := t.exprType(x.Args[0]), t.exprType(x)
		if from.k != kSlice || to.k != kSlice || from.elem != nil || to.elem != nil {
			t.fail(x, "identity function on something that is not a byte string")
		}
		return c.expr(x.Args[0], en, func(a string) string { return k([]string{a}) }), true
	}
	name, ok := t.stdName07(x)
	if !ok {
		return "", false
	}
	sf := stdFuncs07[name]
	switch sf.kind {
	case stdPure07:
		return c.args(x.Args, en, func(vs []string) string {
			app := "(" + sf.coq + " " + strings.Join(vs, " ") + ")"
			if sf.nres == 1 {
				return k([]string{app})
			}
			var rs []string
			for i := 0; i < sf.nres; i++ {
				rs = append(rs, c.fresh("v"))
			}
			return fmt.Sprintf("let '%s := %s in\n%s", tuple(rs), app, k(rs))
		}), true
	case stdOut07:
		c.disjoint07(x, []int{0}, nil, en)
		return c.outArg07(x.Args[0], en, x, func(p string, back func(string, func() string) string) string {
			return c.args(x.Args[1:], en, func(vs []string) string {
				nd, n := c.fresh("d"), c.fresh("n")
				return fmt.Sprintf("do '(%s, %s) <- %s %s %s;;\n", nd, n, sf.coq, p, strings.Join(vs, " ")) +
					back(nd, func() string { return k([]string{n}) })
			})
		}), true
	case stdAppend07:
		arg0 := ast.Unparen(x.Args[0])
		bytes := func(pre string, place func(a string, k2 func() string) string) string {
			return c.args(x.Args[1:], en, func(vs []string) string {
				a := c.fresh("a")
				res := "(" + pre + " ++ " + a + ")"
				if pre == "[]" {
					res = a
				}
				return fmt.Sprintf("do %s <- %s %s;;\n", a, sf.coq, strings.Join(vs, " ")) + place(a, func() string { return k([]string{res}) })
			})
		}
		nop := func(a string, k2 func() string) string { return k2() }
		if id, ok := arg0.(*ast.Ident); ok && id.Name == "nil" {
			if _, isNil := t.info.Uses[id].(*types.Nil); isNil {
				return bytes("[]", nop), true
			}
		}
		if !c.st07().appendOK[x] {
			t.fail(x, "result of the append-style call %s is not assigned directly to a plain variable (it may share its first argument's array)", name)
		}
		if se, ok := arg0.(*ast.SliceExpr); ok {
			// X := F(V[a:b], ..): the bytes land behind b in V's array when they fit
			if se.Slice3 {
				t.fail(se, "3-index slice expression")
			}
			base := ast.Unparen(se.X)
			key := c.sliceKey(base, en)
			if _, isId := base.(*ast.Ident); !isId || key == "" {
				t.fail(x, "append-style call on a slice of something that is not a local variable")
			}
			c.checkWritable(key, en, x)
			c.disjoint07(x, []int{0}, nil, en)
			return c.expr(se, en, func(p string) string {
				// the bounds were evaluated by the slice expression; the high bound again as a pure term
				hi := "(zlen " + key + ")"
				if se.High != nil {
					if !c.pure(se.High) {
						t.fail(se.High, "append-style call: the high bound of the destination must be a simple expression")
					}
					hi = c.expr(se.High, en, func(h string) string { return h })
				}
				return bytes(p, func(a string, k2 func() string) string {
					return c.expr(base, en, func(d string) string {
						nd := c.fresh("d")
						return fmt.Sprintf("let %s := append_in_place %s %s %s in\n", nd, d, hi, a) + c.store(base, nd, en, k2)
					})
				})
			}), true
		}
		if key := c.sliceKey(arg0, en); key != "" {
			// X := F(V, ..) with cap(V) = len(V): a fresh array unless nothing is appended; X counts as a view of V
			return c.expr(arg0, en, func(p string) string { return bytes(p, nop) }), true
		}
		t.fail(x, "append-style call whose destination is neither nil, a variable nor a slice of a variable")
	}
	return "", false
}

// ---- tables: package-level slices with a constant initialiser that nothing writes --------------------------------------------

func (c *fctx) table07(id *ast.Ident, o types.Object) (string, bool) {
	t := c.t
	v, ok := o.(*types.Var)
	if !t.spec.InPlace || !ok || v.Parent() != t.tpkg.Scope() {
		return "", false
	}
	if _, isSlice := v.Type().Underlying().(*types.Slice); !isSlice {
		return "", false
	}
	if g := t.typeOf(v.Type(), id); g.k != kSlice || g.elem != nil {
		return "", false
	}
	if !c.readOnlyUse07(id) {
		t.fail(id, "package-level table %s is used other than by len, index, copy-from, range", v.Name())
	}
	if s, seen := t.tables07[o]; seen {
		return s, true
	}
	ini, has := t.pkg.Env[v.Name()]
	lit, isLit := ini.(*ast.CompositeLit)
	if !has || !isLit {
		t.fail(id, "package-level variable %s without a composite-literal initialiser", v.Name())
	}
	var elts []string
	for _, e := range lit.Elts {
		if _, kv := e.(*ast.KeyValueExpr); kv {
			t.fail(id, "package-level table %s with keyed elements", v.Name())
		}
		tv, ok := t.info.Types[e]
		if !ok || tv.Value == nil || tv.Value.Kind() != constant.Int {
			t.fail(id, "package-level table %s with a non-constant element", v.Name())
		}
		elts = append(elts, zlit(tv.Value.ExactString()))
	}
	for _, f := range t.pkg.Files {
		for _, d := range f.Decls {
			fd, ok := d.(*ast.FuncDecl)
			if !ok || fd.Body == nil {
				continue
			}
			set := map[types.Object]bool{}
			t.assigned(fd.Body, set)
			bad := set[o]
			ast.Inspect(fd.Body, func(n ast.Node) bool {
				if u, ok := n.(*ast.UnaryExpr); ok && u.Op == token.AND {
					if ro, _ := t.rootObj(u.X); ro == o {
						bad = true
					}
				}
				return true
			})
			if bad {
				t.fail(id, "package-level table %s is assigned or written (or its address taken) in %s", v.Name(), fd.Name.Name)
			}
		}
	}
	name := "v_" + v.Name()
	t.tables07[o] = name
	t.global[name] = true
	t.tableDefs07 = append(t.tableDefs07, fmt.Sprintf("\n(* var %s = %s{...}: never written *)\nDefinition %s : list Z := [%s].\n", v.Name(), v.Type(), name, strings.Join(elts, "; ")))
	return name, true
}

func (t *Translator) consts07() string {
	pre := ""
	if t.spec.InPlace {
		pre = "\n(* helpers that the area does not list by name (pulled in as callees) are also in this database *)\nCreate HintDb go2v_aux.\n"
	}
	return pre + strings.Join(t.tableDefs07, "")
}

// auxHint07: a function that was pulled in as a callee and is not listed in TransSpec.Funcs — a helper the area's proof
// scripts have no theorem about (an extracted helper, say) — is also put into the database go2v_aux: `autounfold with
// go2v_aux` opens exactly those and leaves the calls of the listed functions folded.
func (t *Translator) auxHint07(fi *funcInfo) string {
	if !t.spec.InPlace || fi.frag != nil {
		return ""
	}
	for _, f := range t.spec.Funcs {
		if f == fi.goName {
			return ""
		}
	}
	return fmt.Sprintf("#[export] Hint Unfold %s : go2v_aux.\n", fi.name)
}

// ---- range with a value variable over a slice that the body writes in place ---------------------------------------------------

// liveRange07: for i, v := range s { .. s[i] = .. }: s a local slice variable that the loop never assigns as a whole; the
// element is then read from the current s (Go reads the shared array at the start of every iteration).  "" otherwise.
func (c *fctx) liveRange07(x *ast.RangeStmt, en *env) string {
	t := c.t
	id, ok := ast.Unparen(x.X).(*ast.Ident)
	if !ok || !t.spec.InPlace {
		return ""
	}
	o := t.info.Uses[id]
	v := en.lookup(o)
	if v == nil || v.ty.k != kSlice || v.ty.elem != nil || v.ty.str || v.ty.isArr {
		return ""
	}
	whole := false
	ast.Inspect(x, func(n ast.Node) bool {
		check := func(l ast.Expr) {
			if l == nil {
				return
			}
			if lid, ok := ast.Unparen(l).(*ast.Ident); ok && (t.info.Uses[lid] == o || t.info.Defs[lid] == o) {
				whole = true
			}
		}
		switch y := n.(type) {
		case *ast.AssignStmt:
			for _, l := range y.Lhs {
				check(l)
			}
		case *ast.RangeStmt:
			check(y.Key)
			check(y.Value)
		}
		return true
	})
	if whole {
		return ""
	}
	return v.name
}
