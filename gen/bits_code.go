// Area BitsCode (C16): the Go -> Gallina translation (gen/trans.go) of the word-level set code of setz/bits.go — type
// Bitmap (Grow, Add, Remove, Contains, Len, Cap, Diff, Intersect, Merge, Clone, add) — regenerated from the CURRENT source
// on every run.  coq/Proofs/BitsCode.v proves each generated function equal to the hand-written model function of
// Model/Bits.v (N words <-> Z words through explicit conversions).  Fails closed on anything outside the subset; the
// framework then falls back to gen/defaults/BitsCode.v (tie degraded, DESIGN §0.9).
package main

func init() { Register(Area{Name: "BitsCode", Gen: genBitsCode}) }

func genBitsCode(repo string) (string, error) {
	body, err := Translate(repo, TransSpec{
		Dir:     "setz",
		Structs: []string{"Bitmap"},
		Expect:  map[string][]ExpectField{"Bitmap": {{"set", "[]uint64"}}},
		Funcs: []string{"Bitmap.Grow", "Bitmap.Add", "Bitmap.Remove", "Bitmap.Contains", "Bitmap.Len", "Bitmap.Cap",
			"Bitmap.Diff", "Bitmap.Intersect", "Bitmap.Merge", "Bitmap.Clone", "Bitmap.add"},
	})
	if err != nil {
		return "", err
	}
	return "From Coq Require Import Bool.\nFrom V Require Import Lib.GoSem.\nImport GoNotations.\nLocal Open Scope Z_scope.\n" + body, nil
}

// Area DszBitsCode (C16, second priority): dsz/bits.go, type Bits (the deprecated twin of setz.Bits with the length
// cached inline) — Grow, Add, Remove, Contains, Len, Cap.  A separate area, so that a change in one of the two files
// degrades only its own tie.  coq/Proofs/DszBitsCode.v proves the functions equal to b_add / b_remove / contains /
// grow / cap of Model/Bits.v.
func init() { Register(Area{Name: "DszBitsCode", Gen: genDszBitsCode}) }

func genDszBitsCode(repo string) (string, error) {
	body, err := Translate(repo, TransSpec{
		Dir:     "dsz",
		Structs: []string{"Bits"},
		Expect:  map[string][]ExpectField{"Bits": {{"length", "int"}, {"set", "[]uint64"}}},
		Funcs:   []string{"Bits.Grow", "Bits.Add", "Bits.Remove", "Bits.Contains", "Bits.Len", "Bits.Cap"},
	})
	if err != nil {
		return "", err
	}
	return "From Coq Require Import Bool.\nFrom V Require Import Lib.GoSem.\nImport GoNotations.\nLocal Open Scope Z_scope.\n" + body, nil
}
