// go2v, extension "seq" (added for the area SyncRingCode, ringz/sync.go used from ONE goroutine).  Everything here is
// additive; the hooks in trans.go / trans_expr.go / trans_stmt.go are one-liners marked `// [seq]`.
//
//  1. SEQUENTIAL READING OF ATOMICS (package sync/atomic).  Valid for code that is run by a single goroutine only:
//     atomic.LoadT(&p)                    ->  the value of p                      (plain read)
//     atomic.StoreT(&p, v)                ->  p = v                               (plain write)
//     atomic.CompareAndSwapT(&p, o, n)    ->  if p == o { p = n; true } else { false }
//     atomic.AddT(&p, d)                  ->  p += d (wrapping for unsigned T); the new value
//     runtime.Gosched()                   ->  nothing
//     for T in Uint32, Uint64, Int64, Uintptr.  No interleaving, no memory model: what other goroutines could do between
//     two atomic operations is NOT in the translation (that is the subject of C01, not of this tie).
//  2. Stub packages for the type checker (sync/atomic, runtime, time): only what is needed to give the calls above and
//     `time.Duration` (an int64) a type.
//  3. Slices of translated structs ([]item[T] -> list item, primitives of coq/Lib/GoSemRec.v): make, len, range by index,
//     s[i].f, s[i].f = e.  Not supported: append, copy, slicing, range with a value variable, an element used as a value.
//  4. Pointers to elements: `h := &s[i]` (s a variable or a field holding a slice of structs).  h is translated as the
//     INDEX i (bounds-checked where the address is taken, like Go); h.f reads s[h].f at the time of the read, h.f = e writes
//     it.  While such a pointer is live, assigning the slice itself (s = ...) or calling a method that writes the struct
//     holding it is refused (the pointer would keep the old array).
//  5. Tagless `switch { case c1: ... default: ... }` -> the if / else-if chain (no break / fallthrough inside).
//  6. Timed tails (TransSpec.TimedTail): in the listed functions the body is translated up to the first top-level
//     statement that uses package time (tickers, the clock, channel receives follow); the remainder becomes a parameter
//     `rest'timed` of the generated function, applied to the variables in scope.  Theorems then quantify over it.
package main

import (
	"fmt"
	"go/ast"
	"go/parser"
	"go/token"
	"go/types"
	"strings"
)

// ---- 2. stub packages ------------------------------------------------------------------------------

var seqStubSrc = map[string]string{
	"sync/atomic": `package atomic
func LoadUint32(addr *uint32) uint32 { return *addr }
func LoadUint64(addr *uint64) uint64 { return *addr }
func LoadInt64(addr *int64) int64 { return *addr }
func LoadUintptr(addr *uintptr) uintptr { return *addr }
func StoreUint32(addr *uint32, val uint32) {}
func StoreUint64(addr *uint64, val uint64) {}
func StoreInt64(addr *int64, val int64) {}
func StoreUintptr(addr *uintptr, val uintptr) {}
func CompareAndSwapUint32(addr *uint32, old, new uint32) bool { return false }
func CompareAndSwapUint64(addr *uint64, old, new uint64) bool { return false }
func CompareAndSwapInt64(addr *int64, old, new int64) bool { return false }
func CompareAndSwapUintptr(addr *uintptr, old, new uintptr) bool { return false }
func AddUint32(addr *uint32, delta uint32) uint32 { return 0 }
func AddUint64(addr *uint64, delta uint64) uint64 { return 0 }
func AddInt64(addr *int64, delta int64) int64 { return 0 }
func AddUintptr(addr *uintptr, delta uintptr) uintptr { return 0 }
`,
	"runtime": `package runtime
func Gosched() {}
`,
	"time": `package time
type Duration int64
const (
	Nanosecond  Duration = 1
	Microsecond          = 1000 * Nanosecond
	Millisecond          = 1000 * Microsecond
	Second               = 1000 * Millisecond
	Minute               = 60 * Second
	Hour                 = 60 * Minute
)
type Time struct{ ns int64 }
func Now() Time { return Time{} }
func (t Time) Sub(u Time) Duration { return 0 }
func Since(t Time) Duration { return 0 }
type Ticker struct{ C <-chan Time }
func NewTicker(d Duration) *Ticker { return nil }
func (t *Ticker) Stop() {}
type Timer struct{ C <-chan Time }
func NewTimer(d Duration) *Timer { return nil }
func (t *Timer) Stop() bool { return false }
func After(d Duration) <-chan Time { return nil }
func Sleep(d Duration) {}
`,
}

var seqStubPkgs = map[string]*types.Package{}

// seqStubPackage type-checks the stub source of a known package (nil: not a known package).
func seqStubPackage(path string) *types.Package {
	if p, ok := seqStubPkgs[path]; ok {
		return p
	}
	src, ok := seqStubSrc[path]
	if !ok {
		return nil
	}
	fset := token.NewFileSet()
	f, err := parser.ParseFile(fset, path+".go", src, 0)
	if err != nil {
		panic(err)
	}
	conf := types.Config{Error: func(error) {}}
	p, _ := conf.Check(path, fset, []*ast.File{f}, nil)
	seqStubPkgs[path] = p
	return p
}

// ---- per-translation state -----------------------------------------------------------------------

type seqState struct {
	pkg       *types.Package
	placeRoot map[types.Object]types.Object // h (from h := &s[i]) -> the variable s lives in
	timedTail map[string]bool
	extern    map[string]bool
}

// placeInfo: a variable introduced by h := &base[i]; its Gallina value is the index.
type placeInfo struct {
	base ast.Expr
	key  string
}

var seqGlobals = strings.Fields("updA get_atA set_atA zlenA m_getA m_setA m_makeA")

func (t *Translator) seqInit(spec TransSpec, pkg *types.Package, files []*ast.File) {
	t.seq = &seqState{pkg: pkg, placeRoot: map[types.Object]types.Object{}, timedTail: map[string]bool{}, extern: map[string]bool{}}
	for _, f := range spec.Extern {
		t.seq.extern[f] = true
	}
	for _, w := range seqGlobals {
		t.global[w] = true
	}
	for _, f := range spec.TimedTail {
		t.seq.timedTail[f] = true
	}
	for _, f := range files {
		ast.Inspect(f, func(n ast.Node) bool {
			if as, ok := n.(*ast.AssignStmt); ok && as.Tok == token.DEFINE && len(as.Lhs) == 1 && len(as.Rhs) == 1 {
				if id, ok := as.Lhs[0].(*ast.Ident); ok {
					if ix := addrOfIndex(as.Rhs[0]); ix != nil {
						if root, _ := t.rootObj(ix.X); root != nil && t.info.Defs[id] != nil {
							t.seq.placeRoot[t.info.Defs[id]] = root
						}
					}
				}
			}
			return true
		})
	}
}

// addrOfIndex: e is &x[i] -> the index expression.
func addrOfIndex(e ast.Expr) *ast.IndexExpr {
	if u, ok := ast.Unparen(e).(*ast.UnaryExpr); ok && u.Op == token.AND {
		if ix, ok := ast.Unparen(u.X).(*ast.IndexExpr); ok {
			return ix
		}
	}
	return nil
}

// addrOperand: e is &p -> p.
func addrOperand(e ast.Expr) ast.Expr {
	if u, ok := ast.Unparen(e).(*ast.UnaryExpr); ok && u.Op == token.AND {
		return ast.Unparen(u.X)
	}
	return nil
}

// pkgCall: x is pkg.Name(...) for an imported package -> (import path, Name).
func (t *Translator) pkgCall(x *ast.CallExpr) (string, string) {
	if sel, ok := ast.Unparen(x.Fun).(*ast.SelectorExpr); ok {
		if id, ok := sel.X.(*ast.Ident); ok {
			if pn, ok := t.info.Uses[id].(*types.PkgName); ok {
				return pn.Imported().Path(), sel.Sel.Name
			}
		}
	}
	return "", ""
}

// atomicOp classifies a call into sync/atomic: "Load", "Store", "CompareAndSwap", "Add" ("" = not one of those).
func (t *Translator) atomicOp(x *ast.CallExpr) string {
	path, name := t.pkgCall(x)
	if path != "sync/atomic" {
		return ""
	}
	for _, op := range []string{"Load", "Store", "CompareAndSwap", "Add"} {
		if strings.HasPrefix(name, op) {
			switch strings.TrimPrefix(name, op) {
			case "Uint32", "Uint64", "Int64", "Uintptr":
				return op
			}
		}
	}
	return ""
}

// rootThroughPlace: the variable an lvalue lives in, following h := &s[i].
func (t *Translator) rootThroughPlace(e ast.Expr) types.Object {
	o, _ := t.rootObj(e)
	if o != nil && t.seq != nil {
		if r := t.seq.placeRoot[o]; r != nil {
			return r
		}
	}
	return o
}

// seqAssigned: the extra variables a node assigns under the sequential reading (hook of Translator.assigned).
func (t *Translator) seqAssigned(m ast.Node, set map[types.Object]bool) {
	if t.seq == nil {
		return
	}
	mark := func(e ast.Expr) {
		if o, _ := t.rootObj(e); o != nil {
			if r := t.seq.placeRoot[o]; r != nil {
				set[r] = true
			}
		}
	}
	switch x := m.(type) {
	case *ast.AssignStmt:
		for _, l := range x.Lhs {
			mark(l)
		}
	case *ast.IncDecStmt:
		mark(x.X)
	case *ast.CallExpr:
		if o := t.seqWrites(x); o != nil {
			set[o] = true
		}
	}
}

// seqWrites: the variable an atomic Store / CompareAndSwap / Add call assigns (nil: none).
func (t *Translator) seqWrites(x *ast.CallExpr) types.Object {
	switch t.atomicOp(x) {
	case "Store", "CompareAndSwap", "Add":
		if len(x.Args) > 0 {
			if p := addrOperand(x.Args[0]); p != nil {
				return t.rootThroughPlace(p)
			}
		}
	}
	return nil
}

// ---- 3./4. struct-element slices and places ------------------------------------------------------

func lenFn(g gtype) string {
	if g.elem != nil || g.nest { // [ext:T08] nest: [][]byte
		return "zlenA"
	}
	return "zlen"
}

// elemAccess: e is h.f (h a place) or s[i].f (s a slice of structs).  k receives (base slice term, index term, the
// struct, the storage key, the base expression).
func (c *fctx) elemAccess(e ast.Expr, en *env, k func(base, idx string, st *structInfo, key string, baseExpr ast.Expr) string) (string, bool) {
	sel, ok := ast.Unparen(e).(*ast.SelectorExpr)
	if !ok {
		return "", false
	}
	switch x := ast.Unparen(sel.X).(type) {
	case *ast.Ident:
		o := c.t.info.Uses[x]
		if o == nil {
			return "", false
		}
		v := en.lookup(o)
		if v == nil || v.ty.k != kPlace {
			return "", false
		}
		return c.expr(v.place.base, en, func(b string) string { return k(b, v.name, v.ty.st, v.place.key, v.place.base) }), true
	case *ast.IndexExpr:
		tv, ok := c.t.info.Types[x.X]
		if !ok || tv.Type == nil {
			return "", false
		}
		if _, isSlice := tv.Type.Underlying().(*types.Slice); !isSlice {
			return "", false
		}
		g := c.t.exprType(x.X)
		if g.k != kSlice || g.elem == nil {
			return "", false
		}
		return c.expr(x.X, en, func(b string) string {
			return c.expr(x.Index, en, func(i string) string { return k(b, i, g.elem, c.sliceKey(x.X, en), x.X) })
		}), true
	}
	return "", false
}

func (c *fctx) fieldOf(st *structInfo, sel *ast.SelectorExpr) string {
	for i, f := range st.goNames { // [stable] the emitted name of the Go field
		if f == sel.Sel.Name {
			return st.fields[i]
		}
	}
	c.t.fail(sel, "field %s of %s", sel.Sel.Name, st.name)
	return ""
}

// seqSelector: reading h.f / s[i].f.
func (c *fctx) seqSelector(x *ast.SelectorExpr, en *env, k func(string) string) (string, bool) {
	return c.elemAccess(x, en, func(base, idx string, st *structInfo, _ string, _ ast.Expr) string {
		c.t.exprType(x)
		f := c.fieldOf(st, x)
		v := c.fresh("e")
		return fmt.Sprintf("do %s <- m_getA %s %s;;\n%s", v, base, idx, k(fmt.Sprintf("(%s_%s %s)", st.name, f, v)))
	})
}

// seqAssign: h.f = val / s[i].f = val.
func (c *fctx) seqAssign(lhs ast.Expr, val string, en *env, k func() string) (string, bool) {
	return c.elemAccess(lhs, en, func(base, idx string, st *structInfo, key string, baseExpr ast.Expr) string {
		c.checkWritable(key, en, lhs)
		f := c.fieldOf(st, ast.Unparen(lhs).(*ast.SelectorExpr))
		e, s := c.fresh("e"), c.fresh("s")
		return fmt.Sprintf("do %s <- m_getA %s %s;;\ndo %s <- m_setA %s %s (set_%s_%s %s %s);;\n%s",
			e, base, idx, s, base, idx, st.name, f, e, val, c.store(baseExpr, s, en, k))
	})
}

// livePlaces: refuse an operation that would invalidate a pointer to an element.
func (c *fctx) checkNoLivePlace(en *env, at ast.Node, hit func(key string) bool, what string) {
	for _, v := range en.vars {
		if v.ty.k == kPlace && hit(v.place.key) {
			c.t.fail(at, "%s while %s points into %s (the pointer would keep the old array)", what, v.name, v.place.key)
		}
	}
}

// seqWholeSliceStore: called before a whole variable / field is assigned.
func (c *fctx) seqWholeSliceStore(lhs ast.Expr, en *env) {
	if key := c.sliceKey(lhs, en); key != "" {
		c.checkNoLivePlace(en, lhs, func(k string) bool { return k == key }, "assignment to "+key)
	}
}

// placeDefine: h := &s[i].
func (c *fctx) placeDefine(x *ast.AssignStmt, en *env, next kont) (string, bool) {
	if x.Tok != token.DEFINE || len(x.Lhs) != 1 || len(x.Rhs) != 1 {
		return "", false
	}
	id, ok := x.Lhs[0].(*ast.Ident)
	ix := addrOfIndex(x.Rhs[0])
	if !ok || ix == nil || c.t.info.Defs[id] == nil {
		return "", false
	}
	tv, ok := c.t.info.Types[ix.X]
	if !ok || tv.Type == nil {
		return "", false
	}
	if _, isSlice := tv.Type.Underlying().(*types.Slice); !isSlice {
		return "", false
	}
	g := c.t.exprType(ix.X)
	if g.k != kSlice || g.elem == nil {
		c.t.fail(x, "pointer to an element of a slice whose elements are not a translated struct")
	}
	key := c.sliceKey(ix.X, en)
	if key == "" {
		c.t.fail(x, "pointer to an element of a slice that is not a variable or a field")
	}
	if en.shared[key] {
		c.t.fail(x, "pointer into slice %s, which may share its array with another variable (aliasing is not modelled)", key)
	}
	return c.expr(ix.X, en, func(b string) string {
		return c.expr(ix.Index, en, func(i string) string {
			en2, name := c.declare(en, c.t.info.Defs[id], gtype{k: kPlace, st: g.elem})
			en2.vars[len(en2.vars)-1].place = &placeInfo{base: ix.X, key: key}
			return fmt.Sprintf("let %s := %s in\ndo _ <- m_getA %s %s;;\n%s", name, i, b, name, next.f(en2))
		})
	}), true
}

// ---- 1. atomics, runtime.Gosched -------------------------------------------------------------------

// seqCall translates calls into sync/atomic and runtime under the sequential reading.
func (c *fctx) seqCall(x *ast.CallExpr, en *env, k func([]string) string) (string, bool) {
	t := c.t
	path, name := t.pkgCall(x)
	switch path {
	case "runtime":
		if name == "Gosched" && len(x.Args) == 0 {
			return k(nil), true
		}
		t.fail(x, "call of runtime.%s", name)
	case "sync/atomic":
	default:
		return "", false
	}
	op := t.atomicOp(x)
	want := map[string]int{"Load": 1, "Store": 2, "CompareAndSwap": 3, "Add": 2}[op]
	if op == "" || len(x.Args) != want {
		t.fail(x, "call of atomic.%s (sequential reading: Load / Store / CompareAndSwap / Add on Uint32, Uint64, Int64, Uintptr)", name)
	}
	p := addrOperand(x.Args[0])
	if p == nil {
		t.fail(x, "atomic.%s on something that is not &variable / &field", name)
	}
	g := t.exprType(p)
	if g.k != kInt && g.k != kUint {
		t.fail(x, "atomic.%s on a non-integer", name)
	}
	switch op {
	case "Load":
		return c.expr(p, en, func(v string) string { return k([]string{v}) }), true
	case "Store":
		return c.expr(x.Args[1], en, func(v string) string {
			return c.assignTo(p, v, en, func() string { return k(nil) })
		}), true
	case "Add":
		return c.expr(x.Args[1], en, func(d string) string {
			return c.expr(p, en, func(cur string) string {
				nv := c.fresh("v")
				return fmt.Sprintf("let %s := %s in\n%s", nv, c.wrapIf(g, "("+cur+" + "+d+")"),
					c.assignTo(p, nv, en, func() string { return k([]string{nv}) }))
			})
		}), true
	}
	// CompareAndSwap: the outcome and the (possibly) updated variable are bound together
	root := t.rootThroughPlace(p)
	var rv *varInfo
	if root != nil {
		rv = en.lookup(root)
	}
	if rv == nil {
		t.fail(x, "atomic.%s on something that does not live in a local variable or the receiver", name)
	}
	return c.args(x.Args[1:], en, func(vs []string) string {
		return c.expr(p, en, func(cur string) string {
			ok := c.fresh("ok")
			then := c.assignTo(p, vs[1], en, func() string { return fmt.Sprintf("Ret (%s, true)", rv.name) })
			return fmt.Sprintf("do '(%s, %s) <- (if (%s =? %s) then (\n%s\n) else Ret (%s, false));;\n%s",
				rv.name, ok, cur, vs[0], then, rv.name, k([]string{ok}))
		})
	}), true
}

// ---- 5. tagless switch ---------------------------------------------------------------------------

func (c *fctx) switchStmt(x *ast.SwitchStmt, en *env, lc *lctx, next kont) string {
	t := c.t
	if x.Tag != nil {
		t.fail(x, "switch with a tag")
	}
	// a break that targets this switch, or a fallthrough, has no counterpart in the if / else-if chain
	ast.Inspect(x.Body, func(m ast.Node) bool {
		switch y := m.(type) {
		case *ast.BranchStmt:
			if y.Tok == token.FALLTHROUGH || y.Tok == token.BREAK {
				t.fail(y, "%s inside a switch", y.Tok)
			}
		case *ast.ForStmt, *ast.RangeStmt, *ast.SwitchStmt, *ast.TypeSwitchStmt, *ast.SelectStmt, *ast.FuncLit:
			return false // a break in there has its own target; translated (or refused) on its own
		}
		return true
	})
	var cases []*ast.CaseClause
	var def *ast.CaseClause
	for _, s := range x.Body.List {
		cc := s.(*ast.CaseClause)
		if cc.List == nil {
			def = cc
		} else {
			cases = append(cases, cc)
		}
	}
	blockOf := func(cc *ast.CaseClause) *ast.BlockStmt {
		return &ast.BlockStmt{Lbrace: cc.Colon, List: cc.Body, Rbrace: cc.End()}
	}
	var chain ast.Stmt
	if def != nil {
		chain = blockOf(def)
	}
	for i := len(cases) - 1; i >= 0; i-- {
		cc := cases[i]
		cond := cc.List[0]
		for _, e := range cc.List[1:] {
			or := &ast.BinaryExpr{X: cond, OpPos: e.Pos(), Op: token.LOR, Y: e}
			t.info.Types[or] = types.TypeAndValue{Type: types.Typ[types.Bool]}
			cond = or
		}
		chain = &ast.IfStmt{If: cc.Pos(), Cond: cond, Body: blockOf(cc), Else: chain}
	}
	run := func(en1 *env, k kont) string {
		if chain == nil {
			return k.f(en1)
		}
		return c.stmt(chain, en1, lc, k)
	}
	if x.Init != nil {
		return c.stmt(x.Init, en, lc, kont{f: func(en1 *env) string { return run(en1, scoped(en, next)) }})
	}
	return run(en, next)
}

// ---- 6. timed tails --------------------------------------------------------------------------------

// usesTime: the node mentions package time or receives from a channel.
func (t *Translator) usesTime(n ast.Node) bool {
	found := false
	ast.Inspect(n, func(m ast.Node) bool {
		switch y := m.(type) {
		case *ast.Ident:
			if pn, ok := t.info.Uses[y].(*types.PkgName); ok && pn.Imported().Path() == "time" {
				found = true
			}
		case *ast.UnaryExpr:
			if y.Op == token.ARROW {
				found = true
			}
		}
		return !found
	})
	return found
}

// bodyList: the statements of fi that are translated (all of them, or those before the timed tail).
func (t *Translator) bodyList(fi *funcInfo) ([]ast.Stmt, bool) {
	list := fi.decl.Body.List
	if t.seq != nil && t.seq.timedTail[fi.goName] {
		for i, s := range list {
			if t.usesTime(s) {
				return list[:i], true
			}
		}
	}
	return list, false
}

// body: the translated part of the body as a block (for the analyses).
func (t *Translator) body(fi *funcInfo) *ast.BlockStmt {
	list, cut := t.bodyList(fi)
	if !cut {
		return fi.decl.Body
	}
	return &ast.BlockStmt{Lbrace: fi.decl.Body.Lbrace, List: list, Rbrace: fi.decl.Body.Rbrace}
}

// tailCall: the untranslated remainder, applied to the variables in scope; records the parameter's type.
func (c *fctx) tailCall(e *env, rt string) string {
	var names, tys []string
	for _, v := range e.vars {
		if v.ty.k == kPlace || (v.ty.k == kStruct && v.ty.ptr && v.obj != types.Object(c.fi.recv)) {
			c.t.fail(c.fi.decl, "pointer %s live at the timed tail of %s", v.name, c.fi.goName)
		}
		names = append(names, v.name)
		tys = append(tys, v.ty.coq())
	}
	param := fmt.Sprintf("(rest'timed : %s)", strings.Join(append(tys, "M "+rt), " -> "))
	if c.tailParam != "" && c.tailParam != param {
		c.t.fail(c.fi.decl, "timed tail of %s reached with different variables in scope", c.fi.goName)
	}
	c.tailParam = param
	return strings.TrimSpace("rest'timed " + strings.Join(names, " "))
}
