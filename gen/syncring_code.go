// Area SyncRingCode (C10, second area): the Go -> Gallina translation (gen/trans*.go) of ringz/sync.go AS USED FROM ONE
// GOROUTINE — types item and SyncRing, NewSync, Init (capacity switch, the call of roundupPowOfTwo, the slot numbering
// loop), Push, Pop, Len, IsEmpty, IsFull, Cap, and PushWait / PopWait up to their ticker loops (timed tail, see
// gen/trans_seq.go).  The calls into sync/atomic are translated with their SEQUENTIAL meaning (plain read, plain write,
// compare-and-write returning the success flag), runtime.Gosched() is a no-op, uint32 arithmetic wraps (wrap 32).
// coq/Proofs/SyncRingCode.v proves each generated function equal to the hand-written model of Model/SyncRingSeq.v on
// every run.  Fails closed on anything outside the subset (the area then degrades to gen/defaults/SyncRingCode.v).
package main

func init() { Register(Area{Name: "SyncRingCode", Gen: genSyncRingCode}) }

func genSyncRingCode(repo string) (string, error) {
	body, err := Translate(repo, TransSpec{
		Dir:     "ringz",
		Structs: []string{"item", "SyncRing"},
		Expect: map[string][]ExpectField{
			"item":     {{"value", "T"}, {"pos", "uint32"}},
			"SyncRing": {{"values", "[]item[T]"}, {"cap", "uint32"}, {"mask", "uint32"}, {"head", "uint32"}, {"tail", "uint32"}},
		},
		Funcs: []string{"NewSync", "SyncRing.Init", "SyncRing.IsEmpty", "SyncRing.IsFull", "SyncRing.Len", "SyncRing.Cap",
			"SyncRing.Push", "SyncRing.Pop", "SyncRing.PushWait", "SyncRing.PopWait"},
		TimedTail: []string{"SyncRing.PushWait", "SyncRing.PopWait"},
		Extern:    []string{"roundupPowOfTwo"}, // translated in the area RingCode (Gen/RingCode.v), imported below
	})
	if err != nil {
		return "", err
	}
	return "From Coq Require Import Bool.\nFrom V Require Import Lib.GoSem Lib.GoSemRec Gen.RingCode.\nImport GoNotations.\nLocal Open Scope Z_scope.\n" + body, nil
}
